//! Compile-time witnesses for C18 (run with `cargo +nightly test --doc`, error codes are checked on nightly only).
//! Every `compile_fail` witness has a compiling twin that differs only by the offending line, so a witness cannot
//! "pass" merely because a path is wrong.

/// W1 (compile-pass): the loaded dictionary and a tokenizer over a shared handle can cross threads.
/// ```
/// use std::sync::Arc;
/// use sudachi::dic::dictionary::JapaneseDictionary;
/// use sudachi::analysis::stateful_tokenizer::StatefulTokenizer;
/// fn send<T: Send>() {}
/// fn sync<T: Sync>() {}
/// send::<JapaneseDictionary>();
/// sync::<JapaneseDictionary>();
/// send::<Arc<JapaneseDictionary>>();
/// sync::<Arc<JapaneseDictionary>>();
/// send::<StatefulTokenizer<Arc<JapaneseDictionary>>>();
/// ```
pub struct W1AutoTraits;

/// W1' (twin, compile_fail E0277): the same assertion discriminates — a type holding `Rc<RefCell<_>>` is rejected.
/// ```compile_fail,E0277
/// use std::sync::Arc;
/// use sudachi::dic::dictionary::JapaneseDictionary;
/// struct NotShareable(std::rc::Rc<std::cell::RefCell<u8>>, Arc<JapaneseDictionary>);
/// fn sync<T: Sync>() {}
/// sync::<NotShareable>();
/// ```
pub struct W1Twin;

/// W2 (compile-pass): reading through a shared handle type-checks.
/// ```
/// use std::sync::Arc;
/// use sudachi::dic::dictionary::JapaneseDictionary;
/// fn read(d: Arc<JapaneseDictionary>) -> i16 {
///     d.grammar().connect_cost(0, 0)
/// }
/// ```
pub struct W2Read;

/// W2' (compile_fail E0596): mutating the grammar through a shared handle does not type-check — `set_connect_cost`
/// needs `&mut Grammar`, and `Arc<JapaneseDictionary>` can only hand out `&`.
/// ```compile_fail,E0596
/// use std::sync::Arc;
/// use sudachi::dic::dictionary::JapaneseDictionary;
/// use sudachi::dic::grammar::Grammar;
/// fn write(d: Arc<JapaneseDictionary>) {
///     let g: &Grammar = d.grammar();
///     let gm: &mut Grammar = &mut *g;
///     gm.set_connect_cost(0, 0, 1);
/// }
/// ```
pub struct W2Write;

/// W3 (compile_fail E0599/E0616): the grammar field of the dictionary is private — no outside code can obtain `&mut Grammar`
/// from a `&mut JapaneseDictionary` either (there is no `grammar_mut`).
/// ```compile_fail,E0599
/// use sudachi::dic::dictionary::JapaneseDictionary;
/// fn write(d: &mut JapaneseDictionary) {
///     d.grammar_mut().set_connect_cost(0, 0, 1);
/// }
/// ```
pub struct W3NoMutAccessor;

/// W4 (compile-pass): plugin trait objects handed out by the dictionary are `Send + Sync`.
/// ```
/// use sudachi::analysis::stateless_tokenizer::DictionaryAccess;
/// use sudachi::dic::dictionary::JapaneseDictionary;
/// fn sync<T: Sync + ?Sized>(_: &T) {}
/// fn check(d: &JapaneseDictionary) {
///     sync(d.oov_provider_plugins());
///     sync(d.input_text_plugins());
///     sync(d.path_rewrite_plugins());
/// }
/// ```
pub struct W4PluginObjects;
