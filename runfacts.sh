#!/bin/bash
# usage: runfacts.sh <repo-dir> <out-dir>   (scratch target dir is created and removed)
set -e
REPO=${1:-/repo}; OUT=${2:?out}
TD=$(mktemp -d /var/tmp/sverif-td-XXXXXX)
mkdir -p "$OUT"
cd "$REPO"
SFACTS_OUT="$OUT" LD_LIBRARY_PATH=$(rustc +nightly --print sysroot)/lib RUSTFLAGS="-Zmir-opt-level=0 -Awarnings" \
 RUSTC_WORKSPACE_WRAPPER=/verif/sfacts/target/release/sfacts CARGO_TARGET_DIR=$TD CARGO_NET_OFFLINE=true \
 cargo +nightly check --offline --workspace >"$OUT/cargo.log" 2>&1 || { tail -30 "$OUT/cargo.log"; rm -rf "$TD"; exit 3; }
rm -rf "$TD"
