mod common;
use common::*;
use std::panic::{catch_unwind, AssertUnwindSafe};
use sudachi::dic::build::DictBuilder;
use sudachi::dic::subset::InfoSubset;
use sudachi::dic::word_id::WordId;
use sudachi::prelude::*;
use sudachi::sentence_splitter::{SentenceSplitter, SplitSentences};
use sudachi::analysis::stateless_tokenizer::DictionaryAccess;

fn report<T: std::fmt::Debug>(name: &str, f: impl FnOnce() -> T) {
    match catch_unwind(AssertUnwindSafe(f)) {
        Ok(v) => println!("TRIAGE {} => returned {:?}", name, v),
        Err(e) => {
            let msg = e.downcast_ref::<String>().cloned().or_else(|| e.downcast_ref::<&str>().map(|s| s.to_string())).unwrap_or_default();
            println!("TRIAGE {} => PANIC {}", name, msg)
        }
    }
}

const CFG_TMPL: &str = r#"{
    "path" : "tests/resources/",
    "characterDefinitionFile" : "char.def",
    "inputTextPlugin" : [ { "class" : "com.worksap.nlp.sudachi.DefaultInputTextPlugin" } ],
    "oovProviderPlugin" : [ OOV ],
    "connectionCostPlugin": [ CONN ],
    "pathRewritePlugin" : [ ]
}"#;

fn cfg(oov: &str, conn: &str) -> &'static [u8] {
    let s = CFG_TMPL.replace("OOV", oov).replace("CONN", conn);
    Box::leak(s.into_boxed_str()).as_bytes()
}
const SIMPLE: &str = r#"{ "class" : "com.worksap.nlp.sudachi.SimpleOovPlugin", "oovPOS" : [ "名詞", "普通名詞", "一般", "*", "*", "*" ], "leftId" : 8, "rightId" : 8, "cost" : 6000 }"#;

#[test]
fn triage_all() {
    // F10: terminator as one-char dictionary entry suppresses break
    report("F10 sentence split with '。' in dictionary", || {
        let lex = "。,5,5,1000,。,補助記号,句点,*,*,*,*,。,。,*,A,*,*,*,*\nあ,8,8,1000,あ,名詞,普通名詞,一般,*,*,*,ア,あ,*,A,*,*,*,*\n";
        let t = TestStatefulTokenizer::builder(lex.as_bytes()).config(cfg(SIMPLE, "")).build();
        let sp = SentenceSplitter::new().with_checker(t.dict().lexicon());
        let with: Vec<String> = sp.split("あ。あ。あ").map(|(_, s)| s.to_owned()).collect();
        let sp2 = SentenceSplitter::new();
        let without: Vec<String> = sp2.split("あ。あ。あ").map(|(_, s)| s.to_owned()).collect();
        (with, without)
    });
    // F8: dictionary_form with subset DIC_FORM_WORD_ID
    report("F8 dictionary_form subset", || {
        let t = TestStatefulTokenizer::builder(LEX_CSV).config(cfg(SIMPLE, "")).build();
        let lex = t.dict().lexicon();
        let id = WordId::new(0, 3);
        let full = lex.get_word_info(id).unwrap();
        let sub = lex.get_word_info_subset(id, InfoSubset::DIC_FORM_WORD_ID.normalize()).unwrap();
        (full.dictionary_form().to_owned(), sub.dictionary_form().to_owned())
    });
    // F4 empty matrix
    report("F4 read_conn(empty)", || { let mut b = DictBuilder::new_system(); b.read_conn(&b""[..]).is_ok() });
    // F5 out of range coords
    report("F5 read_conn(out-of-range)", || { let mut b = DictBuilder::new_system(); b.read_conn(&b"2 2\n5 5 1\n"[..]).is_ok() });
    report("F5b read_conn(wrong cell: left=2 right=0 in 2x2)", || { let mut b = DictBuilder::new_system(); b.read_conn(&b"2 2\n2 0 7\n"[..]).is_ok() });
    report("F5c read_conn(negative)", || { let mut b = DictBuilder::new_system(); b.read_conn(&b"2 2\n-1 0 7\n"[..]).is_ok() });
    // F6 negative right id
    report("F6 compile negative right_id", || {
        let lex = "あ,8,-1,1000,あ,名詞,普通名詞,一般,*,*,*,ア,あ,*,A,*,*,*,*\n";
        let mut b = DictBuilder::new_system();
        b.read_conn(&include_bytes!("resources/matrix_10x10.def")[..]).unwrap();
        b.read_lexicon(lex.as_bytes()).unwrap(); b.resolve().unwrap();
        let mut out = Vec::new(); b.compile(&mut out).is_ok()
    });
    report("F6b analyse with negative right_id", || {
        let lex = "あ,8,-1,1000,あ,名詞,普通名詞,一般,*,*,*,ア,あ,*,A,*,*,*,*\n";
        let mut t = TestStatefulTokenizer::builder(lex.as_bytes()).config(cfg(SIMPLE, "")).build();
        t.tokenize("ああ").len()
    });
    // F7 no indexable row
    report("F7 compile no indexable row", || {
        let lex = "あ,-1,-1,1000,あ,名詞,普通名詞,一般,*,*,*,ア,あ,*,A,*,*,*,*\n";
        let mut b = DictBuilder::new_system();
        b.read_conn(&include_bytes!("resources/matrix_10x10.def")[..]).unwrap();
        b.read_lexicon(lex.as_bytes()).unwrap(); b.resolve().unwrap();
        let mut out = Vec::new(); b.compile(&mut out).is_ok()
    });
    report("F7b compile empty lexicon", || {
        let mut b = DictBuilder::new_system();
        b.read_conn(&include_bytes!("resources/matrix_10x10.def")[..]).unwrap();
        b.read_lexicon(&b""[..]).unwrap(); b.resolve().unwrap();
        let mut out = Vec::new(); b.compile(&mut out).is_ok()
    });
    // F1 leftId == num_left accepted
    report("F1 simple oov leftId=10 on 10x10", || {
        let oov = SIMPLE.replace("\"leftId\" : 8", "\"leftId\" : 10");
        let mut t = TestStatefulTokenizer::builder(LEX_CSV).config(cfg(&oov, "")).build();
        t.tokenize("zzz").len()
    });
    // F3 inhibit out of range
    report("F3 inhibit pair [10,0] on 10x10", || {
        let conn = r#"{ "class": "com.worksap.nlp.sudachi.InhibitConnectionPlugin", "inhibitPair": [[10, 0]] }"#;
        let t = TestStatefulTokenizer::builder(LEX_CSV).config(cfg(SIMPLE, conn)).build();
        let g = t.dict().grammar();
        (g.connect_cost(0, 1), "loaded ok")
    });
    report("F3b inhibit pair [100,100] on 10x10", || {
        let conn = r#"{ "class": "com.worksap.nlp.sudachi.InhibitConnectionPlugin", "inhibitPair": [[100, 100]] }"#;
        let _t = TestStatefulTokenizer::builder(LEX_CSV).config(cfg(SIMPLE, conn)).build();
        "loaded ok"
    });
    // K2 get_internal_cost in mode A
    report("K2 get_internal_cost mode A", || {
        let lex = "あい,8,8,-30000,あい,名詞,普通名詞,一般,*,*,*,アイ,あい,*,C,1/2,1/2,*,*\nあ,8,8,1000,あ,名詞,普通名詞,一般,*,*,*,ア,あ,*,A,*,*,*,*\nい,8,8,1000,い,名詞,普通名詞,一般,*,*,*,イ,い,*,A,*,*,*,*\nう,8,8,-30000,う,名詞,普通名詞,一般,*,*,*,ウ,う,*,A,*,*,*,*\n";
        let mut t = TestStatefulTokenizer::builder(lex.as_bytes()).mode(Mode::A).config(cfg(SIMPLE, "")).build();
        let ms = t.tokenize("うあい");
        (ms.len(), ms.get_internal_cost())
    });
    // F12 regex maxLength huge
    report("F12 regex oov maxLength=usize::MAX", || {
        let oov = format!(r#"{{ "class": "com.worksap.nlp.sudachi.RegexOovProvider", "oovPOS": [ "名詞", "普通名詞", "一般", "*", "*", "*" ], "leftId": 5, "rightId": 5, "cost": 100, "regex": "[a-z]+", "maxLength": {} }}, {}"#, usize::MAX, SIMPLE);
        let mut t = TestStatefulTokenizer::builder(LEX_CSV).config(cfg(&oov, "")).build();
        t.tokenize("京都abc").len()
    });
}

#[test]
fn triage_more() {
    // F9 prefix keys: fast vs slow path
    report("F9 rewrite prefix keys", || {
        let itp = r#"{ "class" : "com.worksap.nlp.sudachi.DefaultInputTextPlugin", "rewriteDef": "/var/tmp/triage/rewrite_prefix.def" }"#;
        let c = CFG_TMPL.replace(r#"{ "class" : "com.worksap.nlp.sudachi.DefaultInputTextPlugin" }"#, itp).replace("OOV", SIMPLE).replace("CONN", "");
        let c: &'static [u8] = Box::leak(c.into_boxed_str()).as_bytes();
        let mut t = TestStatefulTokenizer::builder(LEX_CSV).config(c).build();
        // fast path: all lowercase NFKC
        let fast: Vec<String> = t.tokenize("abc").iter().map(|m| m.normalized_form().to_owned()).collect();
        // slow path: unrelated uppercase char elsewhere forces the slow path
        let slow: Vec<String> = t.tokenize("abcZ").iter().map(|m| m.normalized_form().to_owned()).collect();
        (fast, slow)
    });
    // K1 i32 accumulation overflow at cost extremes
    report("K1 cost accumulation", || {
        let lex = "1,0,0,32767,1,名詞,普通名詞,一般,*,*,*,1,1,*,A,*,*,*,*\n";
        let mut m = String::from("1 1\n0 0 32767\n");
        let _ = &mut m;
        let oov = SIMPLE.replace("\"leftId\" : 8", "\"leftId\" : 0").replace("\"rightId\" : 8", "\"rightId\" : 0");
        let mut b = TestStatefulTokenizer::builder(lex.as_bytes());
        let mm: &'static [u8] = Box::leak(m.into_boxed_str()).as_bytes();
        b.conn = Some(mm);
        let mut t = b.config(cfg(&oov, "")).build();
        let text = "1".repeat(49149);
        t.tokenize(&text).len()
    });
}
