// triage record for F14 (placed at sudachi/tests/triage_f14.rs in a scratch worktree; `cargo test --offline -p sudachi --test triage_f14`)
mod common;
use common::*;
use sudachi::prelude::*;

// one-entry user dictionary whose dictionary form column says "10": a valid *system* word number, but the loader resolves
// dictionary forms inside the word's own lexicon, which has a single entry
const USER_X: &[u8] = "はしるる,8,8,5000,はしるる,名詞,普通名詞,一般,*,*,*,ハシルル,はしるる,10,A,*,*,*,*\n".as_bytes();

#[test]
fn f14_user_dic_form_reference() {
    let mut tok = TestStatefulTokenizer::builder(LEX_CSV).user(USER_X).build();
    let ms = tok.tokenize("はしるる");
    for m in ms.iter() {
        println!("{} dic={} dictionary_form={:?}", m.surface(), m.dictionary_id(), m.dictionary_form());
    }
}
