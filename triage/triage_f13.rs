mod common;
use common::*;
use sudachi::config::SurfaceProjection;
use sudachi::dic::subset::InfoSubset;
use sudachi::prelude::*;

const USER_B: &[u8] = "はしるる,8,8,5000,はしるる,動詞,ユーザ,*,*,*,*,ハシルル,はしるる,*,A,*,*,*,*\n".as_bytes();

#[test]
fn f13_pos_id_under_projection_subset() {
    // user1 defines a user-only POS (noun-like), the second user dictionary defines a different user-only POS (verb)
    let mut full = TestStatefulTokenizer::builder(LEX_CSV).user(USER1_CSV).user(USER_B).build();
    let ms = full.tokenize("はしるる");
    assert_eq!(ms.len(), 1);
    let pos_full = ms.get(0).part_of_speech_id();
    let pos_full_str = ms.get(0).part_of_speech().to_vec();

    let mut sub = TestStatefulTokenizer::builder(LEX_CSV).user(USER1_CSV).user(USER_B).build();
    let req = SurfaceProjection::DictionaryAndSurface.required_subset();
    sub.tok.set_subset(req);
    let ms = sub.tokenize("はしるる");
    assert_eq!(ms.len(), 1);
    let pos_sub = ms.get(0).part_of_speech_id();
    let pos_sub_str = ms.get(0).part_of_speech().to_vec();
    println!("full: {} {:?}  subset{:?}: {} {:?}", pos_full, pos_full_str, req, pos_sub, pos_sub_str);
    assert_eq!(pos_full, pos_sub, "part_of_speech_id read by the projection differs from the real one");
}
