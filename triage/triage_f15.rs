// triage record for F15 (placed at sudachi/tests/triage_f15.rs in a scratch worktree; `cargo test --offline -p sudachi --test triage_f15`)
// A 3x2 connection matrix: ConnectionMatrix::cost(left, right) bounds its FIRST argument (the right id of the left node) by
// num_left=3 and its SECOND argument (the left id of the right node) by num_right=2.  The compiler and check_left_id validate a
// word's / plugin's left id against num_left, i.e. against the other axis.
mod common;
use common::*;
use sudachi::prelude::*;

const CONN_3X2: &[u8] = b"3 2\n0 0 0\n0 1 10\n1 0 20\n1 1 30\n2 0 40\n2 1 50\n";
// left id 2 is < num_left (3) but not < num_right (2)
const LEX: &[u8] = "東京,2,0,5000,東京,名詞,固有名詞,地名,一般,*,*,トウキョウ,東京,*,A,*,*,*,*\n".as_bytes();
const CFG: &[u8] = r#"{
    "path" : "tests/resources/",
    "characterDefinitionFile" : "char.def",
    "oovProviderPlugin" : [
        { "class" : "$exe/simple_oov", "oovPOS" : [ "名詞", "固有名詞", "地名", "一般", "*", "*" ], "leftId" : 0, "rightId" : 0, "cost" : 6000 }
    ]
}"#
.as_bytes();

#[test]
fn f15_left_id_checked_against_the_other_axis() {
    // compiles: validate_entries compares left_id with the matrix's num_left
    let mut tok = TestStatefulTokenizer::builder(LEX).conn(CONN_3X2).config(CFG).build();
    // BOS -> 東京 looks up cost(0, 2): index = 2 * 3 + 0 = 6 == data.len(): out of bounds (debug_assert in debug builds, UB read in release)
    let ms = tok.tokenize("東京");
    for m in ms.iter() {
        println!("{} cost={}", m.surface(), m.total_cost());
    }
}

// the same through a plugin setting: leftId 2 passes check_left_id (2 <= num_left) and the OOV node's left id indexes row 2 of a 2-row axis
const LEX0: &[u8] = "東京,0,0,5000,東京,名詞,固有名詞,地名,一般,*,*,トウキョウ,東京,*,A,*,*,*,*\n".as_bytes();
const CFG2: &[u8] = r#"{
    "path" : "tests/resources/",
    "characterDefinitionFile" : "char.def",
    "oovProviderPlugin" : [
        { "class" : "$exe/simple_oov", "oovPOS" : [ "名詞", "固有名詞", "地名", "一般", "*", "*" ], "leftId" : 2, "rightId" : 0, "cost" : 6000 }
    ]
}"#
.as_bytes();

#[test]
fn f15_plugin_left_id_checked_against_the_other_axis() {
    let mut tok = TestStatefulTokenizer::builder(LEX0).conn(CONN_3X2).config(CFG2).build(); // loads
    let ms = tok.tokenize("京都"); // unknown word -> simple OOV node with left id 2
    for m in ms.iter() {
        println!("{} cost={}", m.surface(), m.total_cost());
    }
}
