// triage record for F16 (placed at sudachi/tests/triage_f16.rs in a scratch worktree; `cargo test --offline -p sudachi --test triage_f16`)
// The CSV escape \u0000 puts a NUL into an index key.  yada terminates keys with a 0 byte, so a key containing NUL is either
// truncated at the NUL (a different key is indexed) or collides with the terminator of another key and the builder panics.
use sudachi::dic::build::DictBuilder;

#[test]
fn f16_nul_in_index_key_collides() {
    let mut bldr = DictBuilder::new_system();
    bldr.read_conn(include_bytes!("resources/matrix_10x10.def")).unwrap();
    let lex = "a,1,1,5000,a,名詞,普通名詞,一般,*,*,*,エー,a,*,A,*,*,*,*\na\\u0000,1,1,5000,a,名詞,普通名詞,一般,*,*,*,エー,a,*,A,*,*,*,*\n";
    bldr.read_lexicon(lex.as_bytes()).unwrap();
    bldr.resolve().unwrap();
    let mut out = Vec::new();
    let r = bldr.compile(&mut out);
    println!("compile -> {:?}", r.map(|_| out.len()));
}

#[test]
fn f16_nul_in_single_index_key_is_truncated() {
    let mut bldr = DictBuilder::new_system();
    bldr.read_conn(include_bytes!("resources/matrix_10x10.def")).unwrap();
    let lex = "a\\u0000b,1,1,5000,a,名詞,普通名詞,一般,*,*,*,エー,a,*,A,*,*,*,*\n";
    bldr.read_lexicon(lex.as_bytes()).unwrap();
    bldr.resolve().unwrap();
    let mut out = Vec::new();
    let r = bldr.compile(&mut out);
    println!("compile -> {:?}", r.map(|_| out.len()));
}
