import sys; sys.path.insert(0,'/verif')
from sverif import facts
from sverif.db import DB, render, walk
def load(repo):
    crates, meta = facts.get_facts(repo)
    return DB(crates, dict(meta or {}, repo=repo))
