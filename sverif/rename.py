"""Identity of functions across renames.  The rules anchor on function names (`db.one("build_lattice", "LatticeBuilder")`,
`path_ends(callee(c), "provide_oovs")`).  A maintainer may rename a private function without changing behaviour; so that this is
not reported as a lost anchor, the functions of the analysed tree are reconciled with the table of the pinned tree
(`fn_table.json`: key -> parent item, signature): a table function that is missing, while exactly one function that is NOT in
the table has the same parent (module / impl) and the same signature (parameter and return types), is taken to be that function
under a new name, and the facts are rewritten to the old name before any rule runs (keys, resolved callees, paths).  Rules then
judge the renamed function's body exactly as before.  A function that was removed and replaced by a different one with the same
signature is judged by the old function's rules — which then fail on its body: the reconciliation can turn a lost anchor into a
precise violation, never into silence.  Renames are reported in the evidence (`renamed_functions`)."""
import json, os

TABLE = os.path.join(os.path.dirname(__file__), "fn_table.json")


def _sig(info):
    ins = info.get("inputs")
    if isinstance(ins, list):
        ins = ",".join(str(x) for x in ins)
    return "%s|%s|%s|%s" % (info.get("kind"), ins, info.get("output"), bool(info.get("unsafe")))


def _features(info):
    """what a body does, independent of names of locals and of workspace functions: external callees, methods, fields, literals"""
    feats = []
    stack = [info.get("hir")]
    while stack:
        x = stack.pop()
        if isinstance(x, list):
            stack.extend(x)
        elif isinstance(x, dict):
            k = x.get("k")
            if k == "MethodCall":
                feats.append("m:" + str(x.get("method")))
            elif k == "Call":
                c = x.get("resolved") or x.get("callee") or ""
                feats.append("c:" + c.rsplit("::", 1)[-1] if c.startswith(("std::", "core::", "alloc::")) else "c:ws")
            elif k == "Field":
                feats.append("f:" + str(x.get("name")))
            elif k == "Lit":
                feats.append("l:" + str(x.get("v"))[:24])
            elif k in ("Binary", "AssignOp", "Unary"):
                feats.append("o:" + str(x.get("op")))
            stack.extend(v for v in x.values() if isinstance(v, (dict, list)))
    import collections
    return sorted("%s*%d" % kv for kv in collections.Counter(feats).items())


def _sim(a, b):
    a, b = set(a), set(b)
    return len(a & b) / float(len(a | b)) if (a or b) else 1.0


def table_of(crates, features=True):
    out = {}
    for c in crates:
        for k, v in c["fns"].items():
            if v.get("kind") not in ("Fn", "AssocFn") or "::tests::" in k or "::test::" in k or "{" in k or "::__" in k or k.startswith("<"):
                continue
            out[k] = {"parent": k.rsplit("::", 1)[0], "sig": _sig(v), "pkg": c["pkg"]}
            if features:
                out[k]["feat"] = _features(v)
    return out


def reconcile(crates):
    """-> {new key: old key}; rewrites `crates` in place"""
    if not os.path.exists(TABLE):
        return {}
    pinned = json.load(open(TABLE))
    cur = table_of(crates)
    missing = [k for k in pinned if k not in cur]
    extra = [k for k in cur if k not in pinned]
    if not missing or not extra:
        return {}
    mp = {}
    groups = {}
    for k in missing:
        groups.setdefault((pinned[k]["pkg"], pinned[k]["parent"], pinned[k]["sig"]), [[], []])[0].append(k)
    for e in extra:
        g = groups.get((cur[e]["pkg"], cur[e]["parent"], cur[e]["sig"]))
        if g is not None:
            g[1].append(e)
    for (pkg, parent, sig), (ms, es) in groups.items():
        if len(ms) == 1 and len(es) == 1:
            mp[es[0]] = ms[0]
            continue
        # several siblings with one signature were renamed at once (`fn x(&mut self)`): pair them by what their bodies do
        pairs = sorted(((_sim(pinned[m].get("feat", []), cur[e].get("feat", [])), m, e) for m in ms for e in es), reverse=True)
        used_m, used_e = set(), set()
        for sc, m, e in pairs:
            if m in used_m or e in used_e or sc < 0.6:
                continue
            rival = max([s2 for s2, m2, e2 in pairs if (m2 == m) != (e2 == e) and m2 not in used_m and e2 not in used_e] or [0.0])
            if sc - rival < 0.1:
                continue
            mp[e] = m
            used_m.add(m)
            used_e.add(e)
    if not mp:
        return {}
    olds = sorted(mp, key=len, reverse=True)
    news = set(mp.values())

    def fix(s):
        for e in olds:
            if s == e or s.startswith(e + "::") or s.startswith(e + "<"):
                return mp[e] + s[len(e):]
        return s

    def go(x):
        if isinstance(x, dict):
            for k in list(x.keys()):
                v = x[k]
                if isinstance(v, str):
                    if "::" in v:
                        x[k] = fix(v)
                elif isinstance(v, (dict, list)):
                    go(v)
            for k in [k for k in x if isinstance(k, str) and "::" in k and fix(k) != k]:
                x[fix(k)] = x.pop(k)
            if x.get("k") == "MethodCall":
                # the method NAME as written at the call site follows the resolved callee
                for c_ in (x.get("resolved"), x.get("callee")):
                    if c_ in news:
                        x["method"] = c_.rsplit("::", 1)[1]
                        break
        elif isinstance(x, list):
            for i, v in enumerate(x):
                if isinstance(v, str):
                    if "::" in v:
                        x[i] = fix(v)
                elif isinstance(v, (dict, list)):
                    go(v)
    for c in crates:
        go(c)
        for e, k in mp.items():
            if k in c["fns"]:
                c["fns"][k]["renamed_from_source_name"] = e.rsplit("::", 1)[1]
                c["fns"][k]["name"] = k.rsplit("::", 1)[1]
    return mp


# ---------------------------------------------------------------------------------------------------------------- fields
ADT_TABLE = os.path.join(os.path.dirname(__file__), "adt_table.json")


def adt_table_of(crates):
    """struct key -> [(field name, type)] in declaration order (structs of the workspace only)"""
    out = {}
    for c in crates:
        for k, a in c["adts"].items():
            if a.get("kind") != "Struct" or len(a.get("variants") or []) != 1:
                continue
            out[k] = [[f_.get("name"), f_.get("ty")] for f_ in a["variants"][0].get("fields") or []]
    return out


def reconcile_fields(crates):
    """a struct of the pinned tree whose fields have, position by position, the same types but other names was subject to a
    field rename: the facts are rewritten to the pinned field names (HIR field accesses, struct literals / patterns, MIR
    projections, the definition).  -> {struct key: {new name: old name}}"""
    if not os.path.exists(ADT_TABLE):
        return {}
    pinned = json.load(open(ADT_TABLE))
    cur = adt_table_of(crates)
    mp = {}
    for k, fields in cur.items():
        old = pinned.get(k)
        if not old or len(old) != len(fields) or [n for n, _ in old] == [n for n, _ in fields]:
            continue
        if [t for _, t in old] != [t for _, t in fields]:
            continue
        # only a pure renaming: the names that stayed are in place, the new names are not pinned names of this struct
        oldnames = {n for n, _ in old}
        m = {}
        ok = True
        for (o, _), (n, _) in zip(old, fields):
            if o != n:
                if n in oldnames:
                    ok = False      # a permutation of fields, not a rename
                m[n] = o
        if ok and m:
            mp[k] = m
    if not mp:
        return {}
    tails = {k.rsplit("::", 1)[-1]: k for k in mp}

    def go(x):
        if isinstance(x, dict):
            kk = x.get("k")
            if kk == "Field" and x.get("adt") in mp and x.get("name") in mp[x["adt"]]:
                x["name"] = mp[x["adt"]][x["name"]]
            elif "f" in x and x.get("adt") in mp and x.get("f") in mp[x["adt"]]:
                x["f"] = mp[x["adt"]][x["f"]]
            elif kk == "Struct" and isinstance(x.get("fields"), list):
                key = x.get("path") if x.get("path") in mp else None
                if key is None and isinstance(x.get("ty"), str):
                    # `Self { .. }` / generic structs: the literal's type, without its generic arguments
                    t = x["ty"].split("<", 1)[0]
                    for cand in (t, t.replace("crate::", crate[0] + "::", 1)):
                        if cand in mp:
                            key = cand
                if key:
                    for fl in x["fields"]:
                        if isinstance(fl, dict) and fl.get("name") in mp[key]:
                            fl["name"] = mp[key][fl["name"]]
            for v in x.values():
                if isinstance(v, (dict, list)):
                    go(v)
        elif isinstance(x, list):
            for v in x:
                if isinstance(v, (dict, list)):
                    go(v)
    crate = [None]
    for c in crates:
        crate[0] = c.get("crate") or c.get("pkg")
        for k, a in c["adts"].items():
            if k in mp:
                for f_ in a["variants"][0]["fields"]:
                    if f_.get("name") in mp[k]:
                        f_["name"] = mp[k][f_["name"]]
        go(c["fns"])
        go(c.get("statics", {}))
    return mp
