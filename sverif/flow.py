"""Value-point reasoning over path conditions: is a node reachable when a given local has a given small integer value?"""
from .db import peel, peel_casts, deref_let, lit_int, path_conditions, atoms, local_name, callee, path_ends
from .guards import cmp_atom, holds, eval3


def var_evaluator(is_var, value):
    """atoms `v OP k` / `k OP v` with v satisfying is_var (after looking through lets / casts) are evaluated at v = value"""
    def ev(atom):
        c = cmp_atom(atom)
        if not c:
            return None
        op, l, r = c
        lv, rv = lit_int(l), lit_int(r)
        if rv is not None and is_var(l):
            return holds(op, value, rv)
        if lv is not None and is_var(r):
            return holds(op, lv, value)
        return None
    return ev


def result_evaluator(is_subject, ok):
    """atom evaluator for "the Result (Option) satisfying is_subject is Ok/Some (ok=True) or Err/None (ok=False)": decides match
    arms / `if let` / `let else` patterns over it and `.is_ok()` / `.is_err()` / `.is_some()` / `.is_none()` tests of it, in
    whatever form the decision is written"""
    POS, NEG = ("Ok", "Some"), ("Err", "None")

    def subj(e):
        e = peel(e)
        seen = 0
        while isinstance(e, dict) and seen < 8:
            if is_subject(e):
                return True
            if e.get("k") == "Path" and "let_init" in e:
                e = peel(e["let_init"])
            elif e.get("k") in ("AddrOf", "Deref") or (e.get("k") == "MethodCall" and e.get("method") in ("as_ref", "as_mut", "as_deref")):
                e = peel(e.get("e") or e.get("recv"))
            else:
                return False
            seen += 1
        return False

    def pat_val(pat):
        if not isinstance(pat, dict):
            return None
        if pat.get("k") in ("Wild", "Bind"):
            return True
        last = (pat.get("path") or "").split("::")[-1]
        if last in POS:
            return ok
        if last in NEG:
            return not ok
        return None

    def ev(atom):
        if isinstance(atom, tuple) and atom and atom[0] == "arm":
            return pat_val(atom[2]) if subj(atom[1]) else None
        a = peel(atom)
        if not isinstance(a, dict):
            return None
        if a.get("k") == "LetExpr" and subj(a.get("init")):
            return pat_val(a.get("pat"))
        if a.get("k") == "MethodCall" and subj(a.get("recv")):
            m = a.get("method")
            if m in ("is_ok", "is_some"):
                return ok
            if m in ("is_err", "is_none"):
                return not ok
        return None
    return ev


def with_selected_patterns(db, f, ev):
    """extends the atom evaluator `ev` to `if let Some(x) = E` / `match E { Some(..) => .. }` conditions where E is not itself
    decided by ev but evaluates — under ev — to a literal `Some(..)` / `None` / `Ok(..)` / `Err(..)` (the decision was moved into a
    helper or a block that returns an Option): E is followed with `select` under the same assignment"""
    def ev2(atom):
        v = ev(atom)
        if v is not None:
            return v
        if isinstance(atom, tuple) and atom and atom[0] == "arm":
            init, pat = atom[1], atom[2]
        else:
            a = peel(atom)
            if not (isinstance(a, dict) and a.get("k") == "LetExpr"):
                return None
            init, pat = a.get("init"), a.get("pat")
        if not isinstance(pat, dict) or not isinstance(init, dict):
            return None
        want = (pat.get("path") or "").split("::")[-1]
        if want not in ("Some", "None", "Ok", "Err"):
            return None
        sel = peel(select(db, f, init, ev))
        if not isinstance(sel, dict):
            return None
        got = None
        if sel.get("k") == "Call":
            got = (sel.get("callee") or "").split("::")[-1]
        elif sel.get("k") == "Path" and sel.get("res") == "def":
            got = (sel.get("path") or "").split("::")[-1]
        if got not in ("Some", "None", "Ok", "Err"):
            return None
        return got == want
    return ev2


def holds_at(pcs, ev):
    """True: every condition definitely has its recorded polarity; False: some condition definitely has the other; None: unknown"""
    res = True
    for c, pol in pcs or []:
        if isinstance(c, tuple) and c and c[0] == "arm":
            v = ev(c)               # ("arm", scrutinee, pattern): evaluators that know patterns may decide it
            if v is None:
                res = None if res is True else res
            elif v != pol:
                return False
            continue
        if not isinstance(c, dict):
            continue
        v = eval3(c, ev)
        if v is None:
            res = None if res is True else res
        elif v != pol:
            return False
    return res


def reachable_at(root, node_id, is_var, value):
    """three-valued: can control reach node `node_id` inside `root` when the variable has `value`?"""
    pcs = path_conditions(node_id, root)
    if pcs is None:
        return None
    return holds_at(pcs, var_evaluator(is_var, value))


def is_local_from_call(suffix):
    """predicate: expression is (a cast of / a let-bound alias of) the result of a call whose callee ends with suffix"""
    def p(e):
        e = peel_casts(e)
        e2 = deref_let(e)
        e2 = peel_casts(e2)
        for x in (e, e2):
            if isinstance(x, dict) and x.get("k") in ("Call", "MethodCall") and (path_ends(callee(x) or "", suffix) or x.get("method") == suffix.split("::")[-1]):
                return True
        return False
    return p



def outcomes(root, ev, classify):
    """abstract execution of a function body under the three-valued atom evaluator `ev`: the set of kinds (classify(expr)) of the
    values the function can return — through `return`, through the tail expression, or 'try' for a `?` that may propagate.  Both
    branches of an `if` are taken when its condition is unknown.  The result does not depend on how the decision is written
    (early return / if-else expression / negated condition / named boolean)."""
    kinds = set()

    def run(n, tail):
        """-> may control fall out of the bottom of n"""
        n = peel(n)
        if not isinstance(n, dict):
            return True
        k = n.get("k")
        if k == "Block":
            for st in n.get("stmts", []):
                if st["k"] == "Let":
                    if "init" in st and not run(st["init"], False):
                        return False
                    continue
                if not run(st["e"], False):
                    return False
            if "expr" in n:
                return run(n["expr"], tail)
            return True
        if k == "If":
            v = eval3(n["cond"], ev)
            run(n["cond"], False)
            falls = False
            if v is not False:
                falls = run(n["then"], tail) or falls
            if v is not True:
                falls = (run(n["else"], tail) if "else" in n else True) or falls
            return falls
        if k == "Ret":
            if "e" in n:
                run(n["e"], True)
            return False
        if k == "Match":
            if n.get("src") == "TryDesugar":
                kinds.add("try")
                sc = n["scrut"]
                run(sc["args"][0] if sc.get("args") else sc, False)
                return True
            if n.get("src") == "ForLoopDesugar":
                for a in n["arms"]:
                    run(a["body"], False)
                return True
            run(n["scrut"], False)
            falls = False
            for a in n["arms"]:
                # first-match semantics: an arm whose pattern (and guard) is decided false is skipped; one decided true ends the match
                pv = ev(("arm", n["scrut"], a["pat"]))
                if (a.get("pat") or {}).get("k") == "Wild" and pv is None:
                    pv = True
                gv = eval3(a["guard"], ev) if "guard" in a else True
                if pv is False or gv is False:
                    continue
                falls = run(a["body"], tail) or falls
                if pv is True and gv is True:
                    break
            return falls
        if k in ("Loop",):
            run(n.get("body"), False)
            return True
        if k in ("Break", "Continue"):
            return False
        if tail:
            kinds.add(classify(n))
        if n.get("ty") == "!":
            return False
        return True

    run(root, True)
    return kinds



def bool_eval(db, f, e, ev, depth=2):
    """three-valued value of boolean expression `e` under the atom evaluator `ev`; an atom that is a call to a private helper of
    the same file is evaluated by abstractly executing the helper's body (all its return values must agree)"""
    from .db import is_call, deref_all
    from .inline import _is_helper

    def atom(a):
        v = ev(a)
        if v is not None:
            return v
        a2 = deref_all(a)
        if a2 is not a and isinstance(a2, dict):
            v = eval3(a2, atom)
            if v is not None:
                return v
        if isinstance(a2, dict) and is_call(a2) and depth > 0:
            g = None
            for k in (a2.get("resolved"), a2.get("callee"), callee(a2)):
                if k and k in db.fns:
                    g = db.fns[k]
                    break
            if g is not None and _is_helper(db, f, g):
                kinds = outcomes(g.hir, atom, lambda x: {True: "T", False: "F", None: "?"}[bool_eval(db, g, x, ev, depth - 1)])
                kinds.discard("try")
                if kinds == {"T"}:
                    return True
                if kinds == {"F"}:
                    return False
        return None
    return eval3(e, atom)



_W = {"u8": 8, "u16": 16, "u32": 32, "u64": 64, "usize": 64, "i8": 8, "i16": 16, "i32": 32, "i64": 64, "isize": 64}


def pure_eval(db, f, args):
    """value of a small PURE function (integer / bit arithmetic over its parameters, no calls, no state) at concrete argument
    values — constant folding of its expression tree, used to compare bit-field accessors with the format they must implement.
    Returns None when the body contains anything else."""
    from .origins import index as oindex
    bd = oindex(db).bindings(f)

    class Unknown(Exception):
        pass

    def wrap(v, ty):
        w = _W.get(ty)
        if w is None or isinstance(v, bool):
            return v
        v &= (1 << w) - 1
        if ty.startswith("i") and v >> (w - 1):
            v -= 1 << w
        return v

    def ev(n, env):
        n = peel(n)
        k = n.get("k")
        if k == "Block":
            env = dict(env)
            for st in n.get("stmts", []):
                if st["k"] == "Let" and "init" in st and st["pat"].get("k") == "Bind":
                    env[st["pat"]["lid"]] = ev(st["init"], env)
                elif st["k"] == "Let":
                    raise Unknown()
                else:
                    e = st["e"]
                    if e.get("mac") and any(m.startswith("debug_assert") for m in e["mac"]):
                        continue
                    raise Unknown()
            if "expr" not in n:
                raise Unknown()
            return ev(n["expr"], env)
        if k == "Lit":
            if n.get("t") == "bool":
                return bool(n["v"])
            if isinstance(n.get("v"), int):
                return n["v"]
            raise Unknown()
        if k == "Path" and n.get("res") == "local":
            if n["lid"] in env:
                return env[n["lid"]]
            b = bd.get(n["lid"])
            if b and b[0] == "param" and b[1] < len(args):
                return args[b[1]]
            raise Unknown()
        if k == "Path" and n.get("val") is not None and isinstance(n["val"], int):
            return n["val"]
        if k == "Cast":
            return wrap(ev(n["e"], env), n.get("ty"))
        if k == "Unary" and n.get("op") == "Not":
            v = ev(n["e"], env)
            return (not v) if isinstance(v, bool) else wrap(~v, n.get("ty"))
        if k == "Unary" and n.get("op") == "Neg":
            return wrap(-ev(n["e"], env), n.get("ty"))
        if k == "If" and "else" in n:
            return ev(n["then"], env) if ev(n["cond"], env) else ev(n["else"], env)
        if k == "Binary":
            op = n["op"]
            a = ev(n["l"], env)
            if op == "And":
                return bool(a) and bool(ev(n["r"], env))
            if op == "Or":
                return bool(a) or bool(ev(n["r"], env))
            b = ev(n["r"], env)
            if op in ("Eq", "Ne", "Lt", "Le", "Gt", "Ge"):
                return holds(op, a, b)
            fn = {"BitAnd": lambda: a & b, "BitOr": lambda: a | b, "BitXor": lambda: a ^ b, "Shl": lambda: a << b if 0 <= b < 128 else None,
                  "Shr": lambda: a >> b if 0 <= b < 128 else None, "Add": lambda: a + b, "Sub": lambda: a - b, "Mul": lambda: a * b,
                  "Rem": lambda: (abs(a) % abs(b)) * (1 if a >= 0 else -1) if b else None, "Div": lambda: (abs(a) // abs(b)) * (1 if (a >= 0) == (b >= 0) else -1) if b else None}.get(op)
            if fn is None or fn() is None:
                raise Unknown()
            return wrap(fn(), n.get("ty"))
        raise Unknown()
    try:
        return ev(f.hir, {})
    except Unknown:
        return None



def select(db, f, e, ev, depth=0):
    """the expression a value expression evaluates to under the three-valued atom assignment `ev`: follows immutable lets
    (including tuple destructuring), picks the branch of an `if` whose condition is decided, the tail of a block, and the
    helper-return of an inlined block taken under a decided condition.  Returns a node (possibly `e` itself when nothing is
    decided)."""
    from .origins import index as oindex
    if depth > 24 or not isinstance(e, dict):
        return e
    e = peel_casts(e)
    k = e.get("k")
    if k == "Path" and e.get("res") == "local":
        bd = oindex(db).bindings(f).get(e["lid"])
        if bd and bd[0] == "let" and bd[1] is not None:
            pat = bd[2] or {}
            if pat.get("k") == "Bind" and "Mut" not in (pat.get("mode") or ""):
                return select(db, f, bd[1], ev, depth + 1)
            if pat.get("k") in ("TupleStruct", "Struct") and path_ends(pat.get("path") or "", ("Option::Some", "Some", "Result::Ok", "Ok")):
                # `if let Some(x) = E`: x is the payload when E evaluates to Some(payload)
                subs = pat.get("pats") or [fl.get("pat") for fl in pat.get("fields", [])]
                if len(subs) == 1 and (subs[0] or {}).get("k") == "Bind" and subs[0].get("lid") == e["lid"]:
                    src = peel(select(db, f, bd[1], ev, depth + 1))
                    if isinstance(src, dict) and src.get("k") == "Call" and path_ends(src.get("callee") or "", ("Option::Some", "Some", "Result::Ok", "Ok")) and src.get("args"):
                        return select(db, f, src["args"][0], ev, depth + 1)
                return e
            if pat.get("k") == "Tuple":
                src = select(db, f, bd[1], ev, depth + 1)
                src = peel(src)
                if isinstance(src, dict) and src.get("k") == "Tup":
                    for i, sub in enumerate(pat["pats"]):
                        if sub.get("k") == "Bind" and sub.get("lid") == e["lid"] and i < len(src["elems"]):
                            return select(db, f, src["elems"][i], ev, depth + 1)
        return e
    if k == "If" and "else" in e:
        v = eval3(e["cond"], ev)
        if v is True:
            return select(db, f, e["then"], ev, depth + 1)
        if v is False:
            return select(db, f, e["else"], ev, depth + 1)
        return e
    if k == "Match" and e.get("src") == "Normal":
        # first-match semantics over arms whose pattern the evaluator can decide
        for a in e["arms"]:
            pv = ev(("arm", e["scrut"], a["pat"]))
            if (a.get("pat") or {}).get("k") == "Wild" and pv is None:
                pv = True
            gv = eval3(a["guard"], ev) if "guard" in a else True
            if pv is False or gv is False:
                continue
            if pv is True and gv is True:
                return select(db, f, a["body"], ev, depth + 1)
            return e
        return e
    if k == "MethodCall" and e.get("method") in ("unwrap_or", "unwrap_or_else", "unwrap_or_default", "map_or", "map_or_else") and e.get("args") is not None:
        r = peel(select(db, f, e["recv"], ev, depth + 1))
        if isinstance(r, dict) and r.get("k") == "Path" and path_ends(r.get("path") or "", ("Option::None", "None")) and e["args"]:
            d = peel(e["args"][0])
            if e["method"] in ("unwrap_or_else", "map_or_else") and d.get("k") == "Closure":
                return select(db, f, d["body"], ev, depth + 1)
            return select(db, f, d, ev, depth + 1)
        if isinstance(r, dict) and r.get("k") == "Call" and path_ends(r.get("callee") or "", ("Option::Some", "Some")) and e["method"].startswith("unwrap_or") and r.get("args"):
            return select(db, f, r["args"][0], ev, depth + 1)
        return e
    if k == "Block":
        # an early helper-return under a decided condition wins over the tail
        for st in e.get("stmts", []):
            x = st.get("e") if st["k"] in ("Expr", "Semi") else None
            x = peel(x) if isinstance(x, dict) else None
            if isinstance(x, dict) and x.get("k") == "If":
                v = eval3(x["cond"], ev)
                br = x["then"] if v is True else x.get("else") if v is False else None
                if v is None and any(y.get("k") == "BreakValue" for y, _ in __import__("sverif.db", fromlist=["walk"]).walk(x)):
                    return e            # undecided early return: unknown
                if br is not None:
                    for y, _ in __import__("sverif.db", fromlist=["walk"]).walk(br):
                        if y.get("k") == "BreakValue" and "e" in y:
                            return select(db, f, y["e"], ev, depth + 1)
        if "expr" in e:
            return select(db, f, e["expr"], ev, depth + 1)
        return e
    return e
