"""Value-point reasoning over path conditions: is a node reachable when a given local has a given small integer value?"""
from .db import peel, peel_casts, deref_let, lit_int, path_conditions, atoms, local_name, callee, path_ends
from .guards import cmp_atom, holds, eval3


def var_evaluator(is_var, value):
    """atoms `v OP k` / `k OP v` with v satisfying is_var (after looking through lets / casts) are evaluated at v = value"""
    def ev(atom):
        c = cmp_atom(atom)
        if not c:
            return None
        op, l, r = c
        lv, rv = lit_int(l), lit_int(r)
        if rv is not None and is_var(l):
            return holds(op, value, rv)
        if lv is not None and is_var(r):
            return holds(op, lv, value)
        return None
    return ev


def holds_at(pcs, ev):
    """True: every condition definitely has its recorded polarity; False: some condition definitely has the other; None: unknown"""
    res = True
    for c, pol in pcs or []:
        if not isinstance(c, dict):
            continue
        v = eval3(c, ev)
        if v is None:
            res = None if res is True else res
        elif v != pol:
            return False
    return res


def reachable_at(root, node_id, is_var, value):
    """three-valued: can control reach node `node_id` inside `root` when the variable has `value`?"""
    pcs = path_conditions(node_id, root)
    if pcs is None:
        return None
    return holds_at(pcs, var_evaluator(is_var, value))


def is_local_from_call(suffix):
    """predicate: expression is (a cast of / a let-bound alias of) the result of a call whose callee ends with suffix"""
    def p(e):
        e = peel_casts(e)
        e2 = deref_let(e)
        e2 = peel_casts(e2)
        for x in (e, e2):
            if isinstance(x, dict) and x.get("k") in ("Call", "MethodCall") and (path_ends(callee(x) or "", suffix) or x.get("method") == suffix.split("::")[-1]):
                return True
        return False
    return p



def outcomes(root, ev, classify):
    """abstract execution of a function body under the three-valued atom evaluator `ev`: the set of kinds (classify(expr)) of the
    values the function can return — through `return`, through the tail expression, or 'try' for a `?` that may propagate.  Both
    branches of an `if` are taken when its condition is unknown.  The result does not depend on how the decision is written
    (early return / if-else expression / negated condition / named boolean)."""
    kinds = set()

    def run(n, tail):
        """-> may control fall out of the bottom of n"""
        n = peel(n)
        if not isinstance(n, dict):
            return True
        k = n.get("k")
        if k == "Block":
            for st in n.get("stmts", []):
                if st["k"] == "Let":
                    if "init" in st and not run(st["init"], False):
                        return False
                    continue
                if not run(st["e"], False):
                    return False
            if "expr" in n:
                return run(n["expr"], tail)
            return True
        if k == "If":
            v = eval3(n["cond"], ev)
            run(n["cond"], False)
            falls = False
            if v is not False:
                falls = run(n["then"], tail) or falls
            if v is not True:
                falls = (run(n["else"], tail) if "else" in n else True) or falls
            return falls
        if k == "Ret":
            if "e" in n:
                run(n["e"], True)
            return False
        if k == "Match":
            if n.get("src") == "TryDesugar":
                kinds.add("try")
                sc = n["scrut"]
                run(sc["args"][0] if sc.get("args") else sc, False)
                return True
            if n.get("src") == "ForLoopDesugar":
                for a in n["arms"]:
                    run(a["body"], False)
                return True
            run(n["scrut"], False)
            falls = False
            for a in n["arms"]:
                falls = run(a["body"], tail) or falls
            return falls
        if k in ("Loop",):
            run(n.get("body"), False)
            return True
        if k in ("Break", "Continue"):
            return False
        if tail:
            kinds.add(classify(n))
        if n.get("ty") == "!":
            return False
        return True

    run(root, True)
    return kinds
