"""Fact acquisition: hash /repo's working tree, run the sfacts driver when the cache has no
facts for that hash, load the per-crate JSON files."""
import fcntl
import hashlib
import json
import os
import pickle
import shutil
import subprocess
import sys
import time

VERIF = os.path.dirname(os.path.dirname(os.path.abspath(__file__)))
CACHE = os.path.join(VERIF, ".cache")
DRIVER = os.path.join(VERIF, "sfacts", "target", "release", "sfacts")

# bodies per package counted on the pinned tree (floors; a lower count means the driver did
# not see the crate the build sees, and the run fails closed)
BODY_FLOORS = {
    "sudachi": 1200,
    "sudachi-cli": 80,
    "sudachipy": 250,
    "sudachi-fuzz": 2,
    "default_input_text": 1,
    "simple_oov": 1,
    "join_numeric": 1,
    "join_katakana_oov": 1,
}


class FactsError(Exception):
    pass


def tree_hash(repo):
    h = hashlib.sha256()
    files = []
    for root, dirs, fs in os.walk(repo):
        dirs[:] = [d for d in dirs if d not in ("target", ".git", "node_modules", ".venv")]
        for f in fs:
            p = os.path.join(root, f)
            rel = os.path.relpath(p, repo)
            if f.endswith(".rs") or f in ("Cargo.toml", "Cargo.lock") or rel.startswith("resources" + os.sep):
                files.append(rel)
    files.sort()
    for rel in files:
        h.update(rel.encode())
        h.update(b"\0")
        with open(os.path.join(repo, rel), "rb") as fh:
            h.update(fh.read())
        h.update(b"\0")
    # the driver itself is part of the key
    for f in ("main.rs", "items.rs", "hirdump.rs", "mirdump.rs", "json.rs"):
        with open(os.path.join(VERIF, "sfacts", "src", f), "rb") as fh:
            h.update(fh.read())
    return h.hexdigest()[:20], len(files)


def build_driver():
    if os.path.exists(DRIVER):
        src = os.path.join(VERIF, "sfacts", "src")
        newest = max(os.path.getmtime(os.path.join(src, f)) for f in os.listdir(src))
        if os.path.getmtime(DRIVER) >= newest:
            return
    env = dict(os.environ, CARGO_NET_OFFLINE="true")
    r = subprocess.run(["cargo", "+nightly", "build", "--offline", "--release"],
                       cwd=os.path.join(VERIF, "sfacts"), env=env,
                       stdout=subprocess.PIPE, stderr=subprocess.STDOUT, text=True)
    if r.returncode != 0:
        raise FactsError("sfacts driver build failed:\n" + r.stdout[-3000:])


def nightly_sysroot():
    return subprocess.check_output(["rustc", "+nightly", "--print", "sysroot"], text=True).strip()


def run_driver(repo, out):
    """cargo +nightly check with the driver as workspace wrapper; fresh target dir, removed
    afterwards (cargo's freshness cache would silently skip the wrapper on a warm dir)."""
    build_driver()
    import uuid
    td = "/var/tmp/sverif-td-%d-%s" % (os.getpid(), uuid.uuid4().hex[:10])
    shutil.rmtree(td, ignore_errors=True)
    os.makedirs(out, exist_ok=True)
    env = dict(os.environ)
    env.update({
        "SFACTS_OUT": out,
        "LD_LIBRARY_PATH": nightly_sysroot() + "/lib",
        "RUSTFLAGS": "-Zmir-opt-level=0 -Awarnings",
        "RUSTC_WORKSPACE_WRAPPER": DRIVER,
        "CARGO_TARGET_DIR": td,
        "CARGO_NET_OFFLINE": "true",
    })
    env.pop("RUSTC_WRAPPER", None)
    try:
        r = subprocess.run(["cargo", "+nightly", "check", "--offline", "--workspace"],
                           cwd=repo, env=env, stdout=subprocess.PIPE, stderr=subprocess.STDOUT, text=True)
        with open(os.path.join(out, "cargo.log"), "w") as fh:
            fh.write(r.stdout)
        if r.returncode != 0:
            raise FactsError("cargo check under the sfacts driver failed (the tree does not build?):\n"
                             + r.stdout[-4000:])
    finally:
        shutil.rmtree(td, ignore_errors=True)


def load_dir(d):
    crates = []
    for f in sorted(os.listdir(d)):
        if f.endswith(".json"):
            with open(os.path.join(d, f)) as fh:
                crates.append(json.load(fh))
    return crates


def check_floors(crates):
    seen = {}
    for c in crates:
        seen[c["pkg"]] = seen.get(c["pkg"], 0) + c["nbodies"]
    for pkg, floor in BODY_FLOORS.items():
        if seen.get(pkg, 0) < floor:
            raise FactsError("facts incomplete: package %s has %d bodies, floor %d"
                             % (pkg, seen.get(pkg, 0), floor))
    return seen


def get_facts(repo="/repo", verbose=False):
    """returns (crates, meta)"""
    os.makedirs(CACHE, exist_ok=True)
    h, nfiles = tree_hash(repo)
    d = os.path.join(CACHE, "facts-" + h)
    lock = open(os.path.join(CACHE, "lock"), "w")
    fcntl.flock(lock, fcntl.LOCK_EX)
    try:
        fresh = False
        if not os.path.exists(os.path.join(d, "OK")):
            shutil.rmtree(d, ignore_errors=True)
            t0 = time.time()
            run_driver(repo, d)
            crates = load_dir(d)
            seen = check_floors(crates)
            with open(os.path.join(d, "OK"), "w") as fh:
                json.dump({"wall_s": time.time() - t0, "bodies": seen}, fh)
            fresh = True
            # keep the cache small: drop all but the 6 newest fact sets
            sets = sorted((x for x in os.listdir(CACHE) if x.startswith("facts-")),
                          key=lambda x: os.path.getmtime(os.path.join(CACHE, x)))
            for old in sets[:-6]:
                shutil.rmtree(os.path.join(CACHE, old), ignore_errors=True)
    finally:
        fcntl.flock(lock, fcntl.LOCK_UN)
        lock.close()
    pk = os.path.join(d, "facts.pickle")
    crates = None
    if os.path.exists(pk):
        try:
            with open(pk, "rb") as fh:
                crates = pickle.load(fh)
        except Exception:
            crates = None
    if crates is None:
        crates = load_dir(d)
        try:
            tmp = pk + ".%d" % os.getpid()
            with open(tmp, "wb") as fh:
                pickle.dump(crates, fh, protocol=pickle.HIGHEST_PROTOCOL)
            os.replace(tmp, pk)
        except Exception:
            pass
    seen = check_floors(crates)
    meta = {"tree_hash": h, "source_files_hashed": nfiles, "facts_dir": d, "fresh": fresh,
            "bodies_per_package": seen}
    return crates, meta


if __name__ == "__main__":
    c, m = get_facts(sys.argv[1] if len(sys.argv) > 1 else "/repo")
    print(json.dumps(m, indent=1))
