"""Word-info record model: the ordered field table of the reader (WordInfoParser::parse) and the
ordered primitive sequence of the writer (RawLexiconEntry::write_word_info), extracted from HIR."""
from .db import (walk, peel, peel_casts, render, callee, path_ends, short_path, is_call, call_args, lit_int,
                 exit_kind, AnchorMissing, local_name)
from .origins import unwrap_try

READER_PRIM = {
    "utf16_string_parser": ("STR16", None), "skip_u16_string": ("STR16", None),
    "string_length_parser": ("LEN", None),
    "le_u16": ("INT", 2), "le_i16": ("INT", 2), "le_u32": ("INT", 4), "le_i32": ("INT", 4), "le_u8": ("INT", 1),
    "le_u64": ("INT", 8), "le_i64": ("INT", 8),
    "u32_wid_array_parser": ("ARR32", None), "u32_array_parser": ("ARR32", None),
    "skip_wid_array": ("ARR32", None), "skip_u32_array": ("ARR32", None),
}
INT_BYTES = {"u8": 1, "i8": 1, "u16": 2, "i16": 2, "u32": 4, "i32": 4, "u64": 8, "i64": 8}


def flag_names(e, resolve=None):
    """names of the bitflags constants or-ed together in an expression; `resolve(local path node)` may map a let-bound local to
    its initialiser"""
    e = peel(e)
    if not isinstance(e, dict):
        return set()
    k = e.get("k")
    if k == "Path" and e.get("res") == "local" and resolve is not None:
        init = resolve(e)
        if init is not None:
            return flag_names(init, resolve)
    if k == "Path" and e.get("res") == "local" and "let_init" in e:
        return flag_names(e["let_init"], resolve)      # a flag set hoisted into an immutable `let`
    if k == "Path" and e.get("res") == "def":
        named = _decompose_const(e)
        if named is not None:
            return named
        return {e["path"].split("::")[-1]}
    if k == "Binary" and e.get("op") in ("BitOr",):
        return flag_names(e["l"], resolve) | flag_names(e["r"], resolve)
    if k == "MethodCall" and e.get("method") in ("union",):
        return flag_names(e["recv"]) | set().union(*[flag_names(a) for a in e["args"]])
    if k in ("Call", "MethodCall") and (callee(e) or "").endswith("::empty"):
        return set()
    return {"?" + render(e)}


def _decompose_const(e):
    """a named constant of a bitflags type that is not itself one of the type's flags (`const SPLITS: InfoSubset = A.union(B)`) is
    the set of single-bit flags of that type contained in its evaluated value"""
    from .db import DB
    db = getattr(DB, "current", None)
    if db is None or e.get("dk") != "Const":
        return None
    c = db.consts.get(e.get("path"))
    if not c or not isinstance(c.get("val"), int):
        return None
    val, ty = c["val"], c.get("ty")
    flags = {}
    for k2, v2 in db.consts.items():
        if v2.get("ty") == ty and isinstance(v2.get("val"), int) and v2["val"] > 0 and v2["val"] & (v2["val"] - 1) == 0:
            owner = k2.rsplit("::", 1)[0]
            if ty and owner.split("::")[-1] == ty.split("::")[-1]:      # associated constant of the type itself
                flags[v2["val"]] = k2.split("::")[-1]
    out, rest = set(), val
    for bit, name in flags.items():
        if val & bit:
            out.add(name)
            rest &= ~bit
    return out if (out or val == 0) and rest == 0 else None


def _fn_name(e):
    e = peel(e)
    if e.get("k") == "Path":
        return (e.get("path") or "").split("::")[-1]
    return None


def parser_table(db):
    """[(field, flag, parse_fn, skip_fn|None, detail)] in record order"""
    f = db.view(db.one("parse", "WordInfoParser"))
    rows = []
    stmts = _linear_stmts(f.hir)
    i = 0
    pending_empty_check = False
    pending_removed = None
    while i < len(stmts):
        st = stmts[i]
        e = st.get("e") if st["k"] in ("Expr", "Semi") else None
        if e is not None and e.get("k") == "If" and "is_empty" in render(e["cond"]) and exit_kind(e["then"]) in ("ok", "ret", "helper-ret"):
            pending_empty_check = True
            i += 1
            continue
        if e is not None and e.get("k") == "AssignOp" and e.get("op") in ("Sub", "BitAnd") and "flds" in render(e["l"]):
            pending_removed = flag_names(e["r"])
            i += 1
            continue
        if st["k"] == "Let" and "init" in st:
            init = peel(st["init"]) if st["init"].get("k") != "Block" else st["init"]
            row = _field_instance(init, pending_removed)
            if row:
                row["empty_check_first"] = pending_empty_check
                rows.append(row)
                pending_empty_check = False
                pending_removed = None
        i += 1
    if len(rows) < 8:
        raise AnchorMissing("WordInfoParser::parse field instances", "(%d found)" % len(rows))
    return f, rows


def _linear_stmts(block):
    """the statements of a body in execution order, looking into inlined helper blocks (a body moved into a private helper that
    is called once is the same statement sequence)"""
    out = []
    b = peel(block)
    if not isinstance(b, dict) or b.get("k") != "Block":
        return out
    items = list(b.get("stmts", []))
    if "expr" in b:
        items.append({"k": "Expr", "e": b["expr"], "_tail": True})
    for st in items:
        e = st.get("e") if st["k"] in ("Expr", "Semi") else (st.get("init") if st["k"] == "Let" and st.get("param_of") is None else None)
        pe = peel(e) if isinstance(e, dict) else None
        if st["k"] in ("Expr", "Semi") and isinstance(pe, dict) and pe.get("k") == "Block" and (pe.get("inl") or st.get("_tail")):
            out += _linear_stmts(pe)
        elif st["k"] == "Let" and st.get("param_of"):
            continue
        else:
            out.append(st)
    return out


def _branch_info(block):
    """(parser fn name, assigned info field or None, removed flags)"""
    fn = None
    fld = None
    removed = set()
    for n, _ in walk(block):
        if n.get("k") == "Call" and n.get("callee") and (path_ends(n["callee"], tuple(READER_PRIM)) ):
            fn = n["callee"].split("::")[-1]
        elif n.get("k") == "Call" and n.get("callee") is None:
            pass
        if n.get("k") == "Assign":
            l = peel(n["l"])
            if l.get("k") == "Field" and peel(l["e"]).get("k") == "Field" and peel(l["e"]).get("name") == "info":
                fld = l["name"]
        if n.get("k") == "AssignOp" and "flds" in render(n["l"]):
            removed |= flag_names(n["r"])
    if fn is None:
        for n, _ in walk(block):
            if n.get("k") == "Call" and n.get("callee"):
                nm = n["callee"].split("::")[-1]
                if nm in READER_PRIM:
                    fn = nm
    return fn, fld, removed


def _field_instance(init, pre_removed):
    if init.get("k") == "If":
        c = peel(init["cond"])
        neg = False
        while c.get("k") == "Unary" and c.get("op") == "Not":
            neg = not neg
            c = peel(c["e"])
        if c.get("k") == "MethodCall" and c.get("method") == "contains":
            flag = flag_names(c["args"][0])
            yes, no = (init.get("else", {}), init["then"]) if neg else (init["then"], init.get("else", {}))
            tfn, fld, removed = _branch_info(yes)
            ffn, fld2, removed2 = _branch_info(no)
            return {"field": fld, "flag": flag, "parse": tfn, "skip": ffn, "removed": removed, "heavy": True,
                    "skip_assigns": fld2}
        return None
    if init.get("k") == "Block":
        tfn, fld, removed = _branch_info(init)
        if tfn and fld:
            return {"field": fld, "flag": pre_removed or set(), "parse": tfn, "skip": None, "removed": pre_removed or set(), "heavy": False}
    return None


def writer_sequence(db):
    """ordered [(prim, width, source)] of RawLexiconEntry::write_word_info"""
    from .db import deref_all
    f = db.view(db.one("write_word_info", "RawLexiconEntry"))
    seq = []
    for n, ps in walk(f.hir):
        if n.get("k") == "MethodCall":
            m = n["method"]
            c = callee(n) or ""
            if m == "write" and "Utf16Writer" in c:
                seq.append(("STR16", None, render(n["args"][1], x=True) if len(n["args"]) > 1 else "?", "write"))
            elif m == "write_empty_if_equal" and "Utf16Writer" in c:
                seq.append(("STR16", None, render(n["args"][1], x=True), "write_empty_if_equal", render(n["args"][2], x=True)))
            elif m == "write_len" and "Utf16Writer" in c:
                seq.append(("LEN", None, render(n["args"][1], x=True), "write_len"))
            elif m == "write_all" and n["args"]:
                a = deref_all(n["args"][0])      # also through a `write_raw(w, bytes)` style helper (inlined view) or a hoisted let
                if a.get("k") == "MethodCall" and a.get("method") == "to_le_bytes":
                    ty = a["recv"].get("ty") or ""
                    ty = ty.lstrip("&")
                    seq.append(("INT", INT_BYTES.get(ty), render(a["recv"]), "to_le_bytes:" + ty))
                else:
                    seq.append(("RAW", None, render(a), "write_all"))
        elif n.get("k") == "Call" and path_ends(n.get("callee"), "write_u32_array"):
            seq.append(("ARR32", None, render(n["args"][1]), "write_u32_array"))
    if len(seq) < 8:
        raise AnchorMissing("write_word_info primitive sequence", "(%d found)" % len(seq))
    return f, seq
