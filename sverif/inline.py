"""Inlining view of a function: every way it reaches a call to a target, directly or through private same-file helpers, with
the helper's parameters replaced by the caller's argument expressions and immutable lets replaced by their initialisers.  The
result is a canonical text per argument (refs / derefs / casts dropped, commutative operands sorted), so that a rule can state
what VALUE reaches the target without depending on where the expression was written (hoisted into a let, moved into a helper,
operands swapped)."""
from .db import walk, is_call, callee, call_args, render, path_ends, path_conditions, atoms


def nf(n, subst=None):
    return render(n, x=True, subst=subst, canon=True)


def _is_helper(db, f, g):
    return (g is not None and g.hir and not g.trait and g.info.get("vis") != "Public"
            and (g.info.get("span") or "").split(":")[0] == (f.info.get("span") or "").split(":")[0])


def _conds(g, node, subst):
    out = []
    for c, pol in (path_conditions(node.get("id"), g.hir) or []):
        if isinstance(c, tuple):
            continue
        for a, p in atoms(c, pol):
            out.append((nf(a, subst), p))
    return out


def expanded_calls(db, f, target, depth=2, _subst=None, _outer=None, _conds_acc=(), _seen=None):
    """yields dicts: call (the call node in the OUTERMOST function f through which the target is reached), inner (the target call
    node), fn (function containing the target call), args (canonical texts, receiver first), conds ([(canonical atom, polarity)] that
    hold on the way: in f and in every helper on the chain)"""
    from .origins import index as oindex
    ix = oindex(db)
    _seen = _seen or {f.key}
    for c, ps in walk(f.hir):
        if not is_call(c):
            continue
        cal = callee(c) or c.get("callee")
        if path_ends(cal, target):
            yield {"call": _outer or c, "inner": c, "fn": f, "args": [nf(a, _subst) for a in call_args(c)],
                   "conds": list(_conds_acc) + _conds(f, c, _subst), "parents": ps}
            continue
        g = None
        for k in (c.get("resolved"), c.get("callee")):
            if k and k in db.fns:
                g = db.fns[k]
                break
        if depth > 0 and g is not None and g.key not in _seen and _is_helper(db, f, g):
            args = call_args(c)
            sub = {}
            for lid, bd in ix.bindings(g).items():
                if bd[0] == "param" and bd[1] < len(args) and (bd[2] or {}).get("k") == "Bind":
                    sub[lid] = nf(args[bd[1]], _subst)
            yield from expanded_calls(db, g, target, depth - 1, sub, _outer or c, list(_conds_acc) + _conds(f, c, _subst), _seen | {g.key})


def range_bounds(e):
    """(lower, exclusive upper) canonical texts of a range expression `a..b` / `a..=b` (looked through lets), else None"""
    from .db import deref_let, peel
    e = deref_let(e)
    if not isinstance(e, dict):
        return None
    if e.get("k") == "Struct" and path_ends(e.get("path"), ("Range", "ops::Range")):
        fl = {f["name"]: f["e"] for f in e["fields"] if "e" in f}
        if "start" in fl and "end" in fl:
            return nf(fl["start"]), nf(fl["end"])
    if e.get("k") == "Call" and path_ends(e.get("callee") or "", ("RangeInclusive::new",)) and len(e["args"]) == 2:
        a, b = sorted(("1", nf(e["args"][1])))
        return nf(e["args"][0]), "(%s + %s)" % (a, b)
    return None


def pcanon(f, text, *names):
    """`text` (rendered / nf) with the non-self parameter names of function f replaced, by POSITION, with the given canonical names —
    rules speak about a parameter by its role (its position in the signature), not by what the source happens to call it"""
    import re as _re
    if text is None:
        return None
    ps = [p_.get("name") for p_ in (f.info.get("params") or []) if isinstance(p_, dict) and p_.get("name") != "self"]
    mp = {old: new for old, new in zip(ps, names) if old and new and old != new}
    if not mp:
        return text
    out = _re.sub(r"(?<![\w.])(%s)\b" % "|".join(_re.escape(x) for x in sorted(mp, key=len, reverse=True)), lambda m: "\x00" + mp[m.group(1)], text)
    return out.replace("\x00", "")


def pnames(f):
    """names of f's parameters by position (self excluded)"""
    return [p_.get("name") for p_ in (f.info.get("params") or []) if isinstance(p_, dict) and p_.get("name") != "self"]
