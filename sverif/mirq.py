"""MIR queries: CFG, dominators, call sites, def-use, backward dependency slices."""
from .db import path_ends, short_path


class Mir:
    def __init__(self, j, fn=None):
        self.j = j
        self.fn = fn
        self.locals = j["locals"]
        self.blocks = j["blocks"]
        self.argc = j["argc"]
        self._succ = None
        self._pred = None
        self._dom = None
        self._defs = None

    # ---- CFG ----------------------------------------------------------------------
    def term(self, b):
        return self.blocks[b].get("t") or {"k": "none"}

    def succ(self, b, unwind=False):
        t = self.term(b)
        k = t["k"]
        out = []
        if k == "goto":
            out = [t["t"]]
        elif k == "switch":
            out = [x[1] for x in t["targets"]] + [t["otherwise"]]
        elif k in ("drop", "call", "assert"):
            if "t" in t:
                out = [t["t"]]
            if unwind and t.get("u") is not None:
                out.append(t["u"])
        return out

    def succs(self):
        if self._succ is None:
            self._succ = [self.succ(b) for b in range(len(self.blocks))]
        return self._succ

    def preds(self):
        if self._pred is None:
            p = [[] for _ in self.blocks]
            for b, ss in enumerate(self.succs()):
                for s in ss:
                    p[s].append(b)
            self._pred = p
        return self._pred

    def reachable(self, start=0, avoid=()):
        seen = set()
        st = [start]
        avoid = set(avoid)
        while st:
            b = st.pop()
            if b in seen or b in avoid:
                continue
            seen.add(b)
            st.extend(self.succs()[b])
        return seen

    def dominators(self):
        """dom[b] = set of blocks dominating b (normal edges only)"""
        if self._dom is not None:
            return self._dom
        n = len(self.blocks)
        reach = self.reachable(0)
        order = []
        seen = set()

        def dfs(b):
            stack = [(b, iter(self.succs()[b]))]
            seen.add(b)
            while stack:
                node, it = stack[-1]
                adv = False
                for s in it:
                    if s not in seen:
                        seen.add(s)
                        stack.append((s, iter(self.succs()[s])))
                        adv = True
                        break
                if not adv:
                    order.append(node)
                    stack.pop()
        dfs(0)
        rpo = list(reversed(order))
        full = set(reach)
        dom = {b: set(full) for b in reach}
        dom[0] = {0}
        changed = True
        preds = self.preds()
        while changed:
            changed = False
            for b in rpo:
                if b == 0:
                    continue
                ps = [p for p in preds[b] if p in reach]
                if not ps:
                    continue
                new = set.intersection(*(dom[p] for p in ps)) | {b}
                if new != dom[b]:
                    dom[b] = new
                    changed = True
        self._dom = dom
        return dom

    def dominates(self, a, b):
        d = self.dominators()
        return b in d and a in d[b]

    def return_blocks(self):
        return [b for b in range(len(self.blocks)) if self.term(b)["k"] == "return" and not self.blocks[b].get("cleanup")]

    # ---- calls --------------------------------------------------------------------
    def calls(self, suffix=None):
        """(block, terminator) for each call terminator, optionally filtered by callee suffix"""
        for b, blk in enumerate(self.blocks):
            t = blk.get("t")
            if t and t["k"] in ("call", "tailcall"):
                if suffix is None or callee_ends(t, suffix):
                    yield b, t

    # ---- defs ---------------------------------------------------------------------
    def defs(self):
        """local -> list of (block, index or 't', rvalue-ish record) whole-local assignments"""
        if self._defs is not None:
            return self._defs
        d = {}
        for b, blk in enumerate(self.blocks):
            for i, st in enumerate(blk["s"]):
                if st["k"] == "assign":
                    d.setdefault(st["pl"]["l"], []).append((b, i, st))
            t = blk.get("t")
            if t and t["k"] == "call":
                d.setdefault(t["dest"]["l"], []).append((b, "t", t))
        self._defs = d
        return d

    def local_name(self, l):
        return self.locals[l].get("name")

    def local_ty(self, l):
        return self.locals[l]["ty"]

    def named_local(self, name):
        return [i for i, l in enumerate(self.locals) if l.get("name") == name]

    # ---- dependency slice ---------------------------------------------------------
    def deps(self, local, max_steps=4000):
        """backward, flow-insensitive dependency leaves of a local.
        Returns a set of leaves:
          ('arg', idx, name)                parameter
          ('field', adt, name)              read of a field projection (on any base)
          ('call', callee)                  result of a call (args are followed too)
          ('const', value)                  integer constant
          ('def', path)                     named const / static
          ('idx',)                          value read through an index projection
        """
        seen = set()
        leaves = set()
        work = [local]
        steps = 0
        defs = self.defs()
        while work and steps < max_steps:
            steps += 1
            l = work.pop()
            if l in seen:
                continue
            seen.add(l)
            if 1 <= l <= self.argc:
                leaves.add(("arg", l, self.local_name(l) or "_%d" % l))
            for (b, i, rec) in defs.get(l, []):
                if i == "t":
                    f = rec["f"]
                    leaves.add(("call", f.get("resolved") or f.get("fn") or "?"))
                    for a in rec["args"]:
                        self._op_deps(a, work, leaves)
                else:
                    self._place_proj_deps(rec["pl"], work, leaves, is_dest=True)
                    self._rv_deps(rec["rv"], work, leaves)
        return leaves

    def _place_proj_deps(self, pl, work, leaves, is_dest=False):
        for p in pl.get("p", []):
            if isinstance(p, dict):
                if "f" in p and not is_dest:
                    leaves.add(("field", p.get("adt"), p["f"]))
                if "idx" in p:
                    work.append(p["idx"])
                    if not is_dest:
                        leaves.add(("idx",))

    def _op_deps(self, op, work, leaves):
        k = op.get("k")
        if k in ("copy", "move"):
            pl = op["pl"]
            work.append(pl["l"])
            self._place_proj_deps(pl, work, leaves)
        elif k == "const":
            if "v" in op:
                leaves.add(("const", op["v"]))
            if "def" in op:
                leaves.add(("def", op["def"]))
            if "fn" in op:
                leaves.add(("fnref", op.get("resolved") or op["fn"]))

    def _rv_deps(self, rv, work, leaves):
        k = rv["k"]
        if k in ("use", "repeat", "cast", "un"):
            self._op_deps(rv["a"], work, leaves)
        elif k in ("ref", "rawptr", "discr"):
            pl = rv["pl"]
            work.append(pl["l"])
            self._place_proj_deps(pl, work, leaves)
        elif k == "bin":
            self._op_deps(rv["a"], work, leaves)
            self._op_deps(rv["b"], work, leaves)
        elif k == "agg":
            for o in rv["ops"]:
                self._op_deps(o, work, leaves)
        elif k == "tlref":
            leaves.add(("def", rv["def"]))

    def op_deps(self, op):
        """dependency leaves of an operand"""
        leaves = set()
        work = []
        self._op_deps(op, work, leaves)
        for l in work:
            leaves |= self.deps(l)
        return leaves


def term_callee(t):
    f = t.get("f", {})
    return f.get("resolved") or f.get("fn")


def term_declared(t):
    return t.get("f", {}).get("fn")


def callee_ends(t, suffix):
    f = t.get("f", {})
    return path_ends(f.get("resolved"), suffix) or path_ends(f.get("fn"), suffix)


def leaf_calls(leaves):
    return {x[1] for x in leaves if x[0] == "call"}


def leaf_fields(leaves):
    return {x[2] for x in leaves if x[0] == "field"}


def leaf_args(leaves):
    return {x[2] for x in leaves if x[0] == "arg"}


def has_call(leaves, suffix):
    return any(path_ends(c, suffix) for c in leaf_calls(leaves))
