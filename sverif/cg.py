"""Call graph over MIR call terminators (resolved callees; dyn / unresolved workspace-trait
methods fan out to every workspace impl; closure construction gives an edge to the closure
body) and the panic-site inventory."""
from .db import path_ends, short_path
from .mirq import term_callee, term_declared

_CG_CACHE = {}


class CallGraph:
    def __init__(self, db):
        self.db = db
        self.edges = {}
        self.unresolved = 0
        self.total = 0
        # trait method path -> impl fns
        self.impls = {}
        for f in db.fns.values():
            ti = f.trait_item
            # fan-out only for traits defined in the workspace; unresolved std-trait calls
            # (generic Iterator::next, Write::write_all on W: Write, ...) are opaque
            if ti and f.trait in db.traits:
                self.impls.setdefault(ti, []).append(f.key)
        for k, f in db.fns.items():
            out = set()
            m = f.mir
            if m is None:
                self.edges[k] = out
                continue
            for b, t in m.calls():
                self.total += 1
                res = t["f"].get("resolved")
                dec = t["f"].get("fn")
                if res and res in db.fns:
                    out.add(res)
                elif dec and dec in db.fns and not (dec in self.impls):
                    out.add(dec)
                elif dec in self.impls:
                    # workspace trait method, not resolved statically: every impl
                    # (plus the default body, if any)
                    if res is None:
                        self.unresolved += 1
                    for i in self.impls[dec]:
                        out.add(i)
                    if dec in db.fns:
                        out.add(dec)
                elif dec and dec in db.fns:
                    out.add(dec)
                # function items passed as arguments (map(Self::f), etc.)
                for a in t.get("args", []):
                    if a.get("k") == "const" and "fn" in a:
                        r = a.get("resolved") or a["fn"]
                        if r in db.fns:
                            out.add(r)
            # closures / fn refs in statements
            for blk in m.blocks:
                for st in blk["s"]:
                    if st["k"] != "assign":
                        continue
                    rv = st["rv"]
                    if rv["k"] == "agg" and rv.get("ak") in ("closure", "coroutine"):
                        if rv["def"] in db.fns:
                            out.add(rv["def"])
                    for op in _rv_ops(rv):
                        if op.get("k") == "const" and "fn" in op:
                            r = op.get("resolved") or op["fn"]
                            if r in db.fns:
                                out.add(r)
                            elif r in self.impls:
                                out.update(self.impls[r])
            self.edges[k] = out

    def closure(self, entries, stop=()):
        seen = set()
        st = [e for e in entries]
        stop = set(stop)
        while st:
            k = st.pop()
            if k in seen or k in stop:
                continue
            seen.add(k)
            st.extend(self.edges.get(k, ()))
        return seen

    def path(self, entries, target, stop=()):
        """one call path from any entry to target (for diagnostics)"""
        prev = {}
        st = list(entries)
        for e in entries:
            prev[e] = None
        stop = set(stop)
        while st:
            k = st.pop(0)
            if k == target:
                out = []
                while k is not None:
                    out.append(short_path(k))
                    k = prev[k]
                return list(reversed(out))
            for n in self.edges.get(k, ()):
                if n not in prev and n not in stop:
                    prev[n] = k
                    st.append(n)
        return None

    def callers(self, key):
        return [k for k, es in self.edges.items() if key in es]


def _rv_ops(rv):
    for kk in ("a", "b"):
        if isinstance(rv.get(kk), dict):
            yield rv[kk]
    for o in rv.get("ops", []):
        yield o


def get(db):
    cg = _CG_CACHE.get(id(db))
    if cg is None:
        cg = CallGraph(db)
        _CG_CACHE.clear()
        _CG_CACHE[id(db)] = cg
    return cg


# ---- panic-site inventory --------------------------------------------------------------

UNWRAPS = ("Option::unwrap", "Option::expect", "Result::unwrap", "Result::expect",
           "Result::unwrap_err", "Result::expect_err")
PANIC_FNS = ("panicking::panic", "panicking::panic_fmt", "panicking::panic_display",
             "panicking::panic_explicit", "panicking::unreachable_display", "panicking::assert_failed",
             "panicking::panic_str_2015", "panicking::panic_nounwind", "rt::begin_panic",
             "rt::panic_fmt", "panicking::begin_panic", "panicking::panic_cold_explicit",
             "panicking::panic_cold_display", "option::unwrap_failed", "option::expect_failed",
             "result::unwrap_failed")


def panic_sites(f):
    """explicit panic-capable sites in one function's MIR.
    returns list of dict(kind, callee, macros, sp, bb, arg_ty)"""
    m = f.mir
    out = []
    if m is None:
        return out
    for b, t in m.calls():
        if m.blocks[b].get("cleanup"):
            continue
        c = term_callee(t) or ""
        d = term_declared(t) or ""
        macs = t.get("mac") or []
        if any(path_ends(d, u) for u in UNWRAPS):
            arg_ty = ""
            if t["args"]:
                a = t["args"][0]
                if a.get("k") in ("copy", "move"):
                    arg_ty = m.local_ty(a["pl"]["l"]) if not a["pl"].get("p") else ""
                elif a.get("k") == "const":
                    arg_ty = a.get("ty", "")
            out.append({"kind": "unwrap", "callee": _unwrap_name(d), "macros": macs, "sp": t.get("sp"),
                        "bb": b, "arg_ty": arg_ty})
        elif any(d.endswith(p) or ("::" + p) in d for p in PANIC_FNS):
            out.append({"kind": "panic", "callee": short_path(d), "macros": macs, "sp": t.get("sp"), "bb": b,
                        "arg_ty": ""})
    return out


def _unwrap_name(d):
    for u in UNWRAPS:
        if path_ends(d, u):
            return u
    return d


def is_debug_only(site):
    return any(x.startswith("debug_assert") for x in site["macros"])


def macro_of(site):
    for x in site["macros"]:
        if x in ("panic", "todo", "unimplemented", "unreachable", "assert", "assert_eq", "assert_ne",
                 "debug_assert", "debug_assert_eq", "debug_assert_ne"):
            return x
    return None
