"""C08 — code-point offsets agree with byte offsets; the offset map is monotone and anchored."""
from ..engine import rule
from ..db import (walk, peel, peel_casts, render, callee, path_ends, short_path, is_call, call_args, lit_int,
                  exit_kind, path_conditions, atoms, AnchorMissing, local_name)
from ..guards import guarded_exits, mentions, is_call_to, cmp_atom
from ..origins import origins, for_loop_parts
from .C01 import units_scan
from .C02 import _loops, _chain
from . import C01

META = {
    "explanation": (
        "(units) to_orig_char_idx indexes the original-byte -> code-point table with an OB value obtained from "
        "to_orig_byte_idx; Morpheme::{begin_c,end_c} return OC; the Python begin/end/__len__/repr and the pre-tokenizer's "
        "PySlice arguments are OC only; (b2c-source) fill_orig_b2c fills the table from original.char_indices() (not the "
        "normalised text), sizes it original.len()+1 and stores the end sentinel; build() pushes both sentinels after "
        "its loop and calls fill_orig_b2c on its Ok path; (compose) every value stored into the new map by resolve_edits / "
        "add_replace is read from the previous map (source_mapping[..]) — never a position of the current text — except "
        "the constant 0 anchor, which is what makes successive rewrite batches compose; plus C01.map-owner (identity map "
        "at start_build, first entry forced to 0). NOT decided: monotonicity / boundary-to-boundary / identity on "
        "unreplaced characters for all edit histories — arithmetic of add_replace."),
    "decided": ["units", "b2c-source", "compose", "map-owner"],
    "not_decided": ["monotonicity and boundary preservation of the map for all edit histories (value level)"],
}


@rule("C08.units", "code-point accessors use the OB->OC table with an OB index and return OC; Python offsets and slices are OC")
def units(db, ctx):
    total, nfn = units_scan(db, ctx, True)
    ctx.ob("reached-use-sites", total >= 10, "%d seeded use-sites reached with a known space in %d functions (floor 10)" % (total, nfn), nontrivial=False)
    ctx.floor(5)


@rule("C08.b2c-source", "fill_orig_b2c is built from original.char_indices(), sized len+1, with the end sentinel; build() pushes both "
                        "sentinels after the loop and calls fill_orig_b2c before returning Ok")
def b2c_source(db, ctx):
    f = db.one("fill_orig_b2c", "InputBuffer")
    from ..inline import nf
    from ..loops import chain as lchain
    src = None
    src_ok = False
    for n, (it, pat, body), ps in _loops(f):
        ch, base = lchain(db, f, it)
        names = [m for m, _ in ch]
        src = "%s.%s" % (nf(base), ".".join(names))
        src_ok = nf(base) == "self.original" and "char_indices" in names and set(names) <= {"char_indices", "enumerate", "map"}
    ctx.ob("fill_orig_b2c|source", src is not None and src_ok and "modified" not in src,
           "table is filled from `%s` (must be self.original.char_indices())" % src, fn=f)
    rs = [nf(c["args"][0]) for c, _ in walk(f.hir) if c.get("k") == "MethodCall" and c.get("method") == "resize" and c["args"]]
    ctx.ob("fill_orig_b2c|size", any(r == "(1 + self.original.len())" for r in rs), "resized to %s (must be original.len()+1)" % rs, fn=f)
    sent = any(n.get("k") == "Assign" and peel(n["l"]).get("k") == "Index" and nf(peel(n["l"])["i"]) == "self.original.len()" and nf(n["r"]).startswith("(1 + ")
               for n, _ in walk(f.hir))
    ctx.ob("fill_orig_b2c|end-sentinel", sent, "m2o_2[original.len()] = last char index + 1: %s" % sent, fn=f)
    clr = any(c.get("k") == "MethodCall" and c.get("method") == "clear" and "m2o_2" in render(c["recv"]) for c, _ in walk(f.hir))
    ctx.ob("fill_orig_b2c|clears-first", clr, "the table is cleared before being refilled: %s" % clr, fn=f)
    b = db.one("build", "InputBuffer")
    stmts = b.hir.get("stmts", [])
    i_loop = i_c2b = i_b2c = i_fill = None
    for i, st in enumerate(stmts):
        e = st.get("e") or st.get("init") or {}
        if e.get("k") == "Match" and e.get("src") == "ForLoopDesugar":
            i_loop = i
        t = render(e)
        if "self.mod_c2b.push(self.mod_b2c.len())" in t:
            i_c2b = i
        if "self.mod_b2c.push((last_chidx + 1))" in t or "self.mod_b2c.push(last_chidx + 1)" in t:
            i_b2c = i
        if "fill_orig_b2c" in t:
            i_fill = i
    ok = None not in (i_loop, i_c2b, i_b2c, i_fill) and i_loop < i_c2b < i_b2c < i_fill
    ctx.ob("build|sentinels-after-loop", ok, "build(): loop at %s, mod_c2b sentinel at %s, mod_b2c sentinel at %s, fill_orig_b2c at %s" % (i_loop, i_c2b, i_b2c, i_fill), fn=b)
    loop_src = None
    for n, (it, pat, body), ps in _loops(b):
        if loop_src is None:
            loop_src = render(it)
    ctx.ob("build|iterates-modified", loop_src is not None and "self.modified.char_indices().enumerate()" in loop_src, "build() iterates `%s`" % loop_src, fn=b)


@rule("C08.compose", "every value stored into the new offset map by resolve_edits / add_replace is read from the previous map "
                     "(source_mapping[..]), never a position of the current text, except the 0 anchor")
def compose(db, ctx):
    n = 0
    for nm in ("resolve_edits", "add_replace"):
        f = db.one(nm, None)
        for c, ps in walk(f.hir):
            if c.get("k") == "MethodCall" and c.get("method") in ("push", "extend", "extend_from_slice", "insert") and local_name(c["recv"]) == "target_mapping":
                arg = c["args"][-1]
                n += 1
                from ..db import walk_x
                # the element value(s) this call stores: push(v) -> v; extend(iter) -> what the iterator yields (the body of a
                # trailing .map(|..| v), else the elements of the iterated collection)
                val = peel(arg)
                if c["method"] in ("extend", "extend_from_slice"):
                    while val.get("k") == "MethodCall" and val.get("method") in ("iter", "copied", "cloned", "into_iter", "by_ref"):
                        val = peel(val["recv"])
                    if val.get("k") == "MethodCall" and val.get("method") == "map" and val["args"] and peel(val["args"][0]).get("k") == "Closure":
                        val = peel(peel(val["args"][0])["body"])
                from_src = any(x.get("k") == "Index" and local_name(x["e"]) == "source_mapping" for x, _ in walk_x(val))
                direct_pos = any(x.get("k") == "Field" and x.get("name") in ("start", "end") and not any(True for _ in []) for x, _ in walk(arg)
                                 ) and not from_src
                ctx.ob("%s|%s#%d" % (nm, c["method"], n), from_src and not direct_pos,
                       "%s: target_mapping.%s(`%s`) — value %s" % (nm, c["method"], render(arg)[:70],
                                                                 "read from the previous map" if from_src else "NOT read from source_mapping: a position of "
                                                                 "the current text would only be right while the previous map is the identity"), fn=f, site=c.get("sp"))
    ctx.floor(4)
    re = db.one("resolve_edits", None)
    slices = [render(x) for x, _ in walk(re.hir) if x.get("k") == "Index" and local_name(x["e"]) == "source"]
    ok = any("start: start" in s and "edit.what.start" in s for s in slices) and any("RangeFrom" in s and "start" in s for s in slices)
    ctx.ob("resolve_edits|copies-gaps", ok, "unreplaced text is copied from source[start..edit.what.start] and source[start..]: %s" % slices, fn=re)
    adv = any(n2.get("k") == "Assign" and local_name(n2["l"]) == "start" and "edit.what.end" in render(n2["r"]) for n2, _ in walk(re.hir))
    ctx.ob("resolve_edits|advance", adv, "`start = edit.what.end` after each edit: %s" % adv, fn=re)


@rule("C08.map-owner", "identity map at start_build, first entry forced to 0, single owners of the map (re-evaluation of C01.map-owner)")
def map_owner(db, ctx):
    C01.map_owner(db, ctx)
    ctx.floor(6)


@rule("C08.split-offsets", "the code-point range of an A/B split unit is obtained by mapping its BYTE end position in the sentence through ch_idx "
                           "(re-evaluation of C09.offsets: mapping a length, or adding a mapped length to the start, is right only when the text "
                           "before the unit has as many code points as bytes)")
def split_offsets(db, ctx):
    from . import C09
    C09.offsets(db, ctx)


@rule("C08.scratch-cleared", "every rewrite batch starts from empty scratch buffers: InputBuffer::commit clears both targets it hands to resolve_edits (which "
                             "APPENDS to them) before the call, in the same function — cleared only in reset(), a second batch on the same sentence appends "
                             "the new text and map to the previous batch's")
def scratch_cleared(db, ctx):
    from ..inline import nf
    cm = db.view(db.one("commit", "InputBuffer"))
    order = [x for x, _ in walk(cm.hir)]
    pos = {id(x): i for i, x in enumerate(order)}
    calls = [c for c in order if is_call(c) and path_ends(callee(c) or "", "resolve_edits")]
    if len(calls) != 1:
        raise AnchorMissing("InputBuffer::commit: resolve_edits call")
    a = call_args(calls[0])
    for tgt in (a[2], a[3]):
        name = nf(tgt)
        cleared = [x for x in order if x.get("k") == "MethodCall" and x.get("method") in ("clear",) and nf(x["recv"]) == name and pos[id(x)] < pos[id(calls[0])]
                   and not [c_ for c_, _ in (path_conditions(x["id"], cm.hir) or []) if isinstance(c_, dict) and not mentions(c_, lambda y: y.get("k") == "MethodCall" and y.get("method") == "is_empty" and "replaces" in render(y))]]
        ctx.ob("commit|clears|%s" % name, bool(cleared), "`%s` is cleared in commit() before resolve_edits appends to it: %s" % (name, bool(cleared)), fn=cm)
    ctx.floor(2)
