"""C08 — code-point offsets agree with byte offsets; the offset map is monotone and anchored."""
from ..engine import rule
from ..db import (walk, peel, peel_casts, render, callee, path_ends, short_path, is_call, call_args, lit_int,
                  exit_kind, path_conditions, atoms, AnchorMissing, local_name)
from ..guards import guarded_exits, mentions, is_call_to, cmp_atom
from ..origins import origins, for_loop_parts
from .C01 import units_scan
from .C02 import _loops, _chain
from . import C01

META = {
    "explanation": (
        "(units) to_orig_char_idx indexes the original-byte -> code-point table with an OB value obtained from "
        "to_orig_byte_idx; Morpheme::{begin_c,end_c} return OC; the Python begin/end/__len__/repr and the pre-tokenizer's "
        "PySlice arguments are OC only; (b2c-source) fill_orig_b2c fills the table from original.char_indices() (not the "
        "normalised text), sizes it original.len()+1 and stores the end sentinel; build() pushes both sentinels after "
        "its loop and calls fill_orig_b2c on its Ok path; (compose) every value stored into the new map by resolve_edits / "
        "add_replace is read from the previous map (source_mapping[..]) — never a position of the current text — except "
        "the constant 0 anchor, which is what makes successive rewrite batches compose; plus C01.map-owner (identity map "
        "at start_build, first entry forced to 0). NOT decided: monotonicity / boundary-to-boundary / identity on "
        "unreplaced characters for all edit histories — arithmetic of add_replace."),
    "decided": ["units", "b2c-source", "compose", "map-owner"],
    "not_decided": ["monotonicity and boundary preservation of the map for all edit histories (value level)"],
}


@rule("C08.units", "code-point accessors use the OB->OC table with an OB index and return OC; Python offsets and slices are OC")
def units(db, ctx):
    total, nfn = units_scan(db, ctx, True)
    ctx.ob("reached-use-sites", total >= 10, "%d seeded use-sites reached with a known space in %d functions (floor 10)" % (total, nfn), nontrivial=False)
    ctx.floor(5)


@rule("C08.b2c-source", "fill_orig_b2c is built from original.char_indices(), sized len+1, with the end sentinel; build() pushes both "
                        "sentinels after the loop and calls fill_orig_b2c before returning Ok")
def b2c_source(db, ctx):
    f = db.one("fill_orig_b2c", "InputBuffer")
    from ..inline import nf
    from ..loops import chain as lchain
    src = None
    src_ok = False
    for n, (it, pat, body), ps in _loops(f):
        ch, base = lchain(db, f, it)
        names = [m for m, _ in ch]
        src = "%s.%s" % (nf(base), ".".join(names))
        src_ok = nf(base) == "self.original" and "char_indices" in names and set(names) <= {"char_indices", "enumerate", "map"}
    ctx.ob("fill_orig_b2c|source", src is not None and src_ok and "modified" not in src,
           "table is filled from `%s` (must be self.original.char_indices())" % src, fn=f)
    rs = [nf(c["args"][0]) for c, _ in walk(f.hir) if c.get("k") == "MethodCall" and c.get("method") == "resize" and c["args"]]
    ctx.ob("fill_orig_b2c|size", any(r == "(1 + self.original.len())" for r in rs), "resized to %s (must be original.len()+1)" % rs, fn=f)
    sent = any(n.get("k") == "Assign" and peel(n["l"]).get("k") == "Index" and nf(peel(n["l"])["i"]) == "self.original.len()" and nf(n["r"]).startswith("(1 + ")
               for n, _ in walk(f.hir))
    ctx.ob("fill_orig_b2c|end-sentinel", sent, "m2o_2[original.len()] = last char index + 1: %s" % sent, fn=f)
    clr = any(c.get("k") == "MethodCall" and c.get("method") == "clear" and "m2o_2" in render(c["recv"]) for c, _ in walk(f.hir))
    ctx.ob("fill_orig_b2c|clears-first", clr, "the table is cleared before being refilled: %s" % clr, fn=f)
    b = db.one("build", "InputBuffer")
    stmts = b.hir.get("stmts", [])
    i_loop = i_c2b = i_b2c = i_fill = None
    from ..db import is_local as _is_local
    from ..origins import pat_bindings as _pb
    idx_lid = None          # the enumerate() index of the build loop
    carried = set()         # locals that carry that index out of the loop (`last_chidx = chidx`)
    for i, st in enumerate(stmts):
        e = st.get("e") or st.get("init") or {}
        fl = for_loop_parts(e) if e.get("k") == "Match" else None
        if fl:
            i_loop = i
            pb = _pb(fl[1])
            idx_lid = pb[0][0] if pb else None
            for a_, _ in walk(fl[2]):
                if a_.get("k") == "Assign" and peel(a_["l"]).get("res") == "local" and _is_local(a_["r"], idx_lid):
                    carried.add(peel(a_["l"]).get("lid"))
        for c_, _ in walk(e):
            if c_.get("k") == "MethodCall" and c_.get("method") == "push" and c_.get("args") and i_loop is not None and i > i_loop:
                tgt, arg = nf(c_["recv"]), peel_casts(c_["args"][0])
                if tgt == "self.mod_c2b" and nf(arg) == "self.mod_b2c.len()":
                    i_c2b = i
                if tgt == "self.mod_b2c" and arg.get("k") == "Binary" and arg.get("op") == "Add":
                    sides = (peel_casts(arg["l"]), peel_casts(arg["r"]))
                    if any(lit_int(x) == 1 for x in sides) and any(isinstance(x, dict) and x.get("lid") in carried for x in sides):
                        i_b2c = i
        if "fill_orig_b2c" in render(e):
            i_fill = i
    ok = None not in (i_loop, i_c2b, i_b2c, i_fill) and i_loop < i_c2b < i_b2c < i_fill
    ctx.ob("build|sentinels-after-loop", ok, "build(): loop at %s, mod_c2b sentinel at %s, mod_b2c sentinel at %s, fill_orig_b2c at %s" % (i_loop, i_c2b, i_b2c, i_fill), fn=b)
    loop_src = None
    for n, (it, pat, body), ps in _loops(b):
        if loop_src is None:
            loop_src = render(it)
    ctx.ob("build|iterates-modified", loop_src is not None and "self.modified.char_indices().enumerate()" in loop_src, "build() iterates `%s`" % loop_src, fn=b)


_EDIT_ROLES = {"source": "&str", "source_mapping": "&std::vec::Vec<usize>", "target": "&mut std::string::String",
               "target_mapping": "&mut std::vec::Vec<usize>", "edits": lambda t: t.startswith("&mut std::vec::Vec<") and "ReplaceOp" in t}


@rule("C08.compose", "every value stored into the new offset map by resolve_edits / add_replace is read from the previous map "
                     "(source_mapping[..]), never a position of the current text, except the 0 anchor")
def compose(db, ctx):
    n = 0
    from ..db import param_roles, is_local
    for nm in ("resolve_edits", "add_replace"):
        f = db.one(nm, None)
        # parameters by type, not by name: the previous map is the shared Vec<usize>, the new one the mutable Vec<usize>
        R = param_roles(f, _EDIT_ROLES)
        if nm == "add_replace" and "source_mapping" not in R and "target_mapping" in R:
            # the helper receives a PRE-RESOLVED span of the original text instead of the previous map: then each bound of that span,
            # at every call site, must itself be an element read from the previous map — a mapped start plus a length of the current
            # text is right only while the previous map is the identity (first batch)
            from ..db import deref_let, call_args as _ca, is_call as _ic, callee as _cal, path_ends as _pe
            caller = db.one("resolve_edits", None)
            Rc = param_roles(caller, _EDIT_ROLES)
            if "source_mapping" not in Rc:
                raise AnchorMissing("resolve_edits: the previous map parameter")
            rpos = [i for i, p_ in enumerate(f.info.get("params") or []) if isinstance(p_, dict) and "ops::Range<usize>" in (p_.get("ty") or "")]
            if not rpos:
                raise AnchorMissing("add_replace: neither the previous map nor a pre-resolved Range<usize> parameter")
            for c, _ in walk(caller.hir):
                if _ic(c) and _pe(_cal(c) or "", "add_replace"):
                    a = peel(deref_let(peel(_ca(c)[rpos[0]])))
                    st = [y for y, _ in walk(a) if y.get("k") == "Struct" and "ops::Range" in (y.get("path") or "")]
                    fl = {fld.get("name"): fld.get("e") for fld in (st[0].get("fields") or [])} if st else {}
                    for bound in ("start", "end"):
                        n += 1
                        e = peel_casts(peel(deref_let(peel(fl.get(bound) or {}))))
                        ok = isinstance(e, dict) and e.get("k") == "Index" and is_local(e["e"], Rc["source_mapping"])
                        ctx.ob("add_replace|span.%s#%d" % (bound, n), ok,
                               "resolve_edits hands add_replace the original span's %s as `%s` — %s" % (bound, render(fl.get(bound) or {}, x=True)[:80],
                               "an element of the previous map" if ok else "NOT an element of the previous map (a mapped position plus a length of the current text "
                               "is right only while the previous map is the identity: stacked rewrite batches get a non-monotone map)"), fn=caller, site=c.get("sp"))
            continue
        if "source_mapping" not in R or "target_mapping" not in R:
            raise AnchorMissing("%s: (&Vec<usize>, &mut Vec<usize>) parameters" % nm)
        for c, ps in walk(f.hir):
            if c.get("k") == "MethodCall" and c.get("method") in ("push", "extend", "extend_from_slice", "insert", "resize") and is_local(c["recv"], R["target_mapping"]):
                arg = c["args"][-1]
                n += 1
                from ..db import walk_x
                # the element value(s) this call stores: push(v) -> v; extend(iter) -> what the iterator yields (the body of a
                # trailing .map(|..| v), else the elements of the iterated collection)
                val = peel(arg)
                if c["method"] in ("extend", "extend_from_slice"):
                    while val.get("k") == "MethodCall" and val.get("method") in ("iter", "copied", "cloned", "into_iter", "by_ref"):
                        val = peel(val["recv"])
                    if val.get("k") == "MethodCall" and val.get("method") == "map" and val["args"] and peel(val["args"][0]).get("k") == "Closure":
                        val = peel(peel(val["args"][0])["body"])
                from_src = any(x.get("k") == "Index" and is_local(x["e"], R["source_mapping"]) for x, _ in walk_x(val))
                direct_pos = any(x.get("k") == "Field" and x.get("name") in ("start", "end") and not any(True for _ in []) for x, _ in walk(arg)
                                 ) and not from_src
                ctx.ob("%s|%s#%d" % (nm, c["method"], n), from_src and not direct_pos,
                       "%s: target_mapping.%s(`%s`) — value %s" % (nm, c["method"], render(arg)[:70],
                                                                 "read from the previous map" if from_src else "NOT read from source_mapping: a position of "
                                                                 "the current text would only be right while the previous map is the identity"), fn=f, site=c.get("sp"))
    ctx.floor(4)
    re = db.one("resolve_edits", None)
    R = param_roles(re, _EDIT_ROLES)
    # by role: the cursor is the local that bounds the copied gap `source[cursor .. <edit>.what.start]` from below; it must also
    # bound the tail copy `source[cursor ..]` and be advanced to `<edit>.what.end` (whatever the cursor / loop variable are called)
    from ..db import deref_all

    def rng(ix):
        st = [y for y, _ in walk(peel(ix.get("i") or {})) if y.get("k") == "Struct" and "ops::Range" in (y.get("path") or "")]
        if not st:
            return None, None, None
        fl = {fld.get("name"): fld.get("e") for fld in (st[0].get("fields") or [])}
        return st[0].get("path"), fl.get("start"), fl.get("end")

    def what_field(e, name):
        d = peel_casts(deref_all(e)) if isinstance(e, dict) else None
        return isinstance(d, dict) and d.get("k") == "Field" and d.get("name") == name and peel(d.get("e") or {}).get("k") == "Field" and peel(d["e"]).get("name") == "what"
    idx = [x for x, _ in walk(re.hir) if x.get("k") == "Index" and is_local(x["e"], R.get("source"))]
    cursors = set()
    for x in idx:
        pth, lo, hi = rng(x)
        if hi is not None and what_field(hi, "start") and isinstance(lo, dict) and peel_casts(lo).get("res") == "local":
            cursors.add(peel_casts(lo).get("lid"))
    tail = any(rng(x)[0] and rng(x)[0].endswith("RangeFrom") and isinstance(rng(x)[1], dict) and peel_casts(rng(x)[1]).get("lid") in cursors for x in idx)
    slices = [render(x) for x in idx]
    ok = len(cursors) == 1 and tail
    ctx.ob("resolve_edits|copies-gaps", ok, "unreplaced text is copied from source[cursor..edit.what.start] and source[cursor..]: %s" % slices, fn=re)
    adv = any(n2.get("k") == "Assign" and peel(n2["l"]).get("lid") in cursors and what_field(n2["r"], "end") for n2, _ in walk(re.hir))
    ctx.ob("resolve_edits|advance", adv, "the cursor is set to edit.what.end after each edit: %s" % adv, fn=re)


@rule("C08.map-owner", "identity map at start_build, first entry forced to 0, single owners of the map (re-evaluation of C01.map-owner)")
def map_owner(db, ctx):
    C01.map_owner(db, ctx)
    ctx.floor(6)


@rule("C08.split-offsets", "the code-point range of an A/B split unit is obtained by mapping its BYTE end position in the sentence through ch_idx "
                           "(re-evaluation of C09.offsets: mapping a length, or adding a mapped length to the start, is right only when the text "
                           "before the unit has as many code points as bytes)")
def split_offsets(db, ctx):
    from . import C09
    C09.offsets(db, ctx)


@rule("C08.scratch-cleared", "every rewrite batch starts from empty scratch buffers: InputBuffer::commit clears both targets it hands to resolve_edits (which "
                             "APPENDS to them) before the call, in the same function — cleared only in reset(), a second batch on the same sentence appends "
                             "the new text and map to the previous batch's")
def scratch_cleared(db, ctx):
    from ..inline import nf
    cm = db.view(db.one("commit", "InputBuffer"))
    order = [x for x, _ in walk(cm.hir)]
    pos = {id(x): i for i, x in enumerate(order)}
    calls = [c for c in order if is_call(c) and path_ends(callee(c) or "", "resolve_edits")]
    if len(calls) != 1:
        raise AnchorMissing("InputBuffer::commit: resolve_edits call")
    a = call_args(calls[0])
    for tgt in (a[2], a[3]):
        name = nf(tgt)
        cleared = [x for x in order if x.get("k") == "MethodCall" and x.get("method") in ("clear",) and nf(x["recv"]) == name and pos[id(x)] < pos[id(calls[0])]
                   and not [c_ for c_, _ in (path_conditions(x["id"], cm.hir) or []) if isinstance(c_, dict) and not mentions(c_, lambda y: y.get("k") == "MethodCall" and y.get("method") == "is_empty" and "replaces" in render(y))]]
        ctx.ob("commit|clears|%s" % name, bool(cleared), "`%s` is cleared in commit() before resolve_edits appends to it: %s" % (name, bool(cleared)), fn=cm)
    ctx.floor(2)
