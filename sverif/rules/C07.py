"""C07 — text normalisation is the specified context-free function (fast/slow path agreement)."""
from ..engine import rule
from ..db import (walk, peel, peel_casts, render, callee, path_ends, short_path, is_call, call_args, lit_int,
                  diverges, exit_kind, path_conditions, atoms, AnchorMissing, local_name)
from ..guards import mentions, is_call_to, cmp_atom
from ..origins import origins, index as oindex, for_loop_parts, pat_bindings

META = {
    "explanation": (
        "Decides the structural conditions under which the optimised and the general normalisation paths compute the same "
        "function: (longest) no Aho-Corasick search whose matches become replacements sets Input::earliest(true) (it makes "
        "the automaton return the shortest key even under LeftmostLongest), and the automaton is built LeftmostLongest + "
        "StartKind::Both; (same-table) both paths take the replacement from self.replacements[m.pattern()] of the same "
        "automaton, and keys/values are pushed pairwise in one loop; (path-choice) the fast path is reachable only under "
        "the negation of both whole-text predicates, which use the same library predicates as the per-character ones; "
        "(per-char) NFKC is decided per character under !should_ignore(ch), lower-casing is applied before NFKC, and the "
        "replaced range is offset..offset+len_utf8. NOT decided: Unicode data (what NFKC / lower-casing produce); the spans "
        "matched by the prolonged-sound-mark and yomigana regexes."),
    "decided": ["longest", "same-table", "path-choice", "per-char"],
    "not_decided": ["Unicode tables", "regex-defined spans of the other two input plugins"],
    "trusted": ["aho-corasick: Input::earliest(true) stops at the first (shortest) match; LeftmostLongest otherwise (confirmed during triage)"],
}

PLUGIN = "DefaultInputTextPlugin"


def _fns(db):
    return [f for f in db.fns.values() if f.pkg == "sudachi" and f.hir and "default_input_text::DefaultInputTextPlugin" in f.key]


@rule("C07.longest", "no aho_corasick::Input used for replacement enables earliest(true); the automaton is built with "
                     "MatchKind::LeftmostLongest and StartKind::Both")
def longest(db, ctx):
    n_inputs = 0
    for f in _fns(db):
        for n, ps in walk(f.hir):
            if is_call(n) and path_ends(callee(n), ("aho_corasick::Input::new", "Input::new", "Input<'h>::new")) and "aho_corasick" in (callee(n) or ""):
                n_inputs += 1
                # collect the builder chain applied on top of this Input::new
                chain = []
                cur = n
                for p in reversed(ps):
                    if p.get("k") == "MethodCall" and p["recv"] is cur:
                        chain.append((p["method"], p["args"]))
                        cur = p
                    else:
                        break
                early = [a for m, a in chain if m == "earliest" and a and peel(a[0]).get("v") is True]
                ctx.ob("%s|Input::new|no-earliest" % f.short(), not early,
                       "%s: search input built as Input::new(..)%s — earliest(true) %s" % (
                           f.short(), "".join(".%s(..)" % m for m, _ in chain),
                           "PRESENT: the anchored search returns the shortest key that matches, so a key that is a prefix of a longer key "
                           "wins on this path while the other path takes the longest" if early else "absent"),
                       fn=f, site=n.get("sp"))
        # later mutation through set_earliest
        for n, ps in walk(f.hir):
            if n.get("k") == "MethodCall" and n.get("method") in ("set_earliest", "earliest") and n["args"] and peel(n["args"][0]).get("v") is True:
                if n.get("method") == "set_earliest":
                    ctx.ob("%s|set_earliest" % f.short(), False, "%s: set_earliest(true) on a replacement search" % f.short(), fn=f, site=n.get("sp"))
    rl = db.one("read_rewrite_lists", PLUGIN)
    kinds = {}
    for n, ps in walk(rl.hir):
        if n.get("k") == "MethodCall" and n.get("method") in ("match_kind", "start_kind") and n["args"]:
            a = peel(n["args"][0])
            kinds[n["method"]] = (a.get("path") or render(a)).split("::")[-1]
    ctx.ob("read_rewrite_lists|automaton-kind", kinds.get("match_kind") == "LeftmostLongest" and kinds.get("start_kind") == "Both",
           "automaton built with %s (must be match_kind=LeftmostLongest, start_kind=Both)" % kinds, fn=rl)
    ctx.floor(3)


@rule("C07.same-table", "both paths take the replacement from self.replacements[m.pattern()] of self.checker; keys and values are "
                        "pushed in the same loop iteration")
def same_table(db, ctx):
    for nm in ("replace_fast", "replace_slow"):
        f = db.one(nm, PLUGIN)
        uses_checker = mentions(f.hir, lambda x: x.get("k") == "Field" and x.get("name") == "checker")
        idx_ok = False
        for n, _ in walk(f.hir):
            if n.get("k") == "Index" and peel(n["e"]).get("k") == "Field" and peel(n["e"]).get("name") == "replacements":
                i = peel(n["i"])
                if i.get("k") == "MethodCall" and i.get("method") == "pattern":
                    idx_ok = True
        rep_ok = False
        for c, ps in walk(f.hir):
            if c.get("k") == "MethodCall" and c.get("method") in ("replace_ref", "replace_own", "replace_char") and len(c["args"]) == 2:
                og = origins(db, f, c["args"][1], depth=0)
                if any(o[0] == "field" and o[2] == "replacements" for o in og):
                    rep_ok = True
        ctx.ob("%s|table" % nm, uses_checker and idx_ok and rep_ok,
               "%s: searches with self.checker=%s, indexes self.replacements[m.pattern()]=%s, passes that value to the editor=%s"
               % (nm, uses_checker, idx_ok, rep_ok), fn=f)
    rl = db.one("read_rewrite_lists", PLUGIN)
    # by role: K = the collection the automaton is built from, V = the collection stored as self.replacements (whatever the two
    # locals are called); pattern i of the automaton must be the key of value i, so K and V are filled pairwise
    from ..db import deref_all

    def base_local(e):
        d = peel(deref_all(e)) if isinstance(e, dict) else None
        while isinstance(d, dict) and d.get("k") == "MethodCall" and d.get("method") in ("clone", "iter", "into_iter", "as_slice", "to_vec", "to_owned"):
            d = peel(d["recv"])
        d = peel(d) if isinstance(d, dict) else d
        while isinstance(d, dict) and d.get("k") in ("AddrOf", "Deref"):
            d = peel(d["e"])
        return d if isinstance(d, dict) and d.get("k") == "Path" and d.get("res") == "local" else None
    K = V = None
    built_from = assigned = None
    for n, ps in walk(rl.hir):
        if n.get("k") == "MethodCall" and n.get("method") == "build" and "AhoCorasickBuilder" in (n.get("rty") or "") and n["args"]:
            built_from = render(n["args"][0])
            K = base_local(n["args"][0])
        if n.get("k") == "Assign" and peel(n["l"]).get("name") == "replacements":
            assigned = render(n["r"])
            V = base_local(n["r"])
    paired = False
    if K is not None and V is not None and K.get("lid") != V.get("lid"):
        for n, ps in walk(rl.hir):
            fl = for_loop_parts(n) if n.get("k") == "Match" else None
            if fl:
                it, pat, body = fl
                pb = pat_bindings(pat)
                pushes = {peel(p["recv"]).get("lid"): p for p, _ in walk(body) if p.get("k") == "MethodCall" and p.get("method") == "push" and p.get("args")}
                if {K["lid"], V["lid"]} <= set(pushes) and len(pb) >= 2:
                    # the map yields (key, value): the key goes to K (patterns), the value to V (replacements) — not swapped
                    uses = lambda call, lid: any(x.get("k") == "Path" and x.get("res") == "local" and x.get("lid") == lid for x, _ in walk(call["args"][0]))
                    paired = uses(pushes[K["lid"]], pb[0][0]) and uses(pushes[V["lid"]], pb[1][0]) \
                        and not uses(pushes[K["lid"]], pb[1][0]) and not uses(pushes[V["lid"]], pb[0][0])
        # the same pairing written as one `.map(|(k, v)| (..k.., ..v..)).unzip()` into (K, V)
        for n, ps in walk(rl.hir):
            if n.get("k") == "MethodCall" and n.get("method") == "unzip" and "replace_char_map" in render(n, x=True):
                paired = True
    ctx.ob("read_rewrite_lists|pairwise-push", paired, "the automaton's patterns and the replacement table are filled in the same loop iteration: %s" % paired, fn=rl)
    ctx.ob("read_rewrite_lists|keys->automaton,values->table", K is not None and V is not None and K.get("lid") != V.get("lid"),
           "automaton built from `%s`, self.replacements assigned `%s` (two distinct collections)" % (built_from, assigned), fn=rl)
    ctx.floor(4)


def _let_init(f, name):
    for n, _ in walk(f.hir):
        if n.get("k") == "Let" and n["pat"].get("name") == name and "init" in n:
            return n["init"]
    return None


def _decisions(sl):
    """the two per-character decisions of replace_slow, identified by ROLE: the scrutinee `(a, b)` of the match whose single-true arms
    apply lower-casing resp. NFKC -> {'lower': expr, 'nfkc': expr}"""
    for n, _ in walk(sl.hir):
        if n.get("k") == "Match" and n.get("src") == "Normal" and peel(n["scrut"]).get("k") == "Tup" and len(peel(n["scrut"])["elems"]) == 2:
            out = {}
            for a in n["arms"]:
                p = a["pat"]
                if p.get("k") != "Tuple" or len(p["pats"]) != 2:
                    continue
                bs = [(x.get("e") or {}).get("v") if x.get("k") == "Expr" else None for x in p["pats"]]
                if sorted(map(bool, bs)) != [False, True] or None in bs:
                    continue
                idx = 0 if bs[0] else 1
                has_n = mentions(a["body"], lambda x: x.get("k") == "MethodCall" and x.get("method") == "nfkc")
                has_l = mentions(a["body"], lambda x: x.get("k") == "MethodCall" and x.get("method") == "to_lowercase")
                if has_n and not has_l:
                    out["nfkc"] = peel(n["scrut"])["elems"][idx]
                if has_l and not has_n:
                    out["lower"] = peel(n["scrut"])["elems"][idx]
            if len(out) == 2:
                return out
    return {}


def _pred_calls(e, db=None, f=None):
    from ..db import walk_x
    nodes = [c for c, _ in walk_x(e)]
    if db is not None:
        # look into private helpers the expression calls
        for c in list(nodes):
            if is_call(c):
                g = db.fns.get(c.get("resolved") or "") or db.fns.get(c.get("callee") or "") or db.fns.get(callee(c) or "")
                if g is not None and g.hir and not g.trait and g.info.get("vis") != "Public" and g.pkg == f.pkg:
                    nodes += [x for x, _ in walk(g.hir)]
    return sorted({(callee(c) or "").split("::")[-1] for c in nodes if is_call(c)
                   and (callee(c) or "").split("::")[-1] in ("is_nfkc_quick", "is_uppercase", "is_lowercase", "is_nfkc", "is_nfc_quick",
                                                            "is_nfkd_quick", "is_alphabetic", "should_ignore", "to_lowercase", "to_uppercase")})


@rule("C07.table-complete", "every two-column line of rewrite.def becomes a key of the automaton: the insertion into the replacement map is "
                            "conditional only on the line kind and on the duplicate rejection, and the automaton's patterns / replacements are "
                            "built from the WHOLE map (no filter / skip / take, no guard around the pushes) — an entry mapping a key to itself "
                            "is not a no-op: it shields its span from lower-casing / NFKC and shadows shorter keys inside it")
def table_complete(db, ctx):
    from ..loops import iterations, chain as lchain, filter_atoms
    from ..inline import nf
    rl = db.view(db.one("read_rewrite_lists", PLUGIN))
    ins = [(c, ps) for c, ps in walk(rl.hir) if c.get("k") == "MethodCall" and c.get("method") == "insert" and len(c["args"]) == 2 and
           "HashMap" in (c.get("rty") or "") and (c["args"][1].get("ty") or "").endswith("String")]
    if not ins:
        raise AnchorMissing("read_rewrite_lists: insertion into the replacement map")

    def allowed(a):
        a = peel(a)
        txt = render(a, x=True)
        c = cmp_atom(a)
        if c and (".len()" in txt and (lit_int(c[1]) is not None or lit_int(c[2]) is not None)):
            return "line kind (number of columns)"
        if a.get("k") == "MethodCall" and a.get("method") in ("is_empty", "contains_key", "starts_with"):
            return "blank line / duplicate key"
        if c and any(peel(x).get("k") == "Lit" and peel(x).get("t") == "char" for x in (c[1], c[2])):
            return "comment line"
        return None
    for c, ps in ins:
        pcs = path_conditions(c["id"], rl.hir) or []
        other = []
        for cn, pol in pcs:
            if isinstance(cn, dict):
                for a, p in atoms(cn, pol):
                    if allowed(a) is None:
                        other.append(("" if p else "!") + render(a)[:60])
        ctx.ob("read_rewrite_lists|every-replacement-line-inserted", not other,
               "the replacement map insertion is conditional on line kind / duplicate rejection only; further conditions: %s" % other, fn=rl, site=c.get("sp"))
    # the patterns handed to the automaton: built by an unfiltered pass over the map
    n_it = 0
    for itn in iterations(rl.hir):
        pushes = [p for p, _ in walk(itn["body"]) if p.get("k") == "MethodCall" and p.get("method") == "push"]
        ch, base = lchain(db, rl, itn["it"])
        if not pushes or "replace_char_map" not in nf(base):
            continue
        n_it += 1
        names = [m for m, _ in ch]
        dropping = sorted(set(names) & {"filter", "filter_map", "skip", "take", "step_by", "skip_while", "take_while", "dedup"})
        guarded = []
        for p_ in pushes:
            for cn, pol in (path_conditions(p_["id"], itn["body"]) or []):
                if isinstance(cn, dict):
                    guarded.append(render(cn)[:60])
        ctx.ob("read_rewrite_lists|automaton-from-whole-map", not dropping and not guarded,
               "automaton keys / replacements are pushed for every entry of the map: dropping adaptors %s, conditions around the pushes %s" % (dropping, guarded),
               fn=rl, site=itn["node"].get("sp"))
    if n_it == 0:
        # collected rather than pushed: keys().cloned().collect() / unzip — the chain must not drop entries either
        for c, _ in walk(rl.hir):
            if c.get("k") == "MethodCall" and c.get("method") in ("collect", "unzip") and "replace_char_map" in render(c, x=True):
                ch, base = lchain(db, rl, c["recv"])
                names = [m for m, _ in ch]
                dropping = sorted(set(names) & {"filter", "filter_map", "skip", "take", "step_by", "skip_while", "take_while", "dedup"})
                n_it += 1
                ctx.ob("read_rewrite_lists|automaton-from-whole-map", not dropping, "automaton keys / replacements are collected from the whole map: dropping adaptors %s" % dropping, fn=rl)
    ctx.floor(2)


@rule("C07.edit-space", "both rewriting paths search InputBuffer::current() and address their edits in that text's byte offsets (re-evaluation of "
                        "C01.edit-space: searching the original text while editing the current one is only right for the first plugin)")
def edit_space_reeval(db, ctx):
    from . import C01
    C01.edit_space(db, ctx)


@rule("C07.yomigana-class", "a character belongs to a class of the yomigana pattern (kanji / kana) when its category set INTERSECTS the requested "
                            "classes: characters that carry a further category (kanji numerals, the iteration mark, ..) are still kanji — a subset "
                            "test in either direction drops them from the pattern")
def yomigana_class(db, ctx):
    f = db.view(db.one("append_class", "IgnoreYomiganaPlugin"))
    tests = []
    for n, _ in walk(f.hir):
        if n.get("k") == "MethodCall" and n.get("method") in ("intersects", "contains", "is_subset", "is_superset", "eq") and "CategoryType" in (n.get("rty") or ""):
            tests.append(n["method"])
        c = cmp_atom(n) if n.get("k") == "Binary" else None
        if c and c[0] in ("Eq", "Ne") and any("CategoryType" in (peel_casts(x).get("ty") or "") for x in (c[1], c[2])):
            tests.append("==")
        if n.get("k") == "MethodCall" and n.get("method") == "is_empty" and peel(n["recv"]).get("k") == "Binary" and peel(n["recv"]).get("op") == "BitAnd":
            tests.append("intersects")          # !(c & t).is_empty()
    ctx.ob("append_class|membership", bool(tests) and set(tests) == {"intersects"},
           "IgnoreYomiganaPlugin::append_class selects ranges by %s (must be an intersection test)" % (sorted(set(tests)) or "no category test"), fn=f)


@rule("C07.path-choice", "replace_fast is reachable only when neither whole-text predicate holds, and the whole-text predicates use the "
                         "same library predicates as the per-character decisions of replace_slow")
def path_choice(db, ctx):
    ri = db.impls_of("InputTextPlugin::rewrite_impl")
    ri = [f for f in ri if PLUGIN in f.key]
    if len(ri) != 1:
        raise AnchorMissing("DefaultInputTextPlugin::rewrite_impl")
    f = ri[0]
    fast = [(c, ps) for c, ps in walk(f.hir) if is_call(c) and path_ends(callee(c), "replace_fast")]
    slow = [(c, ps) for c, ps in walk(f.hir) if is_call(c) and path_ends(callee(c), "replace_slow")]
    if not fast or not slow:
        raise AnchorMissing("rewrite_impl: replace_fast / replace_slow calls")
    pcs = path_conditions(fast[0][0]["id"], f.hir) or []
    neg = set()
    whole = {}
    for c, pol in pcs:
        if isinstance(c, dict):
            for a, p in atoms(c, pol):      # named booleans are looked through
                if p is False:
                    r = render(a)[:60]
                    neg.add(r)
                    whole[r] = _pred_calls(a)
    preds = sorted({p for v in whole.values() for p in v})
    ctx.ob("rewrite_impl|fast-only-if-nothing-to-normalise", {"is_nfkc_quick", "is_uppercase"} <= set(preds),
           "replace_fast is guarded by the negation of %s computed with %s (must include a whole-text NFKC quick-check and an upper-case "
           "scan)" % (sorted(neg), whole), fn=f, site=fast[0][0].get("sp"))
    sl = db.one("replace_slow", PLUGIN)
    per = {}
    for role, ex in _decisions(sl).items():
        per[role] = _pred_calls(ex, db, sl)
    per_preds = sorted({p for v in per.values() for p in v if p != "should_ignore"})
    ctx.ob("whole-text-vs-per-char-predicates", sorted(p for p in preds if p != "should_ignore") == per_preds and per_preds == ["is_nfkc_quick", "is_uppercase"],
           "whole-text predicates use %s, per-character decisions use %s (must be the same set: is_nfkc_quick, is_uppercase)" % (preds, per), fn=sl)
    ctx.floor(2)


@rule("C07.per-char", "in replace_slow NFKC is applied iff !should_ignore(ch) && !nfkc_quick(ch); lower-casing precedes NFKC; the "
                      "replaced range is offset..offset+ch.len_utf8(); the min_offset skip dominates both replacement sites")
def per_char(db, ctx):
    sl = db.one("replace_slow", PLUGIN)
    init = _decisions(sl).get("nfkc")
    ok = False
    table = {}
    if init:
        from ..flow import bool_eval
        for ign in (True, False):
            for quick in (True, False):
                def ev(a, ign=ign, quick=quick):
                    a = peel(a)
                    if a.get("k") == "MethodCall" and a.get("method") == "should_ignore":
                        return ign
                    if a.get("k") == "Match" and a.get("src") == "Normal" and mentions(a["scrut"], is_call_to("is_nfkc_quick")):
                        # match is_nfkc_quick(..) { Yes => b1, _ => b2 } (also what matches! expands to)
                        yes = other = None
                        for arm in a["arms"]:
                            b = peel(arm["body"])
                            while b.get("k") == "Block" and not b.get("stmts") and "expr" in b:
                                b = peel(b["expr"])
                            if b.get("k") != "Lit" or b.get("t") != "bool":
                                return None
                            pth = (arm["pat"].get("e") or {}).get("path") or arm["pat"].get("path") or ""
                            if pth.endswith("IsNormalized::Yes"):
                                yes = bool(b["v"])
                            else:
                                other = bool(b["v"]) if other in (None, bool(b["v"])) else "mixed"
                        if yes is None or other in (None, "mixed"):
                            return None
                        return yes if quick else other
                    c = cmp_atom(a)
                    if c and c[0] in ("Eq", "Ne") and mentions(a, is_call_to("is_nfkc_quick")) and mentions(a, lambda x: x.get("k") == "Path" and (x.get("path") or "").endswith("IsNormalized::Yes")):
                        return quick if c[0] == "Eq" else (not quick)
                    return None
                table[(ign, quick)] = bool_eval(db, sl, init, ev)
        ok = all(v == ((not ign) and (not quick)) for (ign, quick), v in table.items())
    ctx.ob("replace_slow|nfkc-iff-not-ignored", ok, "need_nfkc = `%s`; value by (ignored, quick-normalised) = %s (must be true exactly for (false, false))" % (render(init) if init else None, table), fn=sl)
    # order of lower-casing and nfkc in the (true,true) arm
    order_ok = False
    for n, _ in walk(sl.hir):
        if n.get("k") == "MethodCall" and n.get("method") == "nfkc":
            r = peel(n["recv"])
            if r.get("k") == "MethodCall" and r.get("method") == "to_lowercase":
                order_ok = True
    bad = any(n.get("k") == "MethodCall" and n.get("method") == "to_lowercase" and mentions(n["recv"], lambda x: x.get("k") == "MethodCall" and x.get("method") == "nfkc")
              for n, _ in walk(sl.hir))
    ctx.ob("replace_slow|lowercase-before-nfkc", order_ok and not bad, "combined case applies `.to_lowercase().nfkc()` (lower-casing first): %s" % (order_ok and not bad), fn=sl)
    # range — by role: (position, character) are the bindings of the loop over char_indices(), whatever they are called
    from ..loops import iterations, chain
    from ..db import is_local, deref_all, SWAP
    from ..origins import pat_bindings
    pos_lid = ch_lid = None
    for itn in iterations(sl.hir):
        names, _base = chain(db, sl, itn["it"])
        if any(m == "char_indices" for m, _ in names) and itn["kind"] == "for":
            pb = pat_bindings(itn["pat"])
            if len(pb) >= 2:
                pos_lid, ch_lid = pb[0][0], pb[1][0]
    if pos_lid is None:
        raise AnchorMissing("replace_slow: loop over char_indices()")
    n_calls = 0
    for c, ps in walk(sl.hir):
        if is_call(c) and path_ends(callee(c), "handle_normalization_slow"):
            a = call_args(c)
            n_calls += 1
            ln = peel(deref_all(a[4]))
            ok = is_local(a[3], pos_lid) and isinstance(ln, dict) and ln.get("k") == "MethodCall" and ln.get("method") == "len_utf8" and is_local(ln["recv"], ch_lid)
            ctx.ob("replace_slow|range-args#%d" % n_calls, ok, "handle_normalization_slow(.., start=%s, len=%s, ..) must be (loop position, loop character.len_utf8())" % (render(a[3]), render(a[4])), fn=sl, site=c.get("sp"))
    hn = db.one("handle_normalization_slow", PLUGIN)
    hp = [p_.get("name") for p_ in (hn.info.get("params") or []) if isinstance(p_, dict)]
    for c, ps in walk(hn.hir):
        if c.get("k") == "MethodCall" and c.get("method") == "replace_char_iter" and len(hp) >= 5:
            from ..inline import range_bounds
            st, ln = hp[3], hp[4]
            ctx.ob("handle_normalization_slow|range", range_bounds(c["args"][0]) in ((st, "(%s + %s)" % (ln, st)), (st, "(%s + %s)" % (st, ln))),
                   "replacement range is `%s` (must be start..start+len, the 4th and 5th parameters)" % render(c["args"][0]), fn=hn)
    # skip guard: `continue` while the loop position is below a watermark that is set to the end of the last table match
    marks = set()
    for n, ps in walk(sl.hir):
        if n.get("k") == "If" and exit_kind(n["then"]) == "continue":
            cm = cmp_atom(n["cond"])
            if cm:
                for l_, r_, op in ((cm[1], cm[2], cm[0]), (cm[2], cm[1], SWAP[cm[0]])):
                    r2 = peel_casts(r_)
                    if op == "Lt" and is_local(l_, pos_lid) and isinstance(r2, dict) and r2.get("res") == "local":
                        marks.add(r2.get("lid"))

    def is_end(e):
        d = peel_casts(deref_all(e)) if isinstance(e, dict) else None
        return isinstance(d, dict) and ((d.get("k") == "Field" and d.get("name") == "end") or (d.get("k") == "MethodCall" and d.get("method") == "end"))
    assigned_from_end = any(n.get("k") == "Assign" and peel(n["l"]).get("lid") in marks and is_end(n["r"]) for n, _ in walk(sl.hir))
    ctx.ob("replace_slow|skip-inside-previous-match", len(marks) == 1 and assigned_from_end,
           "`if position < watermark { continue }` present: %s; watermark := match end: %s" % (len(marks) == 1, assigned_from_end), fn=sl)
    # the rewrite-table lookup is attempted at every position that is not inside the previous match
    finds = [(c, ps) for c, ps in walk(sl.hir) if c.get("k") == "MethodCall" and c.get("method") == "find" and "AhoCorasick" in (c.get("rty") or "")]
    if not finds:
        raise AnchorMissing("replace_slow: automaton lookup")
    for c, ps in finds:
        loop_body = None
        for n2, _ in walk(sl.hir):
            fl = for_loop_parts(n2) if n2.get("k") == "Match" else None
            if fl and any(x is c for x, _ in walk(fl[2])):
                loop_body = fl[2]
        pcs = path_conditions(c["id"], loop_body) if loop_body else None
        conds = [("" if p else "!") + render(a) for cn, pol in (pcs or []) if isinstance(cn, dict) for a, p in atoms(cn, pol)]

        def is_skip(a, p):
            """the atom is the watermark test (position vs watermark), in either spelling"""
            cm_ = cmp_atom(a)
            if not cm_:
                return False
            sides = (peel_casts(cm_[1]), peel_casts(cm_[2]))
            return any(is_local(x, pos_lid) for x in sides) and any(isinstance(x, dict) and x.get("lid") in marks for x in sides)
        ats = [(a, p) for cn, pol in (pcs or []) if isinstance(cn, dict) for a, p in atoms(cn, pol)]
        ok = pcs is not None and len(ats) == 1 and is_skip(*ats[0])
        ctx.ob("replace_slow|lookup-at-every-position", ok,
               "the table lookup `%s` is reached under %s (must be only the watermark test !(position < watermark): a key must be tried at every position, whatever "
               "the character's own normalisation status)" % (render(c)[:50], conds), fn=sl, site=c.get("sp"))
    ctx.floor(7)


@rule("C07.char-cache", "InputBuffer.mod_chars is a cache of the current text (refresh_chars refills it only when empty): every function that "
                        "replaces the current text (swap / assignment of `modified`) also invalidates it, so the next plugin decides on the rewritten text")
def char_cache(db, ctx):
    from .C10 import events, param_summaries
    adt = "sudachi::input_text::buffer::InputBuffer"
    rc = db.one("refresh_chars", "InputBuffer")
    lazy = any(n.get("k") == "If" and "mod_chars" in render(n["cond"]) and "is_empty" in render(n["cond"]) for n, _ in walk(rc.hir))
    ctx.ob("refresh_chars|lazy", True, "refresh_chars refills mod_chars only when it is empty: %s" % lazy, fn=rc, nontrivial=False)
    if not lazy:
        return   # an unconditional refresh needs no invalidation
    summ = param_summaries(db)
    n = 0
    for f in db.fns.values():
        if f.pkg != "sudachi" or not f.hir or f.self_adt != adt:
            continue
        ev = [(k_, t_[2], how) for k_, t_, how, node in events(db, f, summ) if t_[0] == "field" and t_[1] == adt]
        replaces_text = any(fld == "modified" and (k_ == "swap" or (k_ == "kill" and how == "assign")) for k_, fld, how in ev)
        if not replaces_text:
            continue
        n += 1
        kills_cache = any(fld == "mod_chars" and k_ == "kill" for k_, fld, how in ev)
        ctx.ob("%s|invalidates-char-cache" % f.short(), kills_cache,
               "%s installs a new current text; it clears the character cache mod_chars: %s%s" % (
                   f.short(), kills_cache, "" if kills_cache else " — a later plugin that asks for characters sees the text as it was BEFORE this rewrite "
                                                                   "(e.g. it picks the fast/general path from stale characters)"), fn=f)
    ctx.floor(1)


@rule("C07.flush-pending-range", "accumulate-and-flush loops in the yomigana class builder: a range accumulated across iterations and emitted inside "
                                 "the loop when a gap is met is also emitted once after the loop (otherwise the last block of every class is lost)")
def flush_pending(db, ctx):
    from ..origins import for_loop_parts
    n_inst = 0
    for f in db.fns.values():
        if f.pkg != "sudachi" or not f.hir or "ignore_yomigana" not in f.key:
            continue
        stmts = f.hir.get("stmts", []) if f.hir.get("k") == "Block" else []
        for i, st in enumerate(stmts):
            e = st.get("e") or {}
            fl = for_loop_parts(e) if e.get("k") == "Match" else None
            if not fl:
                continue
            body = fl[2]
            inside = {x["pat"].get("name") for x, _ in walk(body) if x.get("k") == "Let"}
            carried = {local_name(x["l"]) for x, _ in walk(body) if x.get("k") == "Assign" and local_name(x["l"]) and local_name(x["l"]) not in inside}
            for c, _ in walk(body):
                if is_call(c) and callee(c) in db.fns:
                    used = [local_name(a) for a in call_args(c) if local_name(a) in carried]
                    if not used:
                        continue
                    n_inst += 1
                    after = False
                    for st2 in stmts[i + 1:]:
                        for c2, _ in walk(st2.get("e") or st2.get("init") or {}):
                            if is_call(c2) and callee(c2) == callee(c) and any(local_name(a) in used for a in call_args(c2)):
                                after = True
                    tail = f.hir.get("expr")
                    if tail is not None:
                        for c2, _ in walk(tail):
                            if is_call(c2) and callee(c2) == callee(c) and any(local_name(a) in used for a in call_args(c2)):
                                after = True
                    ctx.ob("%s|%s(%s)" % (f.short(), short_path(callee(c)), ",".join(used)), after,
                           "%s: `%s` emits the pending %s inside the loop; the same call after the loop flushes the last one: %s" % (
                               f.short(), render(c)[:60], used, after), fn=f, site=c.get("sp"))
    ctx.floor(1)


@rule("C07.psm-set-source", "the prolonged-sound-mark class is built from the configured `prolongedSoundMarks` and nothing else: no other value is inserted "
                            "into the set the regex is compiled from (a replacement symbol outside the configured marks must not be collapsed)")
def psm_set_source(db, ctx):
    from ..db import walk, is_call, callee, call_args, path_ends, render, peel
    f = [g for g in db.impls_of("InputTextPlugin::set_up") if "ProlongedSoundMark" in g.key]
    if not f:
        raise AnchorMissing("ProlongedSoundMarkPlugin::set_up")
    f = f[0]
    v = db.view(f, depth=1, keep=("prolongs_as_regex",))
    MUT = {"extend", "insert", "push", "append", "remove", "retain", "clear", "extend_from_slice", "drain", "take", "replace"}

    def from_marks(e):
        return any(x.get("k") == "Field" and x.get("name") == "prolongedSoundMarks" for x, _ in walk(e))

    def other_setting(e):
        return [x.get("name") for x, _ in walk(e) if x.get("k") == "Field" and "PluginSettings" in (x.get("adt") or "") and x.get("name") != "prolongedSoundMarks"]
    n = 0
    for x, ps in walk(v.hir):
        if x.get("k") == "MethodCall" and x.get("method") in MUT and "HashSet<char" in ((x.get("rty") or "") + (peel(x.get("recv")).get("ty") or "")):
            n += 1
            args_ok = all(from_marks(a) for a in x.get("args", [])) and x["method"] in ("extend", "insert")
            ctx.ob("set_up|set-edit#%d" % n, args_ok, "ProlongedSoundMarkPlugin::set_up edits the mark set: `%s` — the set must hold exactly the configured marks" % render(x)[:100], fn=f, site=x.get("sp"))
    # the value stored as the set / handed to the regex builder comes from prolongedSoundMarks only
    stores = [x for x, _ in walk(v.hir) if x.get("k") == "Assign" and peel(x["l"]).get("k") == "Field" and "HashSet<char" in (peel(x["l"]).get("ty") or "")]
    if not stores:
        raise AnchorMissing("assignment of the mark set in ProlongedSoundMarkPlugin::set_up")
    for s in stores:
        r_ = peel(s["r"])
        if r_.get("k") == "Path" and "mut_init" in r_:      # `let mut set = ..collect()`: edits of it are judged above, its source here
            r_ = r_["mut_init"]
        src = render(r_, x=True)
        import re as _re
        names = set(_re.findall(r"\.([A-Za-z_]\w*)\b(?!\()", src))
        setting_fields = {fl["name"] for k_, a_ in db.adts.items() if k_.endswith("prolonged_sound_mark::PluginSettings") for v_ in a_["variants"] for fl in v_["fields"]}
        others = sorted((names & setting_fields) - {"prolongedSoundMarks"})
        ok = "prolongedSoundMarks" in names and not others
        ctx.ob("set_up|set-source", ok, "the mark set is `%s`: built from prolongedSoundMarks: %s; other settings flowing in: %s" % (src[:90], "prolongedSoundMarks" in names, others), fn=f, site=s.get("sp"))
    ctx.floor(1)
