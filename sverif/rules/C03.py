"""C03 — tokenization is total: guards, error discipline, width bounds."""
from ..engine import rule
from ..db import (walk, peel, peel_casts, render, callee, path_ends, short_path, is_call, call_args, lit_int,
                  diverges, exit_kind, path_conditions, atoms, AnchorMissing, local_name)
from ..guards import guarded_exits, eval3, mentions, is_call_to, cmp_atom, holds
from ..origins import origins, derived_fns, unwrap_try, field_writes, index as oindex, owners
from ..uses import consumer, is_result_ty
from .. import cg

META = {
    "explanation": (
        "Decided for every input at once: (limits) do_tokenize starts with start_build()?, start_build's first statement "
        "rejects len > MAX_LENGTH (=49149, evaluated at MAX and MAX+1), commit rejects a rewritten text longer than "
        "REALLY_MAX_LENGTH (=65535 <= u16::MAX) before installing it, so every `as u16` on a text offset is in range; "
        "(total-lattice) the empty-text early return precedes lattice construction, the fallback provider is invoked "
        "when no candidate exists and a still-empty position becomes Err, an OOV provider exists (load-time rejection), "
        "EOS disconnection becomes Err; (errors) no explicit panic / Result unwrap is reachable from the public analysis "
        "API outside a frozen allow-table, and every SudachiResult produced on the analysis path is propagated; "
        "(unchecked) the set of user `unsafe` blocks in the library is frozen (function, operations); (acc-width) the "
        "path-cost accumulator width against positions x per-node increment; (tainted-arith) unchecked arithmetic on "
        "unvalidated integer settings; (sentinel-arith) arithmetic on costs that may be the i32::MAX sentinel. NOT "
        "decided: absence of out-of-bounds in safe indexing for all inputs (value invariants of the offset tables), "
        "termination/complexity of regex and trie walks, allocation failure."),
    "decided": ["limits", "total-lattice", "errors", "unchecked", "acc-width", "tainted-arith", "sentinel-arith"],
    "not_decided": ["safe-indexing value invariants for all inputs", "regex/trie termination", "allocation failure"],
    "trusted": ["an unsafe get_unchecked on a valid trie / id table stays in bounds (dictionary validity, C06)"],
}


def analysis_entries(db):
    out = []
    for k, f in db.fns.items():
        if f.pkg != "sudachi" or f.info.get("vis") != "Public":
            continue
        if any(s in k for s in ("stateful_tokenizer::StatefulTokenizer<D>::", "mlist::MorphemeList<T>::", "morpheme::Morpheme<T>::",
                                "stateless_tokenizer::StatelessTokenizer<T>", "mlist::MorphemeIter<T>")):
            out.append(k)
    if len(out) < 30:
        raise AnchorMissing("public analysis API", "(%d entries)" % len(out))
    return out


@rule("C03.limits", "do_tokenize calls start_build()? first; start_build's first statement rejects len>MAX_LENGTH; commit rejects "
                    "sz>REALLY_MAX_LENGTH before the swaps; MAX_LENGTH=49149, REALLY_MAX_LENGTH=65535<=u16::MAX")
def limits(db, ctx):
    mx = db.const("input_text::buffer::MAX_LENGTH")
    rmx = db.const("input_text::buffer::REALLY_MAX_LENGTH")
    ctx.ob("consts", mx == 49149 and rmx == 65535, "MAX_LENGTH=%s (documented 49149), REALLY_MAX_LENGTH=%s (must be <= u16::MAX=65535 "
                                                   "because offsets are stored as u16)" % (mx, rmx))
    dt = db.view(db.one("do_tokenize", "StatefulTokenizer"), keep=("rewrite_input", "build_lattice", "resolve_best_path"))
    order = [(c, ps) for c, ps in walk(dt.hir) if is_call(c) and (callee(c) in db.fns or path_ends(callee(c), ("start_build", "build", "rewrite_input", "build_lattice")))]
    names = [short_path(callee(c)) for c, _ in order]
    first = order[0] if order else None
    ok = first is not None and path_ends(callee(first[0]), "InputBuffer::start_build") and consumer(first[0], first[1])[0] == "try"
    ctx.ob("do_tokenize|start_build-first", ok, "do_tokenize call order: %s; the first must be InputBuffer::start_build consumed by `?`" % names[:7], fn=dt)
    sb = db.one("start_build", "InputBuffer")
    st0 = None
    for st in sb.hir.get("stmts", []):
        e = st.get("e") or st.get("init")
        if e is None or (e.get("mac") and any(m.startswith("debug_assert") for m in e["mac"])):
            continue
        # pure `let x = <reads only>` statements in front of the guard do no work: skip them
        if st.get("k") == "Let" and not any(x.get("k") in ("Assign", "AssignOp") or (x.get("k") == "MethodCall" and x.get("method") in ("push", "push_str", "extend", "clear", "insert"))
                                            for x, _ in walk(e)):
            continue
        st0 = e
        break
    ok = False
    prof = None
    if st0 and st0.get("k") == "If" and exit_kind(st0["then"]) == "err":
        isb = lambda x: x.get("k") == "Path" and path_ends(x.get("path"), "MAX_LENGTH") and not path_ends(x.get("path"), "REALLY_MAX_LENGTH")
        prof = []
        for p in (0, 1):
            v = eval3(st0["cond"], _bound_ev(isb, p))
            prof.append(bool(v))
        og0 = set()
        for x, _ in walk(st0["cond"]):
            if x.get("k") in ("Path", "Field", "MethodCall"):
                og0 |= origins(db, sb, x, depth=0)
        ok = prof == [False, True] and any(o[0] == "field" and o[2] == "original" for o in og0)
    ctx.ob("start_build|first-stmt-rejects-too-long", ok,
           "start_build's first statement is `%s`; rejects(len=MAX,len=MAX+1)=%s on self.original" % (render(st0)[:120] if st0 else None, prof), fn=sb)
    cm = db.one("commit", "InputBuffer")
    # every mem::swap (the install) is unreachable when size == LIMIT+1 and reachable when size == LIMIT, however the decision
    # is written (early return / if-else / named boolean)
    from ..flow import holds_at
    isb = lambda x: x.get("k") == "Path" and path_ends(x.get("path"), "REALLY_MAX_LENGTH")
    swaps = [c for c, _ in walk(cm.hir) if is_call(c) and path_ends(callee(c), "mem::swap")]
    prof = []
    guard_conds = []
    for c in swaps:
        pcs = path_conditions(c["id"], cm.hir) or []
        prof.append((holds_at(pcs, _bound_ev(isb, 0)), holds_at(pcs, _bound_ev(isb, 1))))
        guard_conds += [cn for cn, pol in pcs if isinstance(cn, dict) and mentions(cn, isb)]
    ok_g = bool(swaps) and all(at0 is not False and at1 is False for at0, at1 in prof)
    ctx.ob("commit|reject-before-install", ok_g,
           "commit: %d mem::swap install(s); reachable at (size=LIMIT, size=LIMIT+1) = %s (must be reachable / unreachable: the REALLY_MAX_LENGTH "
           "rejection dominates the install)" % (len(swaps), prof), fn=cm)
    # the compared size must be the value resolve_edits returns: it stops copying (and returns early) once the running size
    # exceeds the limit, so the length of the partially written buffer is NOT the size of the rewritten text
    src_ok = False
    shown = None
    from ..db import walk_x
    for cn in guard_conds:
        for a, _ in walk_x(cn):
            c = cmp_atom(a) if a.get("k") == "Binary" else None
            if c and (isb(peel_casts(c[1])) or isb(peel_casts(c[2]))):
                side = c[2] if isb(peel_casts(c[1])) else c[1]
                og = origins(db, cm, side, depth=0)
                shown = sorted(short_path(o[1]) for o in og if o[0] == "call") + sorted("field " + o[2] for o in og if o[0] == "field")
                src_ok = any(o[0] == "call" and path_ends(o[1], "resolve_edits") for o in og) and not any(o[0] == "field" for o in og)
    ctx.ob("commit|compares-returned-size", src_ok, "the size compared with REALLY_MAX_LENGTH comes from %s (must be the return value of resolve_edits, which "
                                                    "returns early with a partially filled buffer when the limit is exceeded)" % shown, fn=cm)
    early = any(ek == "ret" and pol and "REALLY_MAX_LENGTH" in render(cond) for ifn, cond, pol, ek, ps in guarded_exits(re_fn_hir(db)))
    ctx.ob("resolve_edits|early-return-on-overflow", early, "resolve_edits returns as soon as its running size exceeds REALLY_MAX_LENGTH: %s" % early)
    # the value compared is resolve_edits' return value
    re = db.one("resolve_edits", None)
    ret = re.hir.get("expr")
    from ..inline import nf as _nf
    rl = peel_casts(ret) if ret is not None else {}
    # the returned value is the running length: the `let mut` local that starts as source.len() (whatever it is called)
    from ..db import param_roles, is_local
    from .C08 import _EDIT_ROLES
    src_lid = param_roles(re, _EDIT_ROLES).get("source")
    mi = peel_casts(rl.get("mut_init")) if isinstance(rl.get("mut_init"), dict) else {}
    is_acc = rl.get("k") == "Path" and mi.get("k") == "MethodCall" and mi.get("method") == "len" and is_local(mi["recv"], src_lid)
    ctx.ob("resolve_edits|returns-length", ret is not None and is_acc,
           "resolve_edits returns the rewritten length (`%s`)" % (render(ret) if ret else None), fn=re)
    # u16 casts of offsets in the analysis closure: inventory (bounded by the two guards above)
    g = cg.get(db)
    clo = g.closure(analysis_entries(db))
    casts = 0
    for k in clo:
        f = db.fns[k]
        if f.pkg != "sudachi" or not f.hir:
            continue
        for n, _ in walk(f.hir):
            if n.get("k") == "Cast" and n.get("ty") == "u16" and n["e"].get("ty") == "usize":
                casts += 1
    ctx.ob("u16-casts-inventory", casts >= 20, "%d `usize as u16` casts in the analysis closure are covered by the two length guards "
                                               "(floor 20; a drop means the closure was not analysed)" % casts, nontrivial=False)
    ctx.floor(5)


def re_fn_hir(db):
    return db.one("resolve_edits", None).hir


def _bound_ev(isb, point):
    def ev(atom):
        c = cmp_atom(atom)
        if not c:
            return None
        op, l, r = c
        if isb(peel_casts(r)):
            return holds(op, point, 0)
        if isb(peel_casts(l)):
            return holds(op, 0, point)
        return None
    return ev


@rule("C03.total-lattice", "empty text returns before the lattice is built; when no candidate was created the last OOV provider is "
                           "invoked, and a still-empty position is an error; loading rejects a configuration without OOV providers")
def total_lattice(db, ctx):
    dt = db.view(db.one("do_tokenize", "StatefulTokenizer"), keep=("rewrite_input", "build_lattice", "resolve_best_path"))
    bl_call = [c for c, _ in walk(dt.hir) if is_call(c) and path_ends(callee(c), "build_lattice")]
    if not bl_call:
        raise AnchorMissing("do_tokenize: build_lattice call")
    pcs = path_conditions(bl_call[0]["id"], dt.hir) or []
    ok = any(isinstance(c, dict) and pol is False and peel(c).get("k") == "MethodCall" and peel(c).get("method") == "is_empty"
             and mentions(c, is_call_to("InputBuffer::current")) for c, pol in pcs)
    ctx.ob("do_tokenize|empty-text-returns-first", ok,
           "build_lattice is reached only when !self.input.current().is_empty() (early `return Ok(())`): %s" % ok, fn=dt)
    bl = db.one("build_lattice", "LatticeBuilder")
    fb_i = err_i = None
    seq = []
    for n, ps in walk(bl.hir):
        if n.get("k") == "If":
            c = peel(n["cond"])
            if c.get("k") == "MethodCall" and c.get("method") == "is_empty" and "CreatedWords" in (peel(c["recv"]).get("ty") or ""):
                has_last = mentions(n["then"], lambda x: x.get("k") == "MethodCall" and x.get("method") == "last")
                has_prov = mentions(n["then"], is_call_to("provide_oovs"))
                if has_last and has_prov:
                    seq.append(("fallback", n))
                elif exit_kind(n["then"]) == "err":
                    seq.append(("err", n))
    kinds = [k for k, _ in seq]
    ctx.ob("build_lattice|fallback-then-error", kinds == ["fallback", "err"],
           "guards on created.is_empty() in order: %s (must be [fallback provider call, Err exit])" % kinds, fn=bl)
    if seq and seq[0][0] == "fallback":
        for c, ps in walk(seq[0][1]["then"]):
            if is_call(c) and path_ends(callee(c), "provide_oovs"):
                ctx.ob("build_lattice|fallback-propagates", consumer(c, ps)[0] == "try",
                       "fallback provide_oovs result is propagated with `?`: %s" % consumer(c, ps)[0], fn=bl)
    ld = db.one("from_cfg_storage", "JapaneseDictionary")
    ok = False
    for ifn, cond, pol, ek, ps in guarded_exits(ld.hir):
        if ek == "err" and pol and mentions(cond, lambda x: x.get("k") == "Field" and x.get("name") == "oov") and \
                mentions(cond, lambda x: x.get("k") == "MethodCall" and x.get("method") == "is_empty"):
            ok = True
    ctx.ob("from_cfg_storage|no-oov-provider-is-error", ok,
           "JapaneseDictionary::from_cfg_storage returns Err when plugins.oov.is_empty() (discharges oov_providers.last().unwrap()): %s" % ok, fn=ld)
    ctx.floor(4)


ALLOW = {
    ("<InputPart as Default>::default", "Result::unwrap"): "start_build on a fresh empty buffer: length 0 <= MAX_LENGTH",
    ("<NodeSplitIterator as Iterator>::next", "Result::unwrap"): "word ids of split units come from the dictionary, whose references "
                                                                "are validated when it is compiled (C06.validate); documented in the source",
    ("<NoDic as DictionaryAccess>::grammar", "panic"): "NoDic is uninhabited",
    ("<NoDic as DictionaryAccess>::lexicon", "panic"): "NoDic is uninhabited",
    ("ResultNode::split", "panic"): "Mode::C never reaches split(): split_path returns early for Mode::C and split_into returns "
                                    "Ok(false) because num_splits(C)==0 (checked by C03.split-guard)",
}


@rule("C03.errors", "no explicit panic macro / Result unwrap reachable from the public analysis API outside the frozen allow-table; "
                    "every SudachiResult produced in do_tokenize / rewrite_input / build_lattice / provide_oovs / resolve_best_path "
                    "is propagated")
def errors(db, ctx):
    g = cg.get(db)
    entries = analysis_entries(db)
    clo = g.closure(entries)
    d = derived_fns(db)
    n = 0
    for k in sorted(clo):
        f = db.fns[k]
        if f.pkg != "sudachi" or k in d or "_serde" in k:
            continue
        n += 1
        ctx.touch(f)
        for s in cg.panic_sites(f):
            if cg.is_debug_only(s):
                continue
            mac = cg.macro_of(s)
            if s["kind"] == "unwrap":
                if not s["callee"].startswith("Result"):
                    continue
                what = s["callee"]
            else:
                if mac is None:
                    continue
                what = mac
            allowed = None
            own = f
            for (suffix, w), reason in ALLOW.items():
                for o in owners(db, f):
                    if o.short().endswith(suffix) and w == what and allowed is None:
                        allowed, own = reason, o
            ctx.ob("%s|%s" % (own.short(), what), allowed is not None,
                   "%s: %s at %s reachable from the analysis API via %s%s" % (
                       f.short(), what, s["sp"], " → ".join(g.path(entries, k) or []),
                       (" — allowed: " + allowed) if allowed else " — NOT allowed"), fn=f, site=s["sp"])
    ctx.ob("closure-size", n >= 250, "analysis closure has %d sudachi functions (floor 250)" % n, nontrivial=False)
    # result-use on the main path
    cnt = 0
    for nm, sa in (("do_tokenize", "StatefulTokenizer"), ("rewrite_input", "StatefulTokenizer"), ("build_lattice", "LatticeBuilder"),
                   ("provide_oovs", "LatticeBuilder"), ("resolve_best_path", "StatefulTokenizer"), ("build_lattice", "StatefulTokenizer")):
        f = db.one(nm, sa)
        for c, ps in walk(f.hir):
            if is_call(c) and is_result_ty(c.get("ty", "")) and "SudachiError" in c.get("ty", ""):
                kind, det = consumer(c, ps)
                cnt += 1
                ctx.ob("%s|use(%s)#%d" % (f.short(), short_path(callee(c)), cnt), kind in ("try", "return", "match"),
                       "%s: SudachiResult of `%s` is %s" % (f.short(), render(c)[:100], kind), fn=f, site=c.get("sp"))
    ctx.floor(12)


@rule("C03.split-guard", "Mode::C never reaches ResultNode::split: split_path returns the path unchanged for Mode::C and "
                         "ResultNode::num_splits(Mode::C) is 0 so split_into returns Ok(false)")
def split_guard(db, ctx):
    sp = db.one("split_path", None)
    ok = False
    for ifn, cond, pol, ek, ps in guarded_exits(sp.hir):
        if pol and ek in ("ok", "ret") and mentions(cond, lambda x: x.get("k") == "Path" and path_ends(x.get("path"), "Mode::C")):
            ok = True
    ctx.ob("split_path|mode-C-returns-early", ok, "split_path returns before splitting when mode == Mode::C: %s" % ok, fn=sp)
    ns = db.view(db.one("num_splits", "ResultNode"))
    from ..flow import select
    from .C09 import ev_mode
    body = ns.hir
    val = lit_int(select(db, ns, body, ev_mode("C")))
    ctx.ob("num_splits|C=0", val == 0, "ResultNode::num_splits(Mode::C) = %s (must be 0)" % val, fn=ns)
    si = db.one("split_into", "MorphemeList")
    from ..flow import reachable_at, is_local_from_call
    isv = is_local_from_call("ResultNode::num_splits")
    calls = [c for c, _ in walk(si.hir) if is_call(c) and path_ends(callee(c), "ResultNode::split")]
    if not calls:
        raise AnchorMissing("split_into: ResultNode::split call")
    r0 = reachable_at(si.hir, calls[0]["id"], isv, 0)
    r2 = reachable_at(si.hir, calls[0]["id"], isv, 2)
    ctx.ob("split_into|zero-splits-never-splits", r0 is False and r2 is True,
           "ResultNode::split is unreachable when num_splits == 0 (%s) and reachable when it is 2 (%s)" % (r0 is False, r2 is True), fn=si)


# frozen table of user `unsafe` blocks in the library: function -> operations inside
UNSAFE_TABLE = {
    "ConnectionMatrix::cost": {"get_unchecked"},
    "Trie::get": {"get_unchecked"},
    "TrieEntryIter::get": {"get_unchecked"},
    "WordIdTable::entries": {"offset", "as_ptr", "read", "new_unchecked"},
    "<WordIdIter as Iterator>::next": {"read_unaligned", "new_unchecked", "offset"},
    "DictionaryLoader::read_system_dictionary": {"read_any_dictionary"},
    "DictionaryLoader::read_user_dictionary": {"read_any_dictionary"},
    "DictBuilder::unsafe_make_resolver": {"transmute"},
    "LexiconReader::read_file": {"map"},
    "LexiconReader::resolve_splits": {"transmute"},
    "JapaneseDictionary::from_cfg_storage": {"system_static_slice"},
    "dictionary::map_file": {"map"},
    "SudachiDicData::user_static_slice": {"transmute", "as_ref"},
    "InputBuffer::make_editor": {"transmute"},
    "PluginLoader::load_plugin_from_dso": {"get"},
    "PluginLoader::try_load_library_from": {"new", "as_str"},
    "CowArray::from_bytes": {"from_raw_parts", "transmute"},
    "CowArray::from_owned": {"transmute"},
    "CowArray::set": {"transmute"},
}
ANALYSIS_UNSAFE = {"ConnectionMatrix::cost", "Trie::get", "TrieEntryIter::get", "WordIdTable::entries", "<WordIdIter as Iterator>::next"}


@rule("C03.unchecked", "the set of user-written `unsafe` blocks in the sudachi library is exactly the frozen, audited table "
                       "(function -> operations); the five reachable from analysis read dictionary data only")
def unchecked(db, ctx):
    seen = {}
    for k, f in db.fns.items():
        if f.pkg != "sudachi" or not f.hir:
            continue
        for n, ps in walk(f.hir):
            if n.get("k") == "Block" and n.get("unsafe") and "User" in n["unsafe"] and not n.get("mac"):
                ops = {(callee(c) or "?").split("::")[-1] for c, _ in walk(n) if is_call(c)}
                seen.setdefault(f.short(), set()).update(ops)
                ctx.touch(f)
    for fn, ops in sorted(seen.items()):
        allowed = None
        for key, aops in UNSAFE_TABLE.items():
            if fn.endswith(key):
                allowed = aops
        ok = allowed is not None and ops <= allowed
        ctx.ob("%s|unsafe" % fn, ok, "%s contains unsafe operations %s; audited table allows %s" % (fn, sorted(ops), sorted(allowed) if allowed else "NOTHING (new unsafe block)"),
               fn=fn)
    g = cg.get(db)
    clo = g.closure(analysis_entries(db))
    reach = {db.fns[k].short() for k in clo if any(db.fns[k].short().endswith(a) for a in seen)}
    extra = {r for r in reach if not any(r.endswith(a) for a in ANALYSIS_UNSAFE)
             and not any(r.endswith(x) for x in ("InputBuffer::make_editor", "CowArray::set", "CowArray::from_bytes", "CowArray::from_owned",
                                                 "LexiconReader::resolve_splits", "LexiconReader::read_file", "DictBuilder::unsafe_make_resolver",
                                                 "SudachiDicData::user_static_slice", "JapaneseDictionary::from_cfg_storage", "dictionary::map_file",
                                                 "DictionaryLoader::read_system_dictionary", "DictionaryLoader::read_user_dictionary",
                                                 "PluginLoader::load_plugin_from_dso", "PluginLoader::try_load_library_from"))}
    ctx.ob("analysis-reachable-unsafe", not extra, "unsafe blocks reachable from the analysis API: %s; unexpected: %s" % (sorted(reach), sorted(extra)))
    ctx.floor(15)


_BITS = {"i8": 8, "i16": 16, "i32": 32, "i64": 64, "i128": 128, "isize": 64, "u8": 8, "u16": 16, "u32": 32, "u64": 64}


@rule("C03.acc-width", "path-cost accumulator width: positions(REALLY_MAX_LENGTH+1) x (max|word cost| + max|connection cost|) must fit "
                       "the accumulator type (slots read from the program)")
def acc_width(db, ctx):
    rmx = db.const("input_text::buffer::REALLY_MAX_LENGTH")
    vn = db.adt_fields("lattice::VNode")
    acc_ty = vn["total_cost"]["ty"]
    nd = db.adt_fields("analysis::inner::Node")
    cost_ty = nd["cost"]["ty"]
    cm = db.one("cost", "ConnectionMatrix")
    conn_ty = cm.info["output"]
    cn = db.one("connect_node", "Lattice")
    # the addition itself: type of the candidate expression
    add_ty = None
    for n, _ in walk(cn.hir):
        if n.get("k") == "Binary" and n["op"] == "Add" and mentions(n, is_call_to("PathCost::total_cost")):
            add_ty = n.get("ty")
    ab, cb, kb = _BITS.get(acc_ty), _BITS.get(cost_ty), _BITS.get(conn_ty)
    if not (ab and cb and kb and add_ty):
        raise AnchorMissing("acc-width slots", "acc=%s cost=%s conn=%s add=%s" % (acc_ty, cost_ty, conn_ty, add_ty))
    worst = (rmx + 1) * ((1 << (cb - 1)) - 1 + (1 << (kb - 1)) - 1)
    limit = (1 << (min(ab, _BITS.get(add_ty, ab)) - 1)) - 1
    ctx.ob("VNode.total_cost:%s|increment:%s+%s|positions:%d" % (acc_ty, cost_ty, conn_ty, rmx), worst <= limit,
           "worst-case path cost = (%d+1) positions x (%d + %d) = %d, accumulator %s (addition performed in %s) holds at most %d: %s"
           % (rmx, (1 << (cb - 1)) - 1, (1 << (kb - 1)) - 1, worst, acc_ty, add_ty, limit,
              "fits" if worst <= limit else "OVERFLOWS (debug: panic 'attempt to add with overflow'; release: wraps and corrupts the minimum)"),
           fn=cn)


ARITH = {"Add", "Sub", "Mul"}
WIDE_INT = {"usize", "u64", "i64", "u32", "i32", "isize"}


@rule("C03.tainted-arith", "no unchecked +,-,* on a plugin field that is copied from a deserialised integer setting without a range "
                           "check (the overflow check would panic during analysis)")
def tainted_arith(db, ctx):
    # settings structs = ADTs with a derived serde Deserialize impl
    deser = {imp.get("self_adt") for imp in db.impls if imp.get("trait", "").endswith("Deserialize") and imp.get("self_adt")}
    n = 0
    for adt_k, adt in db.adts.items():
        if "::plugin::" not in adt_k or adt_k in deser:
            continue
        for v in adt["variants"]:
            for fl in v["fields"]:
                if fl["ty"] not in WIDE_INT:
                    continue
                tainted = []
                for wf, kind, val, node in field_writes(db, adt_k, fl["name"]):
                    og = origins(db, wf, val, depth=0)
                    direct = [o for o in og if o[0] == "field" and o[1] in deser]
                    has_call = any(o[0] == "call" for o in og)
                    guarded = False
                    for ifn, cond, pol, ek, ps in guarded_exits(wf.hir):
                        if ek == "err" and any(mentions(cond, lambda x, d=d: x.get("k") == "Field" and x.get("name") == d[2]) for d in direct):
                            guarded = True
                    if direct and not has_call and not guarded:
                        tainted.append((wf, render(val)))
                if not tainted:
                    continue
                # uses in arithmetic
                for f in db.fns.values():
                    if f.pkg != "sudachi" or not f.hir:
                        continue
                    for x, ps in walk(f.hir):
                        if x.get("k") in ("Binary", "AssignOp") and x.get("op") in ARITH:
                            for side in (x["l"], x["r"]):
                                s2 = peel_casts(side)
                                if s2.get("k") == "Field" and s2.get("name") == fl["name"] and s2.get("adt") == adt_k:
                                    n += 1
                                    ctx.ob("%s|%s.%s|%s" % (f.short(), short_path(adt_k), fl["name"], x["op"]), False,
                                           "%s: `%s` — unchecked %s on %s.%s (%s), which is copied unvalidated from the setting `%s` in %s; an "
                                           "extreme configured value makes analysis panic with arithmetic overflow (accepted idioms: "
                                           "saturating_*/checked_*/min before the operation, or a range check at load)" % (
                                               f.short(), render(x), x["op"], short_path(adt_k), fl["name"], fl["ty"], tainted[0][1], tainted[0][0].short()),
                                           fn=f, site=x.get("sp"))
                # ... and one call level down: the tainted field handed to a function that does unchecked arithmetic on that parameter
                g = cg.get(db)
                for f in db.fns.values():
                    if f.pkg != "sudachi" or not f.hir:
                        continue
                    for c, ps in walk(f.hir):
                        if not is_call(c):
                            continue
                        args = call_args(c)
                        for ai, a in enumerate(args):
                            a2 = peel_casts(a)
                            if not (a2.get("k") == "Field" and a2.get("name") == fl["name"] and a2.get("adt") == adt_k):
                                continue
                            targets = [c.get("resolved")] if c.get("resolved") in db.fns else []
                            if not targets:
                                targets = [k2 for k2 in g.impls.get(c.get("callee"), [])] or ([c.get("callee")] if c.get("callee") in db.fns else [])
                            for tk in targets:
                                tf = db.fns[tk]
                                plist = tf.info.get("params") or []
                                if ai >= len(plist) or plist[ai].get("k") != "Bind" or not tf.hir:
                                    continue
                                plid = plist[ai]["lid"]
                                for x, _ in walk(tf.hir):
                                    if x.get("k") in ("Binary", "AssignOp") and x.get("op") in ARITH:
                                        if any(peel_casts(sd).get("k") == "Path" and peel_casts(sd).get("lid") == plid for sd in (x["l"], x["r"])):
                                            n += 1
                                            ctx.ob("%s|%s.%s|via %s|%s" % (f.short(), short_path(adt_k), fl["name"], tf.short(), x["op"]), False,
                                                   "%s passes the unvalidated setting %s.%s to %s, which computes `%s` with an unchecked %s on that "
                                                   "parameter: an extreme configured value makes analysis panic with arithmetic overflow" % (
                                                       f.short(), short_path(adt_k), fl["name"], tf.short(), render(x), x["op"]),
                                                   fn=tf, site=x.get("sp"))
                ctx.ob("%s.%s|tainted-field" % (short_path(adt_k), fl["name"]), True,
                       "field %s.%s is an unvalidated copy of a setting (%s); arithmetic uses are listed separately" % (
                           short_path(adt_k), fl["name"], tainted[0][1]), nontrivial=False)


@rule("C03.sentinel-arith", "no +/- on a cumulative cost that may be the i32::MAX sentinel (split units are built with total cost "
                            "i32::MAX) outside an is_connected_to_bos guard")
def sentinel_arith(db, ctx):
    # does any ResultNode get the sentinel?
    sentinel_sites = []
    for f in db.fns.values():
        if f.pkg != "sudachi" or not f.hir:
            continue
        for c, ps in walk(f.hir):
            if is_call(c) and path_ends(callee(c), "ResultNode::new"):
                a = call_args(c)
                if len(a) > 1 and lit_int(a[1]) == 2147483647:
                    sentinel_sites.append(f.short())
    ctx.ob("sentinel-sources", True, "ResultNode::new(_, i32::MAX, ..) sites: %s" % sentinel_sites, nontrivial=False)
    if not sentinel_sites:
        return
    for f in db.fns.values():
        if f.pkg != "sudachi" or not f.hir:
            continue
        for x, ps in walk(f.hir):
            if x.get("k") in ("Binary", "AssignOp") and x.get("op") in ("Add", "Sub"):
                hit = None
                for side in (x["l"], x["r"]):
                    s2 = peel_casts(side)
                    if s2.get("k") == "MethodCall" and s2.get("method") == "total_cost" and "ResultNode" in s2.get("rty", ""):
                        hit = s2
                    if s2.get("k") == "Field" and s2.get("name") == "total_cost" and (s2.get("adt") or "").endswith("ResultNode"):
                        hit = s2
                if hit is None:
                    continue
                pcs = path_conditions(x["id"], f.hir) or []
                guarded = any(isinstance(c, dict) and mentions(c, lambda y: y.get("k") == "MethodCall" and y.get("method") == "is_connected_to_bos") for c, pol in pcs)
                ctx.ob("%s|%s" % (f.short(), x["op"]), guarded,
                       "%s: `%s` does arithmetic on ResultNode cumulative costs, which are i32::MAX for nodes produced by splitting (%s); "
                       "no is_connected_to_bos guard dominates it: with a negative operand this overflows (debug panic)" % (
                           f.short(), render(x), sentinel_sites), fn=f, site=x.get("sp"))


@rule("C03.no-stale-results", "every accessor of every returned morpheme is safe: stale nodes over a new (shorter) input buffer index out of range (re-evaluation of C10.scalars|reset|clears-results)")
def no_stale_results(db, ctx):
    from . import C10
    C10.reset_clears_results(db, ctx)
    ctx.floor(1)


@rule("C03.node-span-units", "nodes handed to the lattice by OOV providers have their ends in code points of the normalised text (a byte offset or "
                             "byte length used as a code-point position puts the node past the lattice and Lattice::insert indexes out of bounds) — "
                             "re-evaluation of C13.units")
def node_span_units(db, ctx):
    from . import C13
    C13.oov_units(db, ctx)


@rule("C03.ids-in-range", "connection ids that reach the lattice from plugin configuration were rejected at load when >= the matrix dimension, so "
                          "ConnectionMatrix::cost (unchecked indexing) stays in bounds (re-evaluation of C20.bounds)")
def ids_in_range(db, ctx):
    from . import C20
    C20.bounds(db, ctx)


@rule("C03.skip-width", "a field skipped under a restricted subset consumes exactly the bytes its parser would: a skipper that misreads the length prefix "
                        "lands inside string data, the following fields are garbage (POS ids, split ids) and the accessors index out of range — "
                        "re-evaluation of C11.skip-width")
def skip_width_reeval(db, ctx):
    from . import C11
    C11.skip_width(db, ctx)


@rule("C03.splitter-preconditions", "sentence splitting never slices an empty remainder: the first character of `text[pos..]` is unwrapped only where "
                                    "`pos < text.len()` holds for the CURRENT value of pos (the test dominates the use — in the same function or at "
                                    "every call of the helper that contains it — and pos is not advanced between the test and the use) — otherwise a "
                                    "terminator followed only by closing brackets / commas up to the end of the input panics")
def splitter_preconditions(db, ctx):
    from ..flow import holds_at
    from ..inline import nf
    from ..db import deref_all, SWAP
    n_sites = [0]

    def check(fv, node, T, P, what, key):
        """is `node` (in view fv) reached only under P < T.len(), with P unchanged since the test?"""
        P = peel_casts(P)
        tlen = nf(T) + ".len()"
        measures = []

        def scenario(at_end):
            def ev(atom):
                cm = cmp_atom(atom)
                if not cm:
                    return None
                for a_, b_, op in ((cm[1], cm[2], cm[0]), (cm[2], cm[1], SWAP[cm[0]])):
                    if nf(a_) == nf(P) and nf(b_) == tlen:
                        measures.append(atom)
                        return holds(op, 1 if at_end else 0, 1)
                return None
            return ev
        pcs = path_conditions(node["id"], fv.hir) or []
        guarded = holds_at(pcs, scenario(True)) is False and holds_at(pcs, scenario(False)) is not False
        stale = []
        order = [x for x, _ in walk(fv.hir)]
        pos = {id(x): i for i, x in enumerate(order)}
        if measures and id(node) in pos:
            m_at = min(pos.get(id(peel(m_)), len(order)) for m_ in measures)
            for x in order[m_at:pos[id(node)]]:
                if x.get("k") in ("Assign", "AssignOp") and peel(x["l"]).get("lid") == P.get("lid"):
                    stale.append(render(x)[:60])
        n_sites[0] += 1
        ctx.ob(key, guarded and not stale, "%s is reached only under %s < %s.len(): %s; position changed between the test and the use: %s" % (
            what, render(P), render(T), guarded, stale), fn=fv, site=node.get("sp"))
        return guarded and not stale

    def first_char_unwraps(g):
        """(unwrap node, text expr, pos expr) for `text[pos..].chars().nth(0)/next().unwrap()`"""
        for u, ps in walk(g.hir):
            if not (u.get("k") == "MethodCall" and u.get("method") in ("unwrap", "expect")):
                continue
            r = peel(deref_all(u["recv"]))
            if not (isinstance(r, dict) and r.get("k") == "MethodCall" and r.get("method") in ("nth", "next")):
                continue
            for x, _ in walk(r):
                if x.get("k") == "Index":
                    rng = [y for y, _ in walk(peel(x.get("i") or {})) if y.get("k") == "Struct" and "RangeFrom" in (y.get("path") or "")]
                    for fld in (rng[0].get("fields") or []) if rng else []:
                        yield u, peel(deref_all(x.get("e") or {})), peel_casts(fld.get("e") or {})
    for g in [x for x in db.fns.values() if x.hir and (x.info.get("span") or "").startswith("sudachi/src/sentence_detector.rs") and "::tests::" not in x.key]:
        params = [p_ for p_ in (g.info.get("params") or []) if isinstance(p_, dict)]
        by_lid = {p_.get("lid"): i for i, p_ in enumerate(params)}
        for u, T, P in first_char_unwraps(g):
            if not (isinstance(T, dict) and isinstance(P, dict)):
                continue
            both_params = T.get("lid") in by_lid and P.get("lid") in by_lid
            own = any(cmp_atom(a) and {nf(cmp_atom(a)[1]), nf(cmp_atom(a)[2])} == {nf(P), nf(T) + ".len()"}
                      for c_, pl in (path_conditions(u["id"], g.hir) or []) if isinstance(c_, dict) for a, _ in atoms(c_, pl))
            if own or not both_params:
                check(db.view(g, depth=0), u, T, P, "the first character of %s[%s..]" % (render(T), render(P)), "%s|first-char|pos<len" % g.short())
                continue
            ti, pi = by_lid[T["lid"]], by_lid[P["lid"]]
            for caller in [x for x in db.fns.values() if x.hir and "::tests::" not in x.key]:
                if not any(is_call(c) and callee(c) == g.key for c, _ in walk(caller.hir)):
                    continue
                v = db.view(caller, keep=(g.key.split("::")[-1],))
                for c, ps in walk(v.hir):
                    if is_call(c) and callee(c) == g.key:
                        args = call_args(c)
                        check(v, c, args[ti], args[pi], "%s(%s, %s)" % (g.short(), render(args[ti]), render(args[pi])), "%s|%s|pos<len" % (caller.short(), g.short()))
    if not n_sites[0]:
        raise AnchorMissing("sentence_detector: unwrap of the first character of text[pos..]")
    ctx.floor(1)


@rule("C03.edits-consumed", "a rejected (too long) analysis leaves no pending edits behind: stale edits applied to the next text index out of its range "
                            "(re-evaluation of C10.edits-consumed)")
def edits_consumed_reeval(db, ctx):
    from . import C10
    C10.edits_consumed(db, ctx)
    ctx.floor(2)


@rule("C03.no-stale-buffers", "no growable buffer of the tokenizer / input buffer / lattice carries data of the previous input into the next analysis: stale "
                              "rows, edits or memo tables are indexed with the new text's positions (re-evaluation of C10.kill-grow)")
def no_stale_buffers(db, ctx):
    from . import C10
    C10.kill_grow(db, ctx)


@rule("C03.every-left-neighbour", "a node is connected to EVERY left neighbour that is reachable from BOS — the only skip is the unreachable neighbour — so a "
                                  "node inserted at a reachable boundary is itself reachable and the fallback OOV keeps BOS and EOS connected (re-evaluation "
                                  "of C02.relax-all)")
def every_left_neighbour(db, ctx):
    from . import C02
    C02.relax_all(db, ctx)
