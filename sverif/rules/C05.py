"""C05 — compile→load round trip preserves every field, deterministically (writer/reader agreement)."""
from ..engine import rule
from ..db import (walk, peel, peel_casts, render, callee, path_ends, short_path, is_call, call_args, lit_int,
                  exit_kind, path_conditions, atoms, AnchorMissing, local_name)
from ..guards import guarded_exits, mentions, is_call_to, cmp_atom
from ..origins import origins, derived_fns
from .. import wimodel, cg
from ..wimodel import READER_PRIM, flag_names
from .C02 import _chain, _loops, poly
from .C11 import _fallback_accessors
from .C06 import build_closure

META = {
    "explanation": (
        "Sibling agreement between the dictionary writer and reader, extracted from both sides on every run (never compared "
        "with frozen text): (field-order) the ordered primitive sequence of write_word_info equals that of "
        "WordInfoParser::parse (STR16, LEN, INT2, STR16, INT4, STR16, ARR32 x4), params are 3 x i16 on both sides with the "
        "6+4 byte offset base, the grammar is u16 count + POS_DEPTH strings + i16,i16; (field-flag) each parser row stores "
        "into the field homonymous with its InfoSubset flag; (len-prefix) writer and reader constants of the 1/2-byte length "
        "prefix satisfy W<=R<=0x80, mask 0x7F/0x80, shift 8, max i16::MAX; (elide) fields the writer elides when equal to "
        "the headword are a subset of the accessors that fall back to the surface; (matrix-index) same linearisation on "
        "both sides; (det) no iteration over a std HashMap/HashSet in the build closure, order-bearing containers are "
        "IndexMap, trie keys are sorted; (align-guard) the zero-copy reinterpretation in CowArray::from_bytes is guarded "
        "by the alignment test, the other branch decodes little-endian copies. NOT decided: value-level round trip "
        "(UTF-16 transcoding, escapes), that the two CowArray branches yield equal contents, byte identity itself."),
    "decided": ["field-order", "field-flag", "len-prefix", "elide", "matrix-index", "det", "align-guard"],
    "not_decided": ["value-level round trip", "byte-identity of two compilations"],
}

FIELD_FLAG = {
    "surface": "SURFACE", "head_word_length": "HEAD_WORD_LENGTH", "pos_id": "POS_ID", "normalized_form": "NORMALIZED_FORM",
    "dictionary_form_word_id": "DIC_FORM_WORD_ID", "reading_form": "READING_FORM", "a_unit_split": "SPLIT_A",
    "b_unit_split": "SPLIT_B", "word_structure": "WORD_STRUCTURE", "synonym_group_ids": "SYNONYM_GROUP_ID",
}
# writer source expression -> reader field, by meaning (public names on both sides)
SOURCE_FIELD = ["headword", "surface", "pos", "norm_form", "dic_form", "reading", "splits_a", "splits_b", "word_structure", "synonym_groups"]
READER_FIELD = ["surface", "head_word_length", "pos_id", "normalized_form", "dictionary_form_word_id", "reading_form", "a_unit_split",
                "b_unit_split", "word_structure", "synonym_group_ids"]


@rule("C05.field-order", "write_word_info and WordInfoParser::parse agree on the ordered primitive sequence and on which source feeds "
                         "which field; params (3 x i16, offset base) and grammar (count + strings + i16,i16) agree as well")
def field_order(db, ctx):
    pf, rows = wimodel.parser_table(db)
    wf, seq = wimodel.writer_sequence(db)
    rprims = []
    for r in rows:
        p = READER_PRIM.get(r["parse"])
        rprims.append(p)
        if r["skip"]:
            ps_ = READER_PRIM.get(r["skip"])
            ctx.ob("row|%s|parse-skip-same-primitive" % r["field"], p is not None and ps_ is not None and p[0] == ps_[0],
                   "field %s: parse=%s (%s) skip=%s (%s)" % (r["field"], r["parse"], p, r["skip"], ps_), fn=pf)
    wprims = [(s[0], s[1]) for s in seq]
    n = max(len(rprims), len(wprims))
    ctx.ob("length", len(rprims) == len(wprims), "writer emits %d primitives, reader consumes %d" % (len(wprims), len(rprims)), fn=wf)
    for i in range(min(len(rprims), len(wprims))):
        r, w = rprims[i], wprims[i]
        ok = r is not None and r[0] == w[0] and (r[1] is None or w[1] is None or r[1] == w[1])
        src = seq[i][2]
        src_ok = SOURCE_FIELD[i] in src if i < len(SOURCE_FIELD) else True
        fld_ok = rows[i]["field"] == READER_FIELD[i] if i < len(READER_FIELD) else True
        ctx.ob("position|%d" % i, ok and src_ok and fld_ok,
               "position %d: writer %s%s from `%s`; reader %s%s into .%s — primitive match=%s, source is %s=%s, field is %s=%s" % (
                   i, w[0], w[1] or "", src, r[0] if r else None, (r[1] if r else "") or "", rows[i]["field"], ok,
                   SOURCE_FIELD[i] if i < len(SOURCE_FIELD) else "-", src_ok, READER_FIELD[i] if i < len(READER_FIELD) else "-", fld_ok),
               fn=wf)
    # params
    wp = db.one("write_params", "RawLexiconEntry")
    order = []
    for c, _ in walk(wp.hir):
        if c.get("k") == "MethodCall" and c.get("method") == "to_le_bytes":
            order.append((peel(c["recv"]).get("name"), (c["recv"].get("ty") or "").lstrip("&")))
    ctx.ob("write_params|order", order == [("left_id", "i16"), ("right_id", "i16"), ("cost", "i16")],
           "write_params writes %s (must be left_id,right_id,cost as i16)" % order, fn=wp)
    ps_ = db.const("WordParams::PARAM_SIZE") if _has_const(db, "WordParams::PARAM_SIZE") else _assoc_const(db, "PARAM_SIZE")
    es = _assoc_const(db, "ELEMENT_SIZE")
    ctx.ob("WordParams|sizes", ps_ == 3 and es == 6, "reader: PARAM_SIZE=%s (3 params), ELEMENT_SIZE=%s (6 bytes)" % (ps_, es))
    gp = db.one("get_params", "WordParams")
    ret = peel(gp.hir.get("expr") or {})
    idxs = [lit_int(peel(e)["i"]) for e in ret.get("elems", []) if peel(e).get("k") == "Index"]
    ctx.ob("get_params|tuple-order", idxs == [0, 1, 2], "get_params returns slice[%s] (must be 0,1,2 = left,right,cost)" % idxs, fn=gp)
    lw = db.view(db.one("write", "LexiconWriter"))
    # the value written for each word in the word-info pass: offset base + running size of the infos written so far
    from ..loops import iterations
    base = None
    want = {("field:offset",): 1, ("?self.entries.len()",): 10, (): 4}
    for itn in iterations(lw.hir):
        if not mentions(itn["body"], is_call_to("write_word_info")):
            continue
        for c, _ in walk(itn["body"]):
            if c.get("k") == "MethodCall" and c.get("method") == "to_le_bytes":
                p_ = poly(db, lw, c["recv"])
                extra = {t_: c_ for t_, c_ in p_.items() if t_ not in want}
                # exactly one further term: the running offset (a local accumulator) with coefficient 1
                if len(extra) == 1 and list(extra.values()) == [1] and len(list(extra)[0]) == 1:
                    base = {t_: c_ for t_, c_ in p_.items() if t_ in want}
                else:
                    base = p_
    ctx.ob("LexiconWriter::write|offset-base", base == want, "word-info offset base = %s (must be offset + (6+4)*n + 4)" % base, fn=lw)
    # grammar
    wpt = db.one("write_pos_table", "LexiconReader")
    cnt_ty = None
    for c, _ in walk(wpt.hir):
        if is_call(c) and (callee(c) or "").endswith("to_le_bytes"):
            cnt_ty = (callee(c) or "").split("::")[-2] if "::" in (callee(c) or "") else None
            cnt_ty = "u16" if "u16" in (callee(c) or "") else cnt_ty
            break
    fields_loop = any(mentions(n2, is_call_to("StrPosEntry::fields")) for n2, _ in walk(wpt.hir))
    plp = db.one("pos_list_parser", None)
    rd_cnt = "le_u16" in render(plp.hir)
    depth_ok = mentions(plp.hir, lambda x: x.get("k") == "Path" and path_ends(x.get("path"), "POS_DEPTH")) and mentions(plp.hir, lambda x: x.get("k") == "Path" and path_ends(x.get("path"), "utf16_string_parser"))
    ctx.ob("pos-table", cnt_ty == "u16" and fields_loop and rd_cnt and depth_ok,
           "write_pos_table: %s count + u16w.write per StrPosEntry::fields() (%s); pos_list_parser: le_u16 (%s) + count(utf16_string_parser, POS_DEPTH) (%s)"
           % (cnt_ty, fields_loop, rd_cnt, depth_ok), fn=wpt)
    wt = db.one("write_to", "ConnBuffer")
    worder = []
    for c, _ in walk(wt.hir):
        if c.get("k") == "MethodCall" and c.get("method") == "write_all":
            a = peel(c["args"][0])
            worder.append(render(a, x=True))
    gpars = db.one("grammar_parser", None)
    gorder = [x["path"].split("::")[-1] for x, _ in walk(gpars.hir) if x.get("k") == "Path" and (x.get("path") or "").split("::")[-1] in ("pos_list_parser", "le_i16", "le_u16", "le_i32")]
    ok = len(worder) == 3 and "num_left" in worder[0] and "num_right" in worder[1] and "matrix" in worder[2] and gorder == ["pos_list_parser", "le_i16", "le_i16"]
    ctx.ob("conn-header", ok, "ConnBuffer::write_to writes %s; grammar_parser reads %s" % (worder, gorder), fn=wt)
    g = db.one("parse", "Grammar")
    ok = False
    for c, _ in walk(g.hir):
        if is_call(c) and path_ends(callee(c), "ConnectionMatrix::from_offset_size"):
            a = [render(x) for x in call_args(c)]
            ok = "left" in a[2] and "right" in a[3]
    ctx.ob("Grammar::parse|left-then-right", ok, "Grammar::parse passes (left_id_size, right_id_size) in that order: %s" % ok, fn=g)
    ctx.floor(16)


def _has_const(db, suffix):
    return any(k.endswith(suffix) for k in db.consts)


def _assoc_const(db, name):
    for k, v in db.consts.items():
        if k.endswith("WordParams::" + name) or k.endswith("WordParams<'a>::" + name) or (k.split("::")[-1] == name and "word_params" in k):
            return v.get("val")
    return None


@rule("C05.field-flag", "each parser row stores into the field that is homonymous with its InfoSubset flag (frozen 10-row table of public names)")
def field_flag(db, ctx):
    pf, rows = wimodel.parser_table(db)
    for r in rows:
        want = FIELD_FLAG.get(r["field"])
        ctx.ob("row|%s" % r["field"], r["flag"] == {want}, "parser stores .%s under flag %s (table: %s)" % (r["field"], sorted(r["flag"]), want), fn=pf)
    ctx.floor(10)


@rule("C05.len-prefix", "string length prefix: writer constants (one byte iff len<W, 0x80 marker, shift 8, reject >i16::MAX) and reader "
                        "constants (two bytes iff first>=R, mask 0x7F, shift 8) are mutually consistent")
def len_prefix(db, ctx):
    from ..flow import var_evaluator, holds_at
    from ..db import path_conditions, deref_all, peel_casts
    w = db.one("write_len", "Utf16Writer")
    # W by value points: the smallest length for which the one-byte write is no longer reachable and the two-byte write is —
    # whichever way the decision is written (`<`, `>=` with swapped branches, a named constant, a named boolean)
    len_lids = {p_.get("lid") for p_ in (w.info.get("params") or []) if isinstance(p_, dict) and p_.get("name") != "self" and "usize" in (p_.get("ty") or "")}

    def is_len(e):
        d = deref_all(e)
        d = peel_casts(d) if isinstance(d, dict) else d
        return isinstance(d, dict) and d.get("k") == "Path" and d.get("res") == "local" and d.get("lid") in len_lids
    sites = {1: [], 2: []}
    for c, _ in walk(w.hir):
        if c.get("k") == "MethodCall" and c.get("method") == "write_all" and c.get("args"):
            a_ = peel(deref_all(c["args"][0]))
            if isinstance(a_, dict) and a_.get("k") == "Array" and len(a_["elems"]) in sites:
                sites[len(a_["elems"])].append(c)

    def reach(arity, v):
        rs = [holds_at(path_conditions(c["id"], w.hir), var_evaluator(is_len, v)) for c in sites[arity]]
        return any(r is not False for r in rs)        # a guard that does not mention the length (the i16::MAX rejection) stays open
    W = None
    pts = list(range(0, 300)) + [32767, 32768]
    prof = [(v, reach(1, v), reach(2, v)) for v in pts] if sites[1] and sites[2] else []
    if prof and not any(o and t for _, o, t in prof):          # never both; neither = the length is rejected
        flips = [v for (v, o, _), (_, o0, _) in zip(prof[1:], prof[:-1]) if o != o0]
        if len(flips) == 1 and prof[0][1] is True and dict((v, t) for v, _, t in prof)[flips[0]] is True:
            W = flips[0]
    marker = wshift = None
    for n, _ in walk(w.hir):
        if n.get("k") == "Binary" and n.get("op") == "BitOr":
            for side in ("l", "r"):
                if lit_int(n[side]) is not None:
                    marker = lit_int(n[side])
        if n.get("k") == "Binary" and n.get("op") == "Shr" and lit_int(n["r"]) is not None:
            wshift = lit_int(n["r"])
    r = db.one("string_length_parser", None)
    R = mask = rshift = None
    for n, _ in walk(r.hir):
        c = cmp_atom(n) if n.get("k") == "Binary" else None
        if c:
            op, l_, r_ = c
            lk, rk = lit_int(l_), lit_int(r_)
            # two bytes iff first >= R, in any of its spellings
            thr = {("Ge", 1): rk, ("Gt", 1): None if rk is None else rk + 1, ("Le", 0): lk, ("Lt", 0): None if lk is None else lk + 1}.get((op, 1 if rk is not None else 0))
            if thr is not None:
                R = thr
        if n.get("k") == "Binary" and n.get("op") == "BitAnd":
            for side in ("l", "r"):
                if lit_int(n[side]) is not None:
                    mask = lit_int(n[side])
        if n.get("k") == "Binary" and n.get("op") == "Shl" and lit_int(n["r"]) is not None:
            rshift = lit_int(n["r"])
    ok = None not in (W, R, marker, wshift, mask, rshift) and W <= R <= 128 and marker == 0x80 and mask == 0x7F and wshift == 8 and rshift == 8
    ctx.ob("constants", ok, "writer: one byte iff len<%s, marker %s, shift %s; reader: two bytes iff first>=%s, mask %s, shift %s "
                            "(need W<=R<=128, 0x80/0x7F, 8/8)" % (W, hex(marker) if marker is not None else None, wshift, R, hex(mask) if mask is not None else None, rshift), fn=w)
    # two-byte byte order: writer writes [b1(high|0x80), b0(low)]; reader: first byte is the high part
    arr = None
    for c, _ in walk(w.hir):
        if c.get("k") == "MethodCall" and c.get("method") == "write_all":
            a = peel(c["args"][0])
            if a.get("k") == "Array" and len(a["elems"]) == 2:
                arr = [local_name(x) for x in a["elems"]]
    hi_first = False
    for n, _ in walk(w.hir):
        if n.get("k") == "Let" and arr and n["pat"].get("name") == arr[0]:
            hi_first = "0x80" in render(n["init"]) or "128" in render(n["init"])
    ctx.ob("byte-order", bool(arr) and hi_first, "writer emits [%s] with the marker byte first: %s" % (arr, hi_first), fn=w)


@rule("C05.elide", "every field the writer elides when equal to the headword is read back through an accessor that falls back to the surface")
def elide(db, ctx):
    pf, rows = wimodel.parser_table(db)
    wf, seq = wimodel.writer_sequence(db)
    acc = _fallback_accessors(db)
    fb_fields = {v[0] for v in acc.values()}
    n = 0
    for i, s in enumerate(seq):
        if len(s) > 3 and s[3] == "write_empty_if_equal":
            n += 1
            fld = rows[i]["field"] if i < len(rows) else None
            ok = fld in fb_fields and "headword" in s[4]
            ctx.ob("elided|%s" % fld, ok, "writer elides `%s` when equal to `%s`; reader field .%s falls back to surface(): %s" % (s[2], s[4], fld, fld in fb_fields), fn=wf)
    # and the surface field itself is the headword
    ctx.ob("surface-is-headword", "headword" in seq[0][2], "the WordInfo surface is written from `%s`" % seq[0][2], fn=wf)
    ctx.floor(3)


HASH_TYPES = ("std::collections::HashMap", "std::collections::HashSet", "std::collections::hash::map::HashMap", "std::collections::hash::set::HashSet",
              "hashbrown::HashMap", "hashbrown::HashSet")
ITER_METHODS = {"iter", "iter_mut", "into_iter", "keys", "values", "values_mut", "drain", "into_keys", "into_values", "retain"}


@rule("C05.det", "no iteration over a std HashMap/HashSet in the dictionary-build closure; the containers whose order reaches the output "
                 "are IndexMap; build_trie sorts its keys")
def det(db, ctx):
    g, entries, clo = build_closure(db)
    n = 0
    for k in sorted(clo):
        f = db.fns[k]
        if f.pkg != "sudachi" or "::dic::build::" not in k or not f.hir:
            continue
        ctx.touch(f)
        for c, ps in walk(f.hir):
            hit = None
            if c.get("k") == "MethodCall" and c.get("method") in ITER_METHODS and any(h in (c.get("rty") or "") for h in HASH_TYPES):
                hit = "%s on %s" % (c["method"], c.get("rty"))
            if c.get("k") == "Match" and c.get("src") == "ForLoopDesugar":
                it = c["scrut"]["args"][0] if c["scrut"].get("args") else None
                if it is not None and any(h in (it.get("ty") or "") for h in HASH_TYPES):
                    hit = "for-loop over %s" % it.get("ty")
            if hit:
                n += 1
                ctx.ob("%s|hash-iteration" % f.short(), False, "%s iterates a hash container (%s): iteration order is randomised per process, so the "
                                                               "output bytes would differ between two compilations" % (f.short(), hit[:120]), fn=f, site=c.get("sp"))
    ctx.ob("hash-iterations-in-build", n == 0, "%d iterations over std hash containers in dic::build (must be 0)" % n)
    ib = db.adt_fields("build::index::IndexBuilder")
    lr = db.adt_fields("build::lexicon::LexiconReader")
    ctx.ob("IndexBuilder.data|IndexMap", "indexmap::IndexMap" in ib["data"]["ty"], "IndexBuilder.data: %s" % ib["data"]["ty"][:80])
    ctx.ob("LexiconReader.pos|IndexMap", "indexmap::IndexMap" in lr["pos"]["ty"], "LexiconReader.pos: %s" % lr["pos"]["ty"][:80])
    bt = db.one("build_trie", "IndexBuilder")
    srt = [c for c, _ in walk(bt.hir) if c.get("k") == "MethodCall" and c.get("method") in ("sort", "sort_by", "sort_unstable", "sort_by_key", "sort_unstable_by")]
    bld = [c for c, _ in walk(bt.hir) if is_call(c) and path_ends(callee(c), "DoubleArrayBuilder::build")]
    ok = bool(srt) and bool(bld)
    ctx.ob("build_trie|sorted-keys", ok, "build_trie sorts the key vector (%s) before handing it to the trie builder" % [c["method"] for c in srt], fn=bt)
    # header timestamp: the only clock read is Header::new / set_time
    clocks = []
    for k in sorted(clo):
        f = db.fns[k]
        if f.pkg == "sudachi" and f.hir:
            for c, _ in walk(f.hir):
                if is_call(c) and path_ends(callee(c), ("SystemTime::now", "Instant::now")):
                    clocks.append(f.short())
    allowed = [c for c in clocks if c.endswith("Header::new") or "report" in c or "Report" in c]
    ctx.ob("clock-reads", set(clocks) == set(allowed), "clock reads in the build closure: %s (only Header::new — overridable by set_compile_time — and "
                                                       "the timing report may read the clock)" % sorted(set(clocks)))


@rule("C05.align-guard", "CowArray::from_bytes reinterprets the bytes in place only under the alignment test; the other branch decodes a "
                         "little-endian copy")
def align_guard(db, ctx):
    f = db.one("from_bytes", "CowArray")
    frp = [(c, ps) for c, ps in walk(f.hir) if is_call(c) and path_ends(callee(c), "slice::from_raw_parts")]
    if not frp:
        raise AnchorMissing("CowArray::from_bytes: from_raw_parts")
    c, ps = frp[0]
    pcs = path_conditions(c["id"], f.hir) or []
    from ..guards import eval3

    def _unaligned(atom):
        a = peel(atom)
        if is_call(a) and path_ends(callee(a), "is_aligned"):
            return False
        return None
    # the branch must be unreachable when the pointer is NOT aligned: the guard evaluates to false whatever the other atoms are
    ok = any(isinstance(cn, dict) and pol is True and mentions(cn, is_call_to("is_aligned")) and eval3(cn, _unaligned) is False for cn, pol in pcs)
    ctx.ob("from_bytes|raw-under-is_aligned", ok, "slice::from_raw_parts is control-dependent on is_aligned(ptr, align_of::<T>()): %s" % ok, fn=f, site=c.get("sp"))
    cp = [(c2, p2) for c2, p2 in walk(f.hir) if is_call(c2) and path_ends(callee(c2), "copy_of_bytes")]
    ok2 = False
    for c2, p2 in cp:
        pcs2 = path_conditions(c2["id"], f.hir) or []
        ok2 = any(isinstance(cn, dict) and pol is False and mentions(cn, is_call_to("is_aligned")) for cn, pol in pcs2)
    ctx.ob("from_bytes|copy-when-unaligned", ok2, "copy_of_bytes is used in the unaligned branch: %s" % ok2, fn=f)
    ia = db.one("is_aligned", None)
    # by value: constant folding of the predicate at probe points (offset, alignment) — any spelling of `offset % alignment == 0`
    # (`&(alignment-1)`, swapped operands, named temporaries) gives the same table
    from ..flow import pure_eval
    probes = [(0, 8), (8, 8), (4, 8), (12, 4), (13, 4), (7, 1), (2, 2), (3, 2), (1 << 20, 4), ((1 << 20) + 2, 4), (6, 4), (16, 8), (20, 8)]
    got = [pure_eval(db, ia, list(pr)) for pr in probes]
    want = [o % a_ == 0 for o, a_ in probes]
    ctx.ob("is_aligned|modulo", got == want, "is_aligned(offset, alignment) at %d probe points: %s (must be offset %% alignment == 0)" % (
        len(probes), "as required" if got == want else [(pr, g) for pr, g, w in zip(probes, got, want) if g != w][:4]), fn=ia)
    cb = db.one("copy_of_bytes", None)
    ctx.ob("copy_of_bytes|from_le_bytes", mentions(cb.hir, is_call_to("from_le_bytes")), "copy_of_bytes decodes with ReadLE::from_le_bytes", fn=cb)
    al = any(is_call(c3) and path_ends(callee(c3), "mem::align_of") for c3, _ in walk(f.hir))
    ctx.ob("from_bytes|align_of-T", al, "alignment comes from mem::align_of::<T>(): %s" % al, fn=f)


@rule("C05.matrix-index", "the connection matrix is linearised identically by the dictionary builder and the reader (re-evaluation of C02.matrix-index)")
def matrix_index(db, ctx):
    from . import C02
    C02.matrix_index(db, ctx)
    ctx.floor(4)


@rule("C05.elide-symmetry", "an optional CSV field that the parser stores as None when it equals base B (none_if_equal(&B, field)) is read back by "
                            "an accessor that falls back to exactly B, and the writer elides it against the base the loader substitutes")
def elide_symmetry(db, ctx):
    pr = db.one("parse_record", "LexiconReader")
    bases = {}
    for n, _ in walk(pr.hir):
        if n.get("k") == "Struct" and (n.get("path") or "").endswith("RawLexiconEntry"):
            for fl in n["fields"]:
                e = peel(fl["e"])
                if is_call(e) and path_ends(callee(e), "none_if_equal"):
                    a = call_args(e)
                    bases[fl["name"]] = local_name(a[0])
    if len(bases) < 3:
        raise AnchorMissing("parse_record: none_if_equal(..) initialisers", "(%d)" % len(bases))
    # local name of the base -> entry accessor name (surface/headword are homonymous; `normalized` is norm_form, `reading` is reading)
    for fld, base in sorted(bases.items()):
        acc = [f for f in db.fns.values() if f.self_adt and f.self_adt.endswith("lexicon::RawLexiconEntry") and f.name == fld and f.hir]
        if len(acc) != 1:
            ctx.ob("accessor|%s" % fld, False, "no unique accessor RawLexiconEntry::%s()" % fld)
            continue
        f = acc[0]
        fb = None
        for c, _ in walk(f.hir):
            if c.get("k") == "MethodCall" and c.get("method") in ("unwrap_or_else", "unwrap_or", "map_or_else", "map_or"):
                for x, _ in walk(c["args"][0] if c["args"] else {}):
                    if x.get("k") == "MethodCall" and (callee(x) or "").endswith("RawLexiconEntry::" + x["method"]):
                        fb = x["method"]
        ctx.ob("accessor|%s" % fld, fb == base, "RawLexiconEntry.%s is stored as None when equal to `%s`; %s() falls back to %s() — %s" % (
            fld, base, fld, fb, "symmetric" if fb == base else "ASYMMETRIC: an elided value is materialised as a different string"), fn=f)
    wf, seq = wimodel.writer_sequence(db)
    for s in seq:
        if len(s) > 3 and s[3] == "write_empty_if_equal":
            ctx.ob("writer-elides-against-headword|%s" % s[2], "headword()" in s[4], "writer elides `%s` when equal to `%s` (the loader substitutes the stored surface = headword)" % (s[2], s[4]), fn=wf)
    ctx.floor(5)


@rule("C05.split-key", "inline split references are resolved by (surface, POS, reading-or-None) with the reading elided exactly when it equals the "
                       "SURFACE (parse_split: none_if_equal(surface, reading)); every resolver index must build its key the same way from the entry's "
                       "full surface and full reading — a key elided by any other rule resolves a reference to a different entry, or not at all")
def split_key(db, ctx):
    from ..db import deref_all
    from ..guards import eval3, cmp_atom
    ps = db.one("parse_split", "LexiconReader")
    ref_ok = any(is_call(c) and path_ends(callee(c) or "", "none_if_equal") and local_name(call_args(c)[0]) == "surface" for c, _ in walk(ps.hir))
    ctx.ob("parse_split|reference-key", ref_ok, "parse_split elides the reference's reading with none_if_equal(surface, reading): %s" % ref_ok, fn=ps)
    for owner in ("RawDictResolver", "BinDictResolver"):
        f = db.one("new", owner)
        K = None
        for c, _ in walk(f.hir):
            if c.get("k") == "MethodCall" and c.get("method") == "push" and c["args"] and peel(c["args"][0]).get("k") == "Tup" and len(peel(c["args"][0])["elems"]) == 3:
                K = peel(c["args"][0])["elems"][1]
        if K is None:
            raise AnchorMissing("%s::new: index entry (pos, reading key, word id)" % owner)
        d = deref_all(K)

        def role(e):
            """'surface' / 'reading' for an expression that is the entry's full surface / full reading"""
            for o in origins(db, f, e, depth=0):
                if o[0] == "call" and path_ends(o[1] or "", ("RawLexiconEntry::surface",)):
                    return "surface"
                if o[0] == "call" and path_ends(o[1] or "", ("RawLexiconEntry::reading",)):
                    return "reading"
                if o[0] == "field" and o[1].endswith("WordInfoData") and o[2] == "surface":
                    return "surface"
                if o[0] == "field" and o[1].endswith("WordInfoData") and o[2] == "reading_form":
                    return "reading"
            return None

        def kind(b):
            b = peel(b)
            while isinstance(b, dict) and b.get("k") == "Block" and not b.get("stmts") and "expr" in b:
                b = peel(b["expr"])
            if b.get("k") == "Path" and path_ends(b.get("path"), ("Option::None", "None")):
                return "none"
            if b.get("k") == "Call" and path_ends(b.get("callee"), ("Option::Some", "Some")) and role(b["args"][0]) == "reading":
                return "some(reading)"
            return "other"
        res = {}
        if isinstance(d, dict) and d.get("k") == "If" and "else" in d:
            for eq in (True, False):
                def ev(atom, eq=eq):
                    c = cmp_atom(atom)
                    if c and c[0] in ("Eq", "Ne") and {role(c[1]), role(c[2])} == {"surface", "reading"}:
                        return eq if c[0] == "Eq" else (not eq)
                    a = peel(atom)
                    if a.get("k") == "MethodCall" and a.get("method") == "is_empty" and role(a["recv"]) == "reading":
                        return False
                    return None
                v = eval3(d["cond"], ev)
                res[eq] = None if v is None else kind(d["then"] if v else d["else"])
        elif isinstance(d, dict) and is_call(d) and path_ends(callee(d) or "", "none_if_equal") and [role(a) for a in call_args(d)] == ["surface", "reading"]:
            res = {True: "none", False: "some(reading)"}
        ok = res == {True: "none", False: "some(reading)"}
        ctx.ob("%s::new|index-key" % owner, ok,
               "%s::new keys its index with `%s`: value when reading == surface / != surface = %s (must be None / Some(reading), both taken from the "
               "entry's full surface and full reading)" % (owner, render(d)[:90], res or "not a surface/reading comparison"), fn=f)
    ctx.floor(3)


@rule("C05.skip-width", "what the loader skips for a field it was not asked for is exactly what the compiler wrote for it: same count prefix, same item "
                        "width, byte count computed wide enough (re-evaluation of C11.skip-width — loading with a field subset is part of the round trip)")
def skip_width(db, ctx):
    from . import C11
    C11.skip_width(db, ctx)
    ctx.floor(4)


@rule("C05.field-source", "each stored word-info field is written from the entry attribute the reader's field stands for: surface <- headword(), "
                          "head_word_length <- byte length of the INDEX KEY (self.surface.len()), pos, normalized / reading forms elided against "
                          "headword(), dictionary-form id, then splits A, B, word structure, synonym groups")
def field_source(db, ctx):
    from ..inline import nf
    f = db.view(db.one("write_word_info", "RawLexiconEntry"))
    got = []
    for n, ps in walk(f.hir):
        if n.get("k") == "MethodCall":
            m = n["method"]
            c = callee(n) or ""
            if m in ("write", "write_len") and "Utf16Writer" in c and len(n["args"]) > 1:
                got.append((m, nf(n["args"][1])))
            elif m == "write_empty_if_equal" and "Utf16Writer" in c and len(n["args"]) > 2:
                got.append((m, nf(n["args"][1]), nf(n["args"][2])))
            elif m == "write_all" and n["args"]:
                from ..db import deref_all
                a = deref_all(n["args"][0])
                if a.get("k") == "MethodCall" and a.get("method") == "to_le_bytes":
                    got.append(("int", nf(a["recv"])))
        elif n.get("k") == "Call" and path_ends(n.get("callee"), "write_u32_array") and len(n["args"]) > 1:
            got.append(("array", nf(n["args"][1])))
    want = [("write", "self.headword()"), ("write_len", "self.surface.len()"), ("int", "self.pos"),
            ("write_empty_if_equal", "self.norm_form()", "self.headword()"), ("int", "self.dic_form.as_raw()"),
            ("write_empty_if_equal", "self.reading()", "self.headword()"),
            ("array", "self.splits_a"), ("array", "self.splits_b"), ("array", "self.word_structure"), ("array", "self.synonym_groups")]
    for i, w in enumerate(want):
        g = got[i] if i < len(got) else None
        ctx.ob("write_word_info|#%d:%s" % (i, w[1]), g == w,
               "stored field #%d is written by %s (must be %s)%s" % (i, g, w, "" if g == w else
                                                                    " — the reader interprets this slot as the other attribute: e.g. a head-word length taken from the "
                                                                    "headword instead of the index key misplaces every A/B split boundary when the two differ in byte length"), fn=f)
    ctx.ob("write_word_info|count", len(got) == len(want), "write_word_info writes %d fields (reader has %d)" % (len(got), len(want)), fn=f)
    ctx.floor(10)


@rule("C05.header-block", "Header::write_to emits exactly STORAGE_SIZE bytes: version (8) and time (8) through to_le_bytes, then the description's BYTES "
                          "followed by DESCRIPTION_SIZE - description.len() zero bytes (a width-based text formatter pads by characters, not bytes, and "
                          "shifts every later block for a non-ASCII description)")
def header_block(db, ctx):
    from ..inline import nf, range_bounds
    from ..loops import iterations
    from ..db import deref_all
    f = db.view(db.one("write_to", "Header"))
    wr = [c for c, _ in walk(f.hir) if c.get("k") == "MethodCall" and c.get("method") == "write_all" and c["args"]]
    desc_bytes = any(nf(deref_all(c["args"][0])) == "self.description.as_bytes()" for c in wr)
    fmt = [c for c, _ in walk(f.hir) if is_call(c) and (path_ends(callee(c) or "", ("Write::write_fmt", "write_fmt")) or c.get("method") == "write_fmt")]
    pad_ok = False
    for itn in iterations(f.hir):
        rb = range_bounds(itn["it"])
        one_zero = any(c.get("k") == "MethodCall" and c.get("method") == "write_all" and render(c["args"][0], x=True).replace(" ", "") in ("&[0]", "[0]") for c, _ in walk(itn["body"]))
        if rb and rb[0] == "0" and rb[1] == "(Header::DESCRIPTION_SIZE - self.description.len())" and one_zero:
            pad_ok = True
    # a single write of a zero buffer of that length is the same padding
    for c in wr:
        a = deref_all(c["args"][0])
        if isinstance(a, dict) and "(Header::DESCRIPTION_SIZE - self.description.len())" in nf(a) and ("[0" in render(a, x=True) or "vec" in render(a, x=True).lower() or "repeat" in render(a, x=True)):
            pad_ok = True
    ctx.ob("Header::write_to|description-block", desc_bytes and pad_ok and not fmt,
           "description written as bytes: %s; padded with DESCRIPTION_SIZE - description.len() zero bytes: %s; text-formatter writes (write!): %d" % (desc_bytes, pad_ok, len(fmt)), fn=f)
    ints = [nf(deref_all(c["args"][0])) for c in wr]
    ctx.ob("Header::write_to|ints", any("self.version.to_u64().to_le_bytes()" == x for x in ints) and any("self.create_time.to_le_bytes()" == x for x in ints),
           "version and create_time are written with to_le_bytes: %s" % [x for x in ints if "to_le_bytes" in x], fn=f)


@rule("C05.dic-form-marker", "the stored dictionary-form reference is resolved for EVERY word id (0 included): only the marker -1 means 'no dictionary form'. "
                             "WordInfos::get_word_info reaches the look-up of the referenced entry when the id is 0 or positive and never when it is -1")
def dic_form_marker(db, ctx):
    from ..flow import var_evaluator, holds_at
    from ..db import deref_all
    f = db.view(db.one("get_word_info", "WordInfos"))

    def is_ref(e):
        d = deref_all(e)
        d = peel_casts(d) if isinstance(d, dict) else d
        return isinstance(d, dict) and d.get("k") == "Field" and d.get("name") == "dictionary_form_word_id"
    # the site is the store into WordInfo.dictionary_form (wherever the referenced entry is parsed: inline or in a helper)
    sites = [n for n, _ in walk(f.hir) if n.get("k") == "Assign" and peel(n["l"]).get("k") == "Field" and peel(n["l"]).get("name") == "dictionary_form"]
    if not sites:
        raise AnchorMissing("get_word_info: look-up of the dictionary-form entry")
    for c in sites:
        pcs = path_conditions(c["id"], f.hir) or []
        from ..flow import with_selected_patterns
        prof = {v: holds_at(pcs, with_selected_patterns(db, f, var_evaluator(is_ref, v))) for v in (-1, 0, 1, 2147483647)}
        ok = prof[-1] is False and all(prof[v] is not False for v in (0, 1, 2147483647))
        ctx.ob("get_word_info|resolved-iff-not-marker", ok,
               "look-up of the dictionary-form entry is reachable at id = -1 / 0 / 1 / i32::MAX: %s (must be no / yes / yes / yes)" % (
                   [("no" if prof[v] is False else "yes") for v in (-1, 0, 1, 2147483647)]), fn=f, site=c.get("sp"))
    ctx.floor(1)


# csv::ReaderBuilder setters: the argument (rendered, refs dropped) with which the setter leaves every data row untouched and
# positioned; None = the setter is not acceptable with any argument the checker can decide
_CSV_NEUTRAL = {
    "has_headers": ("false",),            # REQUIRED: the default (true) swallows the first entry and shifts every word id
    "flexible": ("true",),                # REQUIRED: rows have 18 or 19 columns
    "trim": ("Trim::None", "csv::Trim::None"),
    "comment": ("None", "v1::None", "Option::None"),
    "delimiter": ("b','", "44"),
    "quote": ("b'\\\"'", "b'\"'", "34"),
    "double_quote": ("true",),
    "quoting": ("true",),
    "escape": ("None", "v1::None", "Option::None"),
    "buffer_capacity": None,
}
_CSV_REQUIRED = ("has_headers", "flexible")


@rule("C05.csv-rows", "every row of the lexicon CSV becomes an entry, in order: the csv reader of LexiconReader is configured so that no row is swallowed "
                      "or altered (no header row, no comment character, no trimming, standard delimiter / quoting, flexible column count) — word ids are "
                      "row positions, so one dropped row shifts every later split / dictionary-form reference")
def csv_rows(db, ctx):
    from ..loops import chain
    n = 0
    for f in db.fns.values():
        if not f.hir or "::tests::" in f.key or not f.key.startswith("sudachi::dic::build"):
            continue
        for c, _ in walk(f.hir):
            if not (is_call(c) and "ReaderBuilder::from_" in (callee(c) or "")):
                continue
            n += 1
            names, base = chain(db, f, c)
            seen = {}
            bad = []
            for m, cc in names:
                if m.startswith("from_") or m == "new":
                    continue
                arg = render(peel(cc["args"][0])) if cc.get("args") else ""
                seen[m] = arg
                ok_args = _CSV_NEUTRAL.get(m, ())
                if m == "buffer_capacity":
                    continue
                if not ok_args or arg not in ok_args:
                    bad.append("%s(%s)" % (m, arg))
            missing = [m for m in _CSV_REQUIRED if m not in seen]
            ctx.ob("%s|csv-config" % f.short(), not bad and not missing,
                   "csv reader settings that drop / alter rows: %s; required settings missing: %s (seen: %s)" % (bad, missing, seen), fn=f, site=c.get("sp"))
    if not n:
        raise AnchorMissing("dic::build: csv::ReaderBuilder::from_reader")
    ctx.floor(1)
