"""C20 — out-of-range plugin parameters are rejected when the dictionary is loaded."""
import re

from ..engine import rule
from ..db import (walk, peel, peel_casts, render, callee, path_ends, short_path, is_call, call_args, lit_int,
                  diverges, exit_kind, path_conditions, atoms)
from ..guards import guarded_exits, eval3, bound_cmp_evaluator, mentions, is_call_to, cmp_atom, holds
from ..origins import origins, field_writes, unwrap_try, derived_fns, with_let_inits, owners
from .. import cg

META = {
    "explanation": (
        "Static taint + interval rules over the type-checked program. Decided on every path/call site at once: "
        "(sanitized) every connection id / cost that reaches an OOV node constructor in a plugin or "
        "Grammar::set_connect_cost is traced back (through fields, let/for bindings and call arguments) to the "
        "field that carries it, and every writer of that field must pass the value through a range check of the "
        "matching axis; (bounds) every rejecting comparison against the matrix dimensions must reject exactly "
        "{x >= n} (evaluated at n-1, n, n+1) with no narrowing cast before the comparison, and check_cost must "
        "reject exactly the values outside i16; (pos) handle_user_pos returns an existing id, registers only under "
        "Allow, errs otherwise; (no-panic-load) no explicit panic / error-discarding unwrap in plugin set-up code; "
        "(unchecked-consumer) every constructor call of a lattice node takes its ids from a sanitized plugin field, "
        "from dictionary word parameters, or from the constant 0; (axis) the dimension an id is validated against is the one that bounds it where the "
        "matrix is indexed — layout derived from ConnectionMatrix::index, roles from the lattice's lookup sites (finding F15: OOV plugin ids are "
        "validated against the homonymous, i.e. the other, dimension; harmless for square matrices). NOT decided: behaviour of DSO plugins; that "
        "serde rejects malformed JSON; that the matrix is non-empty."),
    "decided": ["sanitized", "bounds", "pos", "no-panic-load", "unchecked-consumer", "pair-axis", "axis"],
    "not_decided": ["third-party (DSO) plugins", "serde / regex crate behaviour"],
    "trusted": ["str::parse::<i16> rejects out-of-range text", "serde_json rejects values outside the declared integer type"],
    "assumptions": ["square matrices are NOT assumed (C20.axis reports where the repository's validators rely on it)"],
}

NUM = {"left": "ConnectionMatrix::num_left", "right": "ConnectionMatrix::num_right"}
CHECK = {"left": "check_left_id", "right": "check_right_id", "cost": "check_cost"}

_BITS = {"u8": 8, "i8": 8, "u16": 16, "i16": 16, "u32": 32, "i32": 32, "u64": 64, "i64": 64,
         "usize": 64, "isize": 64, "u128": 128, "i128": 128}


def narrowing_casts(e, db=None, f=None):
    out = []
    nodes_ = with_let_inits(db, f, e) if db is not None else (n for n, _ in walk(e))
    for n in nodes_:
        if n.get("k") == "Cast":
            a, b = _BITS.get(n["e"].get("ty")), _BITS.get(n.get("ty"))
            if a and b and b < a:
                out.append("%s as %s" % (n["e"].get("ty"), n.get("ty")))
    return out


def lib_fns(db):
    d = derived_fns(db)
    for f in db.fns.values():
        if f.pkg == "sudachi" and f.hir and f.key not in d:
            yield f


def var_side(cond, is_bound):
    from ..db import walk_x, deref_let
    for n, _ in walk_x(cond):
        c = cmp_atom(n)
        if c:
            op, l, r = c
            if is_bound(peel_casts(r)) or is_bound(peel_casts(deref_let(peel_casts(r)))):
                return l
            if is_bound(peel_casts(l)) or is_bound(peel_casts(deref_let(peel_casts(l)))):
                return r
    return None


def _bound_views(db, f, cond):
    """(attributed fn, axis, is_bound predicate) for every way `cond` compares with a matrix dimension: directly (num_left()/num_right()
    in the condition) or through a parameter of a helper whose call sites pass the dimension — then the instance is attributed to each such caller"""
    from ..origins import index as oindex
    for axis, suffix in NUM.items():
        isb = is_call_to(suffix)
        if mentions(cond, isb):
            yield f, axis, isb


@rule("C20.bounds", "every rejecting comparison against num_left()/num_right() rejects exactly x>=n (evaluated at "
                    "n-1,n,n+1; no narrowing cast on the compared value; negative values rejected); check_cost "
                    "rejects exactly values outside [i16::MIN, i16::MAX]")
def bounds(db, ctx):
    n_inst = 0
    for f in lib_fns(db):
        # inlined view: a comparison moved into a private helper (bound passed as an argument) is seen in its caller, under the
        # caller's name — the same instance key as when it is written inline
        f = db.view(f)
        from ..guards import err_exits
        from ..flow import holds_at
        for enode, pcs in err_exits(f.hir):
            conds = [c_ for c_, _ in pcs if isinstance(c_, dict)]
            for axis, suffix in NUM.items():
                isb = is_call_to(suffix)
                # the exit's own guard is the innermost condition on the way to it (earlier ones are other checks that were passed)
                cond = conds[-1] if conds and mentions(conds[-1], isb) else None
                if cond is None:
                    continue
                af = f
                x = var_side(cond, isb)
                # rejected at x = n-1, n, n+1 <=> this error exit is reachable there
                vals = [holds_at(pcs, bound_cmp_evaluator(isb, p)) is not False for p in (-1, 0, 1)]
                ek = "err"
                pol = True
                ifn = enode
                from ..inline import nf as _nf
                xs = _nf(x) if x else "?"     # canonical, let-expanded: the key must not depend on a local's name
                if len(xs) > 60 and x is not None:
                    # a field of a struct built in place: name it by type and field instead of spelling out the whole literal
                    px = peel_casts(x)
                    xs = ("%s.%s" % (short_path(px.get("adt") or "?"), px.get("name"))) if px.get("k") == "Field" else render(x)
                from ..inline import pcanon
                xs = pcanon(f, xs, "#0", "#1", "#2", "#3", "#4", "#5")      # ... nor on a parameter's name: parameters by position
                narrow = narrowing_casts(x, db, f) if x else []
                signed_ok = True
                xty = (x or {}).get("ty", "")
                if xty.startswith("i"):
                    # a signed compared value needs its own `< 0` rejection in the same function
                    signed_ok = any(_rejects_negative(c2, pol2) for _, c2, pol2, ek2, _ in guarded_exits(f.hir)) or \
                        any(holds_at(pcs2, _const_cmp_evaluator(-1)) is True and holds_at(pcs2, _const_cmp_evaluator(0)) is not True for _, pcs2 in err_exits(f.hir))
                ok = vals == [False, True, True] and not narrow and signed_ok
                n_inst += 1
                ctx.ob("%s|%s|%s" % (af.short(), "num_" + axis, xs), ok,
                       "%s: guard `%s`%s (%s-exit when %s) must reject x=n and x=n+1 and accept x=n-1 against %s(); "
                       "evaluated rejects(n-1,n,n+1)=%s%s%s" % (
                           af.short(), render(cond), "" if af is f else " in helper %s" % f.short(), ek, "true" if pol else "false", suffix.split("::")[-1], vals,
                           ("; narrowing casts before the comparison: %s" % narrow) if narrow else "",
                           "" if signed_ok else "; signed value without a `< 0` rejection"),
                       fn=f, site=ifn.get("sp"),
                       detail={"cond": render(cond), "rejects_at_n_minus1_n_n_plus1": vals, "exit": ek},
                       sig="rejects=%s;narrow=%s;signed_ok=%s;exit=%s" % (vals, narrow, signed_ok, ek))
    ctx.floor(4)
    # check_cost: reject exactly outside i16
    for f in db.impls_of("CheckParams::check_cost"):
        pts = [-32769, -32768, 32767, 32768]
        res = []
        for p in pts:
            rej = False
            for ifn, cond, pol, ek, ps in guarded_exits(f.hir):
                if ek != "err":
                    continue
                v = eval3(cond, _const_cmp_evaluator(p))
                if v is not None and v == pol:
                    rej = True
            res.append(rej)
        ok = res == [True, False, False, True] and f.info.get("output", "").startswith("std::result::Result<i16")
        ctx.ob("%s|i16-range" % f.short(), ok,
               "%s must reject exactly x<i16::MIN and x>i16::MAX: rejects(-32769,-32768,32767,32768)=%s, returns %s"
               % (f.short(), res, f.info.get("output")), fn=f, detail={"rejects": res})


def _rejects_negative(cond, pol):
    v_neg = eval3(cond, _const_cmp_evaluator(-1))
    v_zero = eval3(cond, _const_cmp_evaluator(0))
    return v_neg is not None and v_neg == pol and v_zero is not None and v_zero != pol


def _const_cmp_evaluator(x):
    def ev(atom):
        c = cmp_atom(atom)
        if not c:
            return None
        op, l, r = c
        lv, rv = lit_int(l), lit_int(r)
        if rv is not None and lv is None:
            return holds(op, x, rv)
        if lv is not None and rv is None:
            return holds(op, lv, x)
        return None
    return ev


# --------------------------------------------------------------------------------------
def _sink_calls(db):
    """(fn, call node, [(role, arg expr)]) for plugin-side sinks"""
    for f in lib_fns(db):
        for n, ps in walk(f.hir):
            if not is_call(n):
                continue
            c = callee(n)
            if path_ends(c, "inner::Node::new"):
                a = call_args(n)
                if len(a) >= 5:
                    yield f, n, "Node::new", [("left", a[2]), ("right", a[3]), ("cost", a[4])]
            elif path_ends(c, "Grammar::set_connect_cost"):
                a = call_args(n)
                if len(a) >= 4:
                    yield f, n, "set_connect_cost", [("left", a[1]), ("right", a[2]), ("cost", a[3])]


def _classify(db, f, expr):
    """origin classes of a sink argument"""
    og = origins(db, f, expr, depth=3)
    fields = {(o[1], o[2], o[3]) for o in og if o[0] == "field"}
    consts = {o[1] for o in og if o[0] == "const"}
    calls = {o[1] for o in og if o[0] == "call"}
    return og, fields, consts, calls


def _is_plugin_adt(adt):
    return "::plugin::" in adt


@rule("C20.sanitized", "each connection id/cost reaching Node::new in plugin code or Grammar::set_connect_cost is traced "
                       "to its carrier field; every writer of the carrier passes the value through check_<axis>_id / "
                       "check_cost or a rejecting comparison with the matching matrix dimension")
def sanitized(db, ctx):
    carriers = {}
    for f, n, sink, roles in _sink_calls(db):
        if "::plugin::" not in f.key:
            continue
        for role, e in roles:
            og, fields, consts, calls = _classify(db, f, e)
            fl = {x for x in fields if _is_plugin_adt(x[0])}
            if fl:
                for (adt, name, elem) in fl:
                    carriers.setdefault((adt, name, elem), set()).add((role, sink, f.key))
            elif consts and not fields and not calls:
                ctx.ob("%s|%s|%s|const" % (f.short(), sink, role), True,
                       "%s: %s argument of %s is the constant %s" % (f.short(), role, sink, sorted(map(str, consts))),
                       fn=f, site=n.get("sp"), nontrivial=False)
            elif any(path_ends(c, ("INHIBITED_CONNECTION",)) for c in [o[1] for o in og if o[0] == "def"]) and role == "cost":
                ctx.ob("%s|%s|%s|const" % (f.short(), sink, role), True,
                       "%s: cost argument of %s is the constant Grammar::INHIBITED_CONNECTION" % (f.short(), sink),
                       fn=f, site=n.get("sp"), nontrivial=False)
            else:
                ctx.ob("%s|%s|%s|untraceable" % (f.short(), sink, role), False,
                       "%s: %s argument `%s` of %s could not be traced to a configuration carrier field or a constant "
                       "(origins: %s)" % (f.short(), role, render(e), sink, sorted(str(o[:3]) for o in og)),
                       fn=f, site=n.get("sp"))
    ctx.floor(7)
    for (adt, name, elem), uses in sorted(carriers.items()):
        roles = sorted({u[0] for u in uses})
        writers = list(field_writes(db, adt, name))
        if not writers:
            ctx.ob("%s.%s|no-writer" % (short_path(adt), name), False,
                   "carrier field %s.%s feeds %s but has no writer the rule can see" % (short_path(adt), name, roles))
            continue
        for wf, kind, val, node in writers:
            v = unwrap_try(val)
            for role in roles:
                ok, how = _sanitized_write(db, db.view(wf), v, val, adt, name, role, elem)
                ctx.ob("%s.%s|%s|writer=%s" % (short_path(adt), name, role, wf.short()), ok,
                       "field %s.%s (used as %s by %s) is written in %s from `%s`: %s" % (
                           short_path(adt), name, role, sorted({short_path(u[2]) + "→" + u[1] for u in uses}),
                           wf.short(), render(val), how),
                       fn=wf, site=node.get("sp"))


def _sanitized_write(db, wf, v, raw, adt, name, role, elem):
    fty = None
    try:
        fty = db.adts[adt]
        fty = {f["name"]: f["ty"] for var in fty["variants"] for f in var["fields"]}.get(name)
    except Exception:
        pass
    # (1) direct result of the matching checker
    if isinstance(v, dict) and v.get("k") in ("Call", "MethodCall") and path_ends(callee(v) or "", CHECK[role]) or \
            (isinstance(v, dict) and v.get("k") == "MethodCall" and v.get("method") == CHECK[role]):
        return True, "result of %s" % CHECK[role]
    if isinstance(v, dict) and v.get("k") == "MethodCall" and v.get("method") in CHECK.values():
        return False, "passed through %s but the field is used as %s (axis mismatch)" % (v["method"], role)
    # (2) cost: bounded by the field's own type when parsed into it without a cast
    if role == "cost" and fty == "i16" and not narrowing_casts(raw) and not elem:
        return True, "type-bounded: the field is i16 and the value is produced at that type (no narrowing cast)"
    # (3) a rejecting guard in the writer compares this field / these elements with the matching dimension
    isb = is_call_to(NUM.get(role, "\0"))
    vo = {o for o in origins(db, wf, raw, depth=0) if o[0] in ("field", "param", "call")}
    from ..guards import err_exits
    from ..db import deref_all
    cands = []
    for enode, pcs_ in err_exits(wf.hir):
        cs_ = [c_ for c_, _ in pcs_ if isinstance(c_, dict)]
        if cs_ and role in NUM and mentions(cs_[-1], isb):
            cands.append(cs_[-1])
    for cond in cands:
        x = var_side(cond, isb)
        if x is None:
            continue
        px = deref_all(x)       # through a helper's parameter (inlined view) or a hoisted let
        if px.get("k") == "Field" and px.get("name") == name and px.get("adt") == adt:
            return True, "rejecting comparison of .%s with %s() in the writer (polarity decided by C20.bounds)" % (name, NUM[role].split("::")[-1])
        xo = {o for o in origins(db, wf, x, depth=0) if o[0] in ("field", "param", "call")}
        if vo and xo and (vo & xo or {o[:3] for o in vo} & {o[:3] for o in xo}):
            return True, "rejecting comparison of the same source `%s` with %s() in the writer" % (render(x), NUM[role].split("::")[-1])
    # (4) collection carrier: a checker call on elements of the same source
    for n, _ in walk(wf.hir):
        if n.get("k") == "MethodCall" and n.get("method") == CHECK.get(role) and n["args"]:
            xo = {o[:3] for o in origins(db, wf, n["args"][0], depth=0) if o[0] in ("field", "param", "call")}
            if {o[:3] for o in vo} & xo:
                return True, "%s applied to the same source in the writer" % CHECK[role]
    return False, "no %s / no rejecting comparison with the %s dimension on this value in the writer" % (CHECK[role], role)


def matrix_layout(db):
    """{argument position (receiver = 0): dimension field that bounds it} derived from ConnectionMatrix::index, whose result is
    `P_b * self.<stride> + P_a`: P_a ranges over the stride dimension, P_b over the other one"""
    from ..db import deref_all
    from ..origins import index as oindex
    f = db.one("index", "ConnectionMatrix")
    bd = oindex(db).bindings(f)

    def param_pos(e):
        e = deref_all(e)
        if isinstance(e, dict) and e.get("k") == "Path" and e.get("res") == "local":
            b = bd.get(e["lid"])
            if b and b[0] == "param":
                return b[1]
        return None
    for n, _ in walk(f.hir):
        if n.get("k") == "Binary" and n.get("op") == "Add":
            for mul, add in ((n["l"], n["r"]), (n["r"], n["l"])):
                m = deref_all(mul)
                if isinstance(m, dict) and m.get("k") == "Binary" and m.get("op") == "Mul":
                    for fld, other in ((m["l"], m["r"]), (m["r"], m["l"])):
                        fl = deref_all(fld)
                        if isinstance(fl, dict) and fl.get("k") == "Field" and fl.get("name") in ("num_left", "num_right"):
                            pa, pb = param_pos(add), param_pos(other)
                            if pa is not None and pb is not None:
                                stride = fl["name"]
                                return {pa: stride, pb: "num_right" if stride == "num_left" else "num_left"}, f
    raise AnchorMissing("ConnectionMatrix::index: `b * stride + a` layout")


def node_id_axes(db):
    """{'left' | 'right' (which id of a lattice node): set of dimensions that bound it at the matrix lookups of the lattice}"""
    from .C02 import _matrix_calls
    layout, _ = matrix_layout(db)
    out = {}
    sites = []
    for g, n in _matrix_calls(db):
        if g.pkg != "sudachi":
            continue
        a = call_args(n)
        if len(a) < 3:
            continue
        for pos in (1, 2):
            acc = {short_path(o[1]).split("::")[-1] for o in origins(db, g, a[pos], depth=0) if o[0] == "call"} & {"left_id", "right_id"}
            if len(acc) == 1 and pos in layout:
                out.setdefault(acc.pop()[:-3], set()).add(layout[pos])
                sites.append((g, n))
    return out, sites


@rule("C20.axis", "a connection id is validated against the matrix dimension that bounds it where it is USED: ConnectionMatrix::index(left, "
                  "right) = right*num_left + left bounds its first argument by num_left and its second by num_right; the lattice looks up "
                  "cost(left node's RIGHT id, right node's LEFT id), so a node's left id must be < num_right and its right id < num_left; "
                  "Grammar::set_connect_cost(left, right) takes matrix coordinates directly")
def axis(db, ctx):
    layout, ixf = matrix_layout(db)
    ctx.ob("ConnectionMatrix::index|layout", layout == {1: "num_left", 2: "num_right"},
           "ConnectionMatrix::index bounds argument 1 by %s and argument 2 by %s" % (layout.get(1), layout.get(2)), fn=ixf, nontrivial=False)
    nax, sites = node_id_axes(db)
    ctx.ob("lattice|node-id-axes", nax == {"left": {"num_right"}, "right": {"num_left"}},
           "at the lattice's matrix lookups a node's left id is bounded by %s and its right id by %s (%d lookup sites)" % (
               sorted(nax.get("left", [])), sorted(nax.get("right", [])), len(sites)), nontrivial=False)
    need = {("Node::new", "left"): nax.get("left", set()), ("Node::new", "right"): nax.get("right", set()),
            ("set_connect_cost", "left"): {layout.get(1)}, ("set_connect_cost", "right"): {layout.get(2)}}
    seen = set()
    for f, n, sink, roles in _sink_calls(db):
        if "::plugin::" not in f.key:
            continue
        for role, e in roles:
            if role not in NUM:
                continue
            og, fields, consts, calls = _classify(db, f, e)
            for (adt, name, elem) in sorted(x for x in fields if _is_plugin_adt(x[0])):
                key = (adt, name, role, sink)
                if key in seen:
                    continue
                seen.add(key)
                validated = NUM[role].split("::")[-1]          # what C20.sanitized requires for this role: check_<role>_id / num_<role>
                required = need.get((sink, role), set())
                ok = required == {validated}
                ctx.ob("%s.%s|%s|%s" % (short_path(adt), name, role, sink), ok,
                       "%s.%s is used as the %s id of %s, which is bounded by %s where the matrix is indexed; it is validated against %s()%s" % (
                           short_path(adt), name, role, sink, sorted(required), validated,
                           "" if ok else " — the OTHER axis: with a non-square matrix an id in [%s, %s) passes the check and indexes outside the matrix"
                           % tuple(sorted(required | {validated}))), fn=f, site=n.get("sp"),
                       sig="required=%s;validated=%s" % (sorted(required), validated))
    ctx.floor(6)


def tuple_pos(db, f, expr, depth=2):
    """position of a value inside the tuple it was destructured from (for / let / match patterns, `.0` / `.1`), through parameters"""
    from ..origins import index as oindex, pat_bindings
    e = peel_casts(expr)
    if not isinstance(e, dict):
        return None
    if e.get("k") == "Field" and e.get("name", "").isdigit() and not e.get("adt"):
        return int(e["name"])
    if e.get("k") == "Path" and e.get("res") == "local":
        ix = oindex(db)
        bd = ix.bindings(f).get(e["lid"])
        if not bd:
            return None
        if bd[0] in ("for", "let", "arm", "closure-param"):
            pat = bd[2] if bd[0] != "closure-param" else (bd[2].get("params") or [None] * 9)[bd[1]]
            while isinstance(pat, dict) and pat.get("k") in ("Ref", "Box"):
                pat = pat["pat"]
            if isinstance(pat, dict) and pat.get("k") == "Tuple":
                for i, sub in enumerate(pat["pats"]):
                    if e["lid"] in [l for l, _ in pat_bindings(sub)]:
                        return i
            if bd[0] == "let" and bd[1] is not None and isinstance(pat, dict) and pat.get("k") == "Bind":
                return tuple_pos(db, f, bd[1], depth)
            return None
        if bd[0] == "param" and depth > 0:
            got = set()
            for cf, cn in ix.callsites.get(f.key, []):
                args = call_args(cn)
                if bd[1] < len(args):
                    got.add(tuple_pos(db, cf, args[bd[1]], depth - 1))
            got.discard(None)
            return got.pop() if len(got) == 1 else None
    return None


@rule("C20.pair-axis", "for id PAIRS (inhibited connections) the member used as the left coordinate is the one validated by check_left_id and the "
                       "member used as the right coordinate the one validated by check_right_id")
def pair_axis(db, ctx):
    n = 0
    for f, node, sink, roles in _sink_calls(db):
        if sink != "set_connect_cost":
            continue
        pos = {role: tuple_pos(db, f, e) for role, e in roles[:2]}
        if None in pos.values():
            continue
        # carrier field and its writers
        carriers = set()
        for role, e in roles[:2]:
            for o in origins(db, f, e, depth=3):
                if o[0] == "field" and _is_plugin_adt(o[1]):
                    carriers.add((o[1], o[2]))
        for adt, name in sorted(carriers):
            for wf, kind, val, wn in field_writes(db, adt, name):
                checks = {}
                for c, _ in walk(wf.hir):
                    if c.get("k") == "MethodCall" and c.get("method") in ("check_left_id", "check_right_id") and c["args"]:
                        p = tuple_pos(db, wf, c["args"][0])
                        if p is not None:
                            checks.setdefault(c["method"], set()).add(p)
                if not checks:
                    continue
                n += 1
                ok = checks.get("check_left_id") == {pos["left"]} and checks.get("check_right_id") == {pos["right"]}
                ctx.ob("%s.%s|%s" % (short_path(adt), name, wf.short()), ok,
                       "%s uses pair member #%d as the left and #%d as the right coordinate of set_connect_cost; %s validates member(s) %s with check_left_id and "
                       "%s with check_right_id%s" % (f.short(), pos["left"], pos["right"], wf.short(), sorted(checks.get("check_left_id", [])),
                                                      sorted(checks.get("check_right_id", [])), "" if ok else " — AXIS MISMATCH: with a non-square matrix an "
                                                      "out-of-range id passes and a valid one is rejected"), fn=wf)
    ctx.floor(1)


@rule("C20.unchecked-consumer", "every lattice-node constructor call takes its connection ids from a sanitized plugin "
                                "field, from dictionary word parameters, from another node, or from the constant 0")
def consumer(db, ctx):
    for f, n, sink, roles in _sink_calls(db):
        if sink != "Node::new" or "::plugin::" in f.key:
            continue
        for role, e in roles[:2]:
            og, fields, consts, calls = _classify(db, f, e)
            cls = None
            if any(path_ends(c, ("get_word_param", "WordParams::get_params", "Lexicon::get_word_param", "LexiconSet::get_word_param")) for c in calls):
                cls = "dictionary word parameters (validated when the dictionary is compiled: C06.validate)"
            elif any(path_ends(c, ("LatticeNode::left_id", "RightId::right_id", "Node::left_id", "Node::right_id")) for c in calls):
                cls = "copied from an existing node"
            elif consts and consts <= {0} and not fields and not calls:
                cls = "constant 0 (BOS/EOS)"
            elif consts and consts <= {65535} and not fields and not calls and not any(
                    k.endswith("Lattice::insert") for k in cg.get(db).closure([f.key])):
                cls = "u16::MAX sentinel of a result-side node (Lattice::insert is unreachable from this function, " \
                      "so the node never reaches ConnectionMatrix::cost)"
            elif fields and all(fa.endswith("inner::Node") or fa.endswith("lattice::VNode") for fa, _, _ in fields):
                cls = "copied from an existing node"
            elif all(o[0] == "param" for o in og) and og:
                cls = "constructor parameter forwarded (callers classified separately)"
            ctx.ob("%s|Node::new|%s" % (f.short(), role), cls is not None,
                   "%s: %s argument `%s` of Node::new: %s" % (f.short(), role, render(e), cls or
                                                              "unclassified source %s" % sorted(str(o[:3]) for o in og)),
                   fn=f, site=n.get("sp"))
    ctx.floor(2)


@rule("C20.pos", "handle_user_pos returns the existing id first, registers only under UserPosMode::Allow and returns Err "
                 "under Forbid; path-rewrite plugins turn a missing POS into Err")
def pos(db, ctx):
    fs = db.impls_of("UserPosSupport::handle_user_pos")
    ctx.floor(1)
    from ..flow import outcomes
    from ..inline import nf
    for f in fs:
        f = db.view(f)

        def classify(e):
            if e.get("k") == "Call" and path_ends(e.get("callee") or "", ("Result::Ok", "Ok")):
                return "ok(existing id)"
            if is_call(e) and path_ends(callee(e) or "", "register_pos"):
                return "register_pos"
            if e.get("k") == "Call" and path_ends(e.get("callee") or "", ("Result::Err", "Err")):
                return "err"
            return "other:" + render(e)[:40]
        table = {}
        for exists in (True, False):
            for mode in ("Allow", "Forbid"):
                def ev(atom, exists=exists, mode=mode):
                    def pat_kind(p):
                        return ((p or {}).get("path") or ((p or {}).get("e") or {}).get("path") or "").split("::")[-1]
                    if isinstance(atom, tuple):
                        _, scrut, pat = atom
                        pk = pat_kind(pat)
                        if mentions(scrut, is_call_to("get_part_of_speech_id")):
                            return exists if pk == "Some" else (not exists) if pk == "None" else None
                        if "UserPosMode" in (peel(scrut).get("ty") or "") and pk in ("Allow", "Forbid"):
                            return pk == mode
                        return None
                    a = peel(atom)
                    if a.get("k") == "LetExpr" and mentions(a["init"], is_call_to("get_part_of_speech_id")):
                        pk = pat_kind(a.get("pat"))
                        return exists if pk == "Some" else (not exists) if pk == "None" else None
                    if a.get("k") == "MethodCall" and a.get("method") in ("is_some", "is_none") and mentions(a["recv"], is_call_to("get_part_of_speech_id")):
                        return exists if a["method"] == "is_some" else (not exists)
                    c = cmp_atom(a)
                    if c and c[0] in ("Eq", "Ne"):
                        for x, y in ((c[1], c[2]), (c[2], c[1])):
                            px = peel(x)
                            if px.get("k") == "Path" and "UserPosMode::" in (px.get("path") or "") and "UserPosMode" in (peel(y).get("ty") or ""):
                                eq = px["path"].split("::")[-1] == mode
                                return eq if c[0] == "Eq" else (not eq)
                    if a.get("k") == "Call" and path_ends(a.get("callee") or "", ("PartialEq::eq", "eq")) and len(a.get("args", [])) == 2:
                        return None
                    return None
                table[(exists, mode)] = sorted(outcomes(f.hir, ev, classify) - {"try"})
        want = {(True, "Allow"): ["ok(existing id)"], (True, "Forbid"): ["ok(existing id)"], (False, "Allow"): ["register_pos"], (False, "Forbid"): ["err"]}
        ctx.ob("%s|shape" % f.short(), table == want,
               "%s: result by (POS already present, mode) = %s (must be: present -> its id; absent+Allow -> register_pos; absent+Forbid -> Err)" % (
                   f.short(), {"%s/%s" % k_: v for k_, v in table.items()}), fn=f)
    # a configuration that says nothing about user POS must get the forbidding mode: `userPOS` is `#[serde(default)]` in every plugin
    dfl = [f for f in db.impls_of("Default::default") if "UserPosMode" in f.key]
    if len(dfl) != 1:
        raise AnchorMissing("<UserPosMode as Default>::default", "(%d found)" % len(dfl))
    vals = {(x.get("path") or "").split("::")[-1] for x, _ in walk(dfl[0].hir) if x.get("k") in ("Path", "Struct", "Call") and "UserPosMode::" in (x.get("path") or x.get("callee") or "")}
    vals |= {(x.get("callee") or "").split("::")[-1] for x, _ in walk(dfl[0].hir) if x.get("k") == "Call" and "UserPosMode::" in (x.get("callee") or "")}
    vals.discard("")
    ctx.ob("UserPosMode|default=Forbid", vals == {"Forbid"}, "UserPosMode::default() is %s (must be Forbid: user-defined POS only when explicitly allowed)" % sorted(vals), fn=dfl[0])
    # the lookup itself must reject a POS of the wrong arity: zip/all over a shorter or longer list would match by prefix
    gp = db.one("get_part_of_speech_id", "Grammar")
    from ..db import walk_x
    arity = False
    for n, _ in walk_x(gp.hir):
        c = cmp_atom(n) if n.get("k") == "Binary" else None
        if c and c[0] in ("Ne", "Eq") and any(x.get("k") == "Path" and path_ends(x.get("path"), "POS_DEPTH") or lit_int(x) == 6 for x in (peel_casts(c[1]), peel_casts(c[2]))) \
                and ".len()" in render(n):
            arity = True
    ctx.ob("get_part_of_speech_id|arity", arity,
           "Grammar::get_part_of_speech_id compares the number of components with POS_DEPTH before matching: %s (without it a 5- or 7-component POS "
           "resolves to an existing id by prefix instead of being rejected)" % arity, fn=gp)
    # path rewrite plugins: a POS lookup that returns None must become Err in set_up
    for f in db.impls_of("PathRewritePlugin::set_up"):
        if not mentions(f.hir, is_call_to("get_part_of_speech_id")):
            continue
        ok = False
        for n, ps in walk(f.hir):
            if is_call(n) and path_ends(callee(n), "get_part_of_speech_id"):
                # accepted idioms: `.ok_or(..)?`, `.ok_or_else(..)?`, match None => Err
                for p in reversed(ps):
                    if p.get("k") == "MethodCall" and p.get("method") in ("ok_or", "ok_or_else"):
                        ok = True
                    if p.get("k") == "Match" and p.get("src") == "Normal":
                        for a in p["arms"]:
                            if (a["pat"].get("path") or (a["pat"].get("e") or {}).get("path") or "").endswith("None") and exit_kind(a["body"]) in ("err",) or \
                                    ((a["pat"].get("path") or (a["pat"].get("e") or {}).get("path") or "").endswith("None") and
                                     peel(a["body"]).get("k") == "Call" and path_ends(peel(a["body"]).get("callee"), ("Err", "Result::Err"))):
                                ok = True
        ctx.ob("%s|missing-pos-is-error" % f.short(), ok,
               "%s: the Option returned by get_part_of_speech_id is converted to Err when None (ok_or / match None=>Err): %s"
               % (f.short(), ok), fn=f)


LOAD_ENTRIES = ("JapaneseDictionary::from_cfg_storage_with_embedded_chardef", "JapaneseDictionary::from_cfg_storage",
                "JapaneseDictionary::from_cfg")

# allow-table for explicit panics / error-discarding unwraps in the load closure:
# (function short-path suffix, callee-or-macro) -> reason
LOAD_ALLOW = {
    ("current_exe_dir::{closure#0}", "panic"): "environment failure (current_exe unavailable), not configuration data",
    ("current_exe_dir::{closure#1}", "panic"): "environment failure (exe has no parent dir), not configuration data",
    ("current_exe_dir::{closure#3}", "panic"): "environment failure (non-UTF-8 install path), not configuration data",
    ("CharacterCategory::compile", "panic"): "binary_search of a range start in the boundary list built from those same "
                                             "range starts (collect_boundaries) cannot miss",
    ("Lexicon::set_dic_id", "assert"): "id < MAX_DICTIONARIES is established by LexiconSet::append's is_full() rejection "
                                       "(C12.capacity) before it calls set_dic_id",
    ("IgnoreYomiganaPlugin::append_range", "Result::expect"): "fmt::Write into a String cannot fail",
    ("IgnoreYomiganaPlugin::any_of_pattern", "Result::expect"): "fmt::Write into a String cannot fail",
    ("ProlongedSoundMarkPlugin::prolongs_as_regex", "Result::expect"): "fmt::Write into a String cannot fail",
    ("cow_array::copy_of_bytes", "assert_eq"): "length is a multiple of size_of::<T>() by construction of every caller "
                                               "(size computed as count*size_of::<T>())",
    ("cow_array::copy_of_bytes", "Result::unwrap"): "from_le_bytes on a slice of exactly size_of::<T>() bytes",
}

# the user-dictionary cost estimation tokenises text at load time; everything below it is the
# analysis closure, which C03 rules
LOAD_STOP = ("Lexicon::update_cost",)


@rule("C20.no-panic-load", "no explicit panic macro and no unwrap/expect of a Result in plugin set-up / load code "
                           "(the closure of JapaneseDictionary::from_cfg*, cut at the analysis entry), outside a frozen "
                           "allow-table with one reason per entry")
def no_panic_load(db, ctx):
    g = cg.get(db)
    entries = [f.key for f in db.fns.values() if f.pkg == "sudachi" and any(f.key.endswith(e) for e in LOAD_ENTRIES)]
    if not entries:
        from ..db import AnchorMissing
        raise AnchorMissing("JapaneseDictionary::from_cfg*")
    stop = [k for k in db.fns if any(k.endswith(s) for s in LOAD_STOP)]
    clo = g.closure(entries, stop=stop)
    n = 0
    d = derived_fns(db)
    for k in sorted(clo):
        f = db.fns[k]
        if f.pkg != "sudachi":
            continue
        if "_serde" in k or k in d:   # serde-derived code: the deserialiser's own error handling
            continue
        n += 1
        ctx.touch(f)
        for s in cg.panic_sites(f):
            if cg.is_debug_only(s):
                continue
            mac = cg.macro_of(s)
            if s["kind"] == "unwrap":
                if not s["callee"].startswith("Result"):
                    continue  # Option unwraps are value invariants, not error discarding
                what = s["callee"]
            else:
                if mac is None:
                    continue  # implicit (slice index etc.) — handled by the tainted-index rules
                what = mac
            allowed = None
            own = f
            for (fn_suffix, w), reason in LOAD_ALLOW.items():
                for o in owners(db, f):
                    if o.short().endswith(fn_suffix) and w == what and allowed is None:
                        allowed, own = reason, o
            ctx.ob("%s|%s" % (own.short(), what), allowed is not None,
                   "%s: %s at %s reachable from dictionary loading via %s%s" % (
                       f.short(), what, s["sp"], " → ".join(g.path(entries, k, stop) or []),
                       (" — allowed: " + allowed) if allowed else " — not in the allow-table"),
                   fn=f, site=s["sp"])
    ctx.ob("closure-size", n >= 60, "load closure has %d sudachi functions (floor 60)" % n, nontrivial=False)


_UNCHECKED_MATRIX = ("Grammar::connect_cost", "ConnectionMatrix::cost", "ConnectionMatrix::update", "Grammar::set_connect_cost", "ConnectionMatrix::index",
                     "inhibit_connection")


@rule("C20.validate-before-use", "while a plugin is being set up, configured connection ids reach the connection matrix (whose accessors do not check "
                                 "their arguments) only AFTER they were validated: in every plugin `set_up`, a call that indexes the matrix comes after the "
                                 "check_left_id / check_right_id calls of that function, or takes ids that are themselves results of those checks — "
                                 "otherwise an out-of-range id panics (debug) or reads an aliased cell (release) instead of being rejected")
def validate_before_use(db, ctx):
    n = 0
    for f0 in db.fns.values():
        if not (f0.hir and f0.name == "set_up" and "::plugin::" in f0.key and "::tests::" not in f0.key and f0.pkg == "sudachi"):
            continue
        f = db.view(f0)
        n += 1
        order = [x for x, _ in walk(f.hir)]
        pos = {id(x): i for i, x in enumerate(order)}
        checks = [pos[id(c)] for c in order if is_call(c) and path_ends(callee(c) or "", ("check_left_id", "check_right_id"))]
        for c in order:
            if is_call(c) and any(path_ends(callee(c) or "", s_) for s_ in _UNCHECKED_MATRIX):
                ids = [a for a in call_args(c) if (peel_casts(a).get("ty") or "") in ("u16", "i16", "usize", "i64", "u32", "i32")]
                from_checks = bool(ids) and all(any(o[0] == "call" and path_ends(o[1] if len(o) > 1 and isinstance(o[1], str) else "", ("check_left_id", "check_right_id"))
                                                    for o in origins(db, f, a, depth=1)) for a in ids)
                after = bool(checks) and pos[id(c)] > max(checks)
                ctx.ob("%s|%s|validated-first" % (f.short(), short_path(callee(c)).split("::")[-1]), from_checks or after,
                       "%s calls %s with configured ids %s the validation (check_left_id / check_right_id)" % (
                           f.short(), short_path(callee(c)), "after" if (from_checks or after) else "BEFORE"), fn=f, site=c.get("sp"))
    ctx.ob("set_up-functions", n >= 8, "%d plugin set_up functions inspected (floor 8)" % n, nontrivial=False)
