"""C12 — layered user dictionaries keep ids, parts of speech and references straight."""
from ..engine import rule
from ..db import (walk, peel, peel_casts, render, callee, path_ends, short_path, is_call, call_args, lit_int,
                  exit_kind, path_conditions, atoms, AnchorMissing, local_name)
from ..guards import guarded_exits, mentions, is_call_to, cmp_atom, eval3, bound_cmp_evaluator
from ..origins import origins

META = {
    "explanation": (
        "(capacity) LexiconSet::append rejects when len >= MAX_DICTIONARIES (evaluated at MAX-1, MAX, MAX+1); "
        "MAX_DICTIONARIES <= 15 so every stamped dictionary number is < 0xF, the OOV marker; the word id reserves 4 bits for "
        "it (shift 28, mask 0x0fffffff) and WordId::checked rejects anything wider; (pos-rebase) the rebased POS id depends "
        "on the stored id, num_system_pos and pos_offsets[dict], under dict_id>0 && pos_id>=num_system_pos; in "
        "merge_user_dictionary the POS count handed to append is read before Grammar::merge, and from_cfg_storage loads the "
        "system dictionary, then plugins, then connection edits, then user dictionaries; (builder) DictBuilder::new_user "
        "preloads the system POS table, matrix sizes and word count; write_pos_table skips preloaded POS; own entries are "
        "resolved before the system dictionary; (restamp) update_dict_id rewrites exactly ids with dic()>0 using the owner's "
        "number through WordId::checked; (dic-id) both dictionary_id implementations are `is_oov -> -1 else dic()`. NOT "
        "decided: the POS strings reported for arbitrary stacks (value level)."),
    "decided": ["capacity", "pos-rebase", "builder", "restamp", "dic-id"],
    "not_decided": ["value-level POS strings for arbitrary dictionary stacks"],
}


@rule("C12.capacity", "append rejects len>=MAX_DICTIONARIES; MAX_DICTIONARIES<=15 (<0xF, the OOV marker); WordId keeps 4 bits for the dictionary")
def capacity(db, ctx):
    mx = db.const("dic::lexicon::MAX_DICTIONARIES")
    ctx.ob("MAX_DICTIONARIES", mx is not None and mx <= 15, "MAX_DICTIONARIES=%s (must be <= 15 so that stamped ids stay below the OOV marker 0xF)" % mx)
    f = db.one("is_full", "LexiconSet")
    body = f.hir.get("expr") or f.hir
    isb = lambda x: x.get("k") == "Path" and path_ends(x.get("path"), "MAX_DICTIONARIES")
    prof = [bool(eval3(body, bound_cmp_evaluator(isb, p))) for p in (-1, 0, 1)]
    ctx.ob("is_full|profile", prof == [False, True, True], "is_full() = `%s`: full at (MAX-1,MAX,MAX+1)=%s (must be F,T,T)" % (render(body), prof), fn=f)
    ap = db.one("append", "LexiconSet")
    ok = any(ek == "err" and pol and mentions(cond, is_call_to("is_full")) for ifn, cond, pol, ek, ps in guarded_exits(ap.hir))
    ctx.ob("append|rejects-when-full", ok, "append returns Err(TooManyDictionaries) when is_full(): %s" % ok, fn=ap)
    sd = db.one("set_dic_id", "Lexicon")
    ok = any(cmp_atom(x) and cmp_atom(x)[0] == "Lt" and "MAX_DICTIONARIES" in render(x) for x, _ in walk(sd.hir))
    ctx.ob("set_dic_id|assert<MAX", ok, "set_dic_id asserts id < MAX_DICTIONARIES: %s" % ok, fn=sd)
    wm = db.const("word_id::WORD_MASK")
    ctx.ob("WORD_MASK", wm == 0x0fffffff, "WORD_MASK=%s (28 bits for the word, 4 for the dictionary)" % (hex(wm) if wm is not None else None))
    d = db.one("dic", "WordId")
    sh = [lit_int(x["r"]) for x, _ in walk(d.hir) if x.get("k") == "Binary" and x.get("op") == "Shr"]
    n = db.one("new", "WordId")
    shl = [lit_int(x["r"]) for x, _ in walk(n.hir) if x.get("k") == "Binary" and x.get("op") == "Shl"]
    ctx.ob("WordId|shift", sh == [28] and shl == [28], "WordId::dic shifts right by %s, WordId::new shifts left by %s (both 28)" % (sh, shl), fn=d)
    ck = db.one("checked", "WordId")
    n_err = sum(1 for ifn, cond, pol, ek, ps in guarded_exits(ck.hir) if ek == "err")
    ctx.ob("WordId::checked|two-rejections", n_err == 2, "WordId::checked has %d rejecting guards (dictionary bits, word bits)" % n_err, fn=ck)
    oov = db.one("oov", "WordId")
    ok = any(is_call(c) and path_ends(callee(c), "WordId::new") and lit_int(call_args(c)[0]) == 15 for c, _ in walk(oov.hir))
    io = db.one("is_oov", "WordId")
    ok2 = any(cmp_atom(x) and cmp_atom(x)[0] == "Eq" and lit_int(cmp_atom(x)[2]) == 15 for x, _ in walk(io.hir))
    ctx.ob("oov-marker", ok and ok2, "WordId::oov uses dictionary 0xF (%s) and is_oov tests dic()==0xF (%s)" % (ok, ok2), fn=oov)


@rule("C12.pos-rebase", "rebased POS id = pos_id - num_system_pos + pos_offsets[dict] under dict_id>0 && pos_id>=num_system_pos; the POS "
                        "count given to append is read before Grammar::merge; load order system -> plugins -> connection edits -> user dictionaries")
def pos_rebase(db, ctx):
    f = db.view(db.one("get_word_info_subset", "LexiconSet"), keep=("update_dict_id",))
    done = False
    for n, ps in walk(f.hir):
        if n.get("k") in ("Assign", "AssignOp") and peel(n["l"]).get("k") == "Field" and peel(n["l"]).get("name") == "pos_id":
            from ..db import walk_x, deref_all as deref_let_
            from ..flow import holds_at, var_evaluator
            from ..guards import bound_cmp_evaluator
            deref_let = lambda e: deref_let_(e)
            txt = render(n["r"], x=True) if n["k"] == "Assign" else "pos_id %s= %s" % (n.get("op"), render(n["r"], x=True))
            sub_ok = add_ok = idx_ok = src_ok = False
            formula = None
            for x, _ in walk_x(n["r"]):
                if x.get("k") == "Binary" and x.get("op") == "Sub":
                    r_ = deref_let(peel_casts(x["r"]))
                    l_ = deref_let(peel_casts(x["l"]))
                    if r_.get("k") == "Field" and r_.get("name") == "num_system_pos":
                        sub_ok = True
                        src_ok = peel_casts(l_).get("k") == "Field" and peel_casts(l_).get("name") == "pos_id"
                if x.get("k") == "Binary" and x.get("op") == "Add":
                    for side in (x["l"], x["r"]):
                        s_ = deref_let(peel_casts(side))
                        if s_.get("k") == "Index" and peel(s_["e"]).get("k") == "Field" and peel(s_["e"]).get("name") == "pos_offsets":
                            add_ok = True
                            formula = x
                            i_ = deref_let(peel_casts(s_["i"]))
                            idx_ok = i_.get("k") == "MethodCall" and i_.get("method") == "dic"
            deps = shape = sub_ok and add_ok and src_ok
            # the formula is evaluated exactly for (dictionary number > 0, pos id >= num_system_pos): reachability at value points
            pcs = path_conditions((formula or n)["id"], f.hir) or []
            at = [("" if p else "!") + render(a) for c, pol in pcs if isinstance(c, dict) for a, p in atoms(c, pol)]
            is_dict = lambda e: deref_let(e).get("k") == "MethodCall" and deref_let(e).get("method") == "dic"
            isb = lambda x: isinstance(x, dict) and x.get("k") == "Field" and x.get("name") == "num_system_pos"
            g1 = holds_at(pcs, var_evaluator(is_dict, 0)) is False and holds_at(pcs, var_evaluator(is_dict, 1)) is not False
            g2 = holds_at(pcs, bound_cmp_evaluator(isb, -1)) is False and holds_at(pcs, bound_cmp_evaluator(isb, 0)) is not False
            done = True
            ctx.ob("rebase|formula", deps and shape and g1 and g2 and idx_ok,
                   "pos_id := `%s` under %s (must be pos_id - num_system_pos + pos_offsets[dict_id], guarded by dict_id>0 and pos_id>=num_system_pos)" % (txt, at), fn=f, site=n.get("sp"))
    if not done:
        raise AnchorMissing("get_word_info_subset: pos_id rebase")
    m = db.one("merge_user_dictionary", "JapaneseDictionary")
    order = []
    ap_arg = None
    for c, _ in walk(m.hir):
        if is_call(c):
            cal = callee(c) or ""
            for nm in ("read_user_dictionary", "update_cost", "LexiconSet::append", "Grammar::merge"):
                if path_ends(cal, nm):
                    order.append(nm.split("::")[-1])
                    if nm.endswith("append"):
                        ap_arg = render(call_args(c)[2], x=True)
    ctx.ob("merge_user_dictionary|order", order == ["read_user_dictionary", "update_cost", "append", "merge"] and "pos_list.len()" in (ap_arg or ""),
           "merge_user_dictionary: %s; append receives `%s` (the POS count before the grammars are merged)" % (order, ap_arg), fn=m)
    l = db.one("from_cfg_storage", "JapaneseDictionary")
    order = []
    for c, _ in walk(l.hir):
        if is_call(c) or c.get("k") == "MethodCall":
            cal = callee(c) or ""
            for nm in ("from_system_dictionary", "Plugins::load", "EditConnectionCostPlugin::edit", "merge_user_dictionary"):
                if path_ends(cal, nm) and nm.split("::")[-1] not in order:
                    order.append(nm.split("::")[-1])
    ctx.ob("from_cfg_storage|order", order == ["from_system_dictionary", "load", "edit", "merge_user_dictionary"],
           "from_cfg_storage: %s (num_system_pos fixed first, plugins may register POS, then connection edits, then user dictionaries)" % order, fn=l)
    sites = 0
    good = 0
    for g in db.fns.values():
        if g.pkg != "sudachi" or not g.hir:
            continue
        for c, _ in walk(g.hir):
            if is_call(c) and path_ends(callee(c), "LexiconSet::new"):
                sites += 1
                og = origins(db, g, call_args(c)[1], depth=0)
                if any(o[0] == "field" and o[2] == "pos_list" for o in og):
                    good += 1
    ctx.ob("LexiconSet::new|num_system_pos", sites >= 1 and good == sites,
           "%d of %d LexiconSet::new call sites pass the system grammar's pos_list.len() as num_system_pos" % (good, sites))


@rule("C12.builder", "DictBuilder::new_user preloads POS table, matrix sizes and system word count; write_pos_table skips preloaded ids; "
                     "own entries are resolved before the system dictionary")
def builder(db, ctx):
    f = db.one("new_user", "DictBuilder")
    calls = [callee(c).split("::")[-1] for c, _ in walk(f.hir) if is_call(c) and (callee(c) or "").startswith("sudachi::dic::build")]
    need = ["preload_pos", "set_max_conn_sizes", "set_num_system_words"]
    ctx.ob("new_user|preloads", all(n in calls for n in need), "new_user calls %s (needs %s)" % (calls, need), fn=f)
    args = {}
    for c, _ in walk(f.hir):
        if c.get("k") == "MethodCall" and c.get("method") == "set_max_conn_sizes":
            args = [render(a) for a in c["args"]]
    ctx.ob("new_user|conn-sizes-order", len(args) == 2 and "num_left" in args[0] and "num_right" in args[1], "set_max_conn_sizes(%s)" % args, fn=f)
    w = db.one("write_pos_table", "LexiconReader")
    # the row writer runs exactly for ids >= start_pos (unreachable at start_pos-1, reachable at start_pos), however the skip is written
    from ..flow import holds_at
    from ..guards import bound_cmp_evaluator
    from ..inline import nf
    isb = lambda x: isinstance(x, dict) and x.get("k") == "Field" and x.get("name") == "start_pos"
    wr_calls = [c for c, _ in walk(w.hir) if c.get("k") == "MethodCall" and c.get("method") == "write" and "Utf16Writer" in (c.get("rty") or c.get("callee") or "")]
    skip = bool(wr_calls)
    for c in wr_calls:
        pcs = path_conditions(c["id"], w.hir) or []
        at_lo = holds_at(pcs, bound_cmp_evaluator(isb, -1))
        at_eq = holds_at(pcs, bound_cmp_evaluator(isb, 0))
        skip = skip and at_lo is False and at_eq is not False
    cnt = any(c.get("k") == "MethodCall" and c.get("method") == "to_le_bytes" and nf(c["recv"]) == "(self.pos.len() - self.start_pos)" for c, _ in walk(w.hir)) or \
        any(is_call(c) and (callee(c) or "").endswith("to_le_bytes") and call_args(c) and nf(call_args(c)[0]) == "(self.pos.len() - self.start_pos)" for c, _ in walk(w.hir))
    ctx.ob("write_pos_table|skip-preloaded", skip and cnt, "write_pos_table skips ids < start_pos (%s) and counts len - start_pos (%s)" % (skip, cnt), fn=w)
    pp = db.one("preload_pos", "LexiconReader")
    ok = any(n.get("k") == "Assign" and "start_pos" in render(n["l"]) and "pos.len()" in render(n["r"]) for n, _ in walk(pp.hir))
    ctx.ob("preload_pos|start_pos", ok, "preload_pos sets start_pos = pos.len() after loading the system POS: %s" % ok, fn=pp)
    r = db.one("resolve_impl", "DictBuilder")
    ok = False
    for c, _ in walk(r.hir):
        if is_call(c) and path_ends(callee(c), "ChainedResolver::new"):
            # by type, not by what the two locals are called: (resolver over this dictionary's own raw entries, resolver over the
            # already built dictionary)
            tys = [(peel(x).get("ty") or "") for x in call_args(c)]
            ok = len(tys) == 2 and "RawDictResolver" in tys[0] and "BinDictResolver" in tys[1]
    ctx.ob("resolve_impl|own-first", ok, "ChainedResolver::new(<RawDictResolver: own entries>, <BinDictResolver: built dictionary>): own entries are consulted first: %s" % ok, fn=r)
    rr = db.one("new", "RawDictResolver")
    # by role: the dictionary number given to WordId::new for the resolver's own entries is 1 iff the `user` flag (the bool parameter) is set
    from ..flow import select as _sel
    from ..db import is_local as _isl, deref_all as _dra
    u_lid = next((p_.get("lid") for p_ in (rr.info.get("params") or []) if isinstance(p_, dict) and (p_.get("ty") or "") == "bool"), None)

    def _ev_user(v):
        def ev(atom):
            a_ = peel(atom)
            if isinstance(a_, dict) and _isl(a_, u_lid):
                return v
            return None
        return ev
    ok = False
    for c, _ in walk(rr.hir):
        if is_call(c) and path_ends(callee(c) or "", ("WordId::new", "WordId::checked")) and call_args(c):
            d1, d0 = (lit_int(_sel(db, rr, call_args(c)[0], _ev_user(v))) for v in (True, False))
            ok = d1 == 1 and d0 == 0
    ctx.ob("RawDictResolver|dic_id", ok, "own-dictionary references carry dictionary 1 when building a user dictionary, else 0: %s" % ok, fn=rr)


@rule("C12.restamp", "update_dict_id rewrites exactly the ids whose dic()>0, with the owner's dictionary number, through WordId::checked")
def restamp(db, ctx):
    f = db.one("update_dict_id", "LexiconSet")
    ok = False
    for n, ps in walk(f.hir):
        if n.get("k") == "Assign" and is_call(peel(n["r"]).get("scrut", {}).get("args", [{}])[0] if peel(n["r"]).get("k") == "Match" else {}):
            pass
    from ..flow import reachable_at, is_local_from_call
    for c, ps in walk(f.hir):
        if is_call(c) and path_ends(callee(c), "WordId::checked"):
            a = [render(x) for x in call_args(c)]
            pcs = path_conditions(c["id"], f.hir) or []
            at = [("" if p else "!") + render(x) for cn, pol in pcs if isinstance(cn, dict) for x, p in atoms(cn, pol)]
            isv = is_local_from_call("WordId::dic")
            # re-stamping happens exactly for stored dictionary numbers > 0: unreachable at 0, reachable at 1 and 14
            r0, r1, r14 = (reachable_at(f.hir, c["id"], isv, v) for v in (0, 1, 14))
            from ..db import is_local as _il
            own_lid = next((p_.get("lid") for p_ in (f.info.get("params") or []) if isinstance(p_, dict) and (p_.get("ty") or "") == "u8"), None)
            ok = _il(call_args(c)[0], own_lid) and "word()" in a[1] and r0 is False and r1 is True and r14 is True
            ctx.ob("update_dict_id|restamp", ok, "ids are rewritten as WordId::checked(%s) under %s (owner's number, only when the stored dic()>0)" % (", ".join(a), at), fn=f)
    callers = []
    g = db.one("get_word_info_subset", "LexiconSet")
    for c, _ in walk(g.hir):
        if is_call(c) and path_ends(callee(c), "update_dict_id"):
            from ..db import deref_all as _da
            d_ = peel_casts(_da(call_args(c)[1]))
            # the owner is the dictionary number of the looked-up id itself: `id.dic()` of the function's WordId parameter
            callers.append("id.dic()" if isinstance(d_, dict) and d_.get("k") == "MethodCall" and d_.get("method") == "dic" and
                           "WordId" in (peel(d_["recv"]).get("ty") or "") and peel(d_["recv"]).get("res") == "local" and "let_init" not in peel(d_["recv"]) else render(call_args(c)[1]))
    ctx.ob("update_dict_id|owner", len(callers) == 3 and all(x == "id.dic()" for x in callers), "all %d call sites pass the looked-up word's own dict_id: %s" % (len(callers), callers), fn=g)


@rule("C12.dic-id", "Morpheme::dictionary_id and PyMorpheme::dictionary_id agree: -1 for OOV, dic() otherwise")
def dic_id(db, ctx):
    for f in [db.one("dictionary_id", "Morpheme")] + [x for x in db.fns.values() if x.pkg == "sudachipy" and x.name == "dictionary_id" and (x.self_adt or "").endswith("PyMorpheme") and x.hir]:
        ok = False
        for n, _ in walk(f.hir):
            if n.get("k") == "If" and "is_oov()" in render(n["cond"]):
                ok = lit_int(n["then"]) == -1 and "dic()" in render(n.get("else", {}))
        ctx.ob("%s" % f.short(), ok, "%s: `if is_oov {-1} else {dic()}`: %s" % (f.short(), ok), fn=f)
    ctx.floor(2)


@rule("C12.fixups", "per-field re-stamping in get_word_info_subset is guarded by that field's own flag (re-evaluation of C11.fixups)")
def fixups(db, ctx):
    from . import C11
    C11.fixups(db, ctx)
    ctx.floor(4)


@rule("C12.merge-appends-all", "Grammar::merge appends the user dictionary's whole POS table (no filtering / de-duplication): the POS rebase "
                               "assumes each dictionary's table sits contiguously at the offset recorded before the merge")
def merge_appends_all(db, ctx):
    f = db.one("merge", "Grammar")
    calls = [c for c, _ in walk(f.hir) if c.get("k") == "MethodCall" and "pos_list" in render(c["recv"]) and c["method"] in ("extend", "append", "push", "extend_from_slice", "insert", "retain", "dedup")]
    ok = len(calls) == 1 and calls[0]["method"] in ("extend", "append", "extend_from_slice")
    arg = render(calls[0]["args"][0]) if calls else None
    adapt = False
    if ok:
        names = []
        cur = peel(calls[0]["args"][0])
        while cur.get("k") == "MethodCall":
            names.append(cur["method"])
            cur = peel(cur["recv"])
        adapt = bool(set(names) & {"filter", "filter_map", "skip", "take", "skip_while", "take_while", "dedup", "step_by", "rev"})
    cond = any(x.get("k") in ("If", "Match") and x.get("src") != "ForLoopDesugar" for x, _ in walk(f.hir))
    ctx.ob("Grammar::merge|whole-table", ok and not adapt and not cond,
           "Grammar::merge grows pos_list with `%s` (calls: %s); filtering adaptor: %s; conditional logic: %s — every entry must be appended" % (
               arg, [c["method"] for c in calls], adapt, cond), fn=f)


@rule("C12.merged-oov-id", "a katakana run merged by concat_oov_nodes is out-of-vocabulary as soon as ANY part is: its word id is the maximum over the ids "
                           "of all merged nodes (OOV ids compare greater), replaced by the OOV id of that dictionary number otherwise — taking the id of one "
                           "node only reports a word no dictionary contains with that node's dictionary number")
def merged_oov_id(db, ctx):
    from ..loops import iterations, chain as lchain
    from ..inline import range_bounds
    from ..db import deref_all
    f = db.view(db.one("concat_oov_nodes", None))
    P = [p_.get("name") for p_ in (f.info.get("params") or []) if isinstance(p_, dict)] + [None] * 3      # (nodes, first, one-past-last) by position
    acc = False
    for itn in iterations(f.hir):
        ch, base = lchain(db, f, itn["it"])
        b = deref_all(base)
        whole = isinstance(b, dict) and b.get("k") == "Index" and local_name(b["e"]) == P[0] and range_bounds(b["i"]) == (P[1], P[2])
        for x, _ in walk(itn["body"]):
            if x.get("k") in ("Assign", "MethodCall") and mentions(x, lambda y: y.get("k") == "MethodCall" and y.get("method") == "max") and \
                    mentions(x, lambda y: y.get("k") == "MethodCall" and y.get("method") == "word_id") and whole:
                acc = True
    # fold / map().max() forms
    for c, _ in walk(f.hir):
        if c.get("k") == "MethodCall" and c.get("method") in ("max", "fold", "max_by_key") and mentions(c, lambda y: y.get("k") == "MethodCall" and y.get("method") == "word_id"):
            ch, base = lchain(db, f, c["recv"])
            b = deref_all(base)
            if isinstance(b, dict) and b.get("k") == "Index" and local_name(b["e"]) == P[0] and range_bounds(b["i"]) == (P[1], P[2]):
                acc = True
    ctx.ob("concat_oov_nodes|id=max-over-all-parts", acc, "the merged word id accumulates max(node.word_id()) over path[begin..end]: %s" % acc, fn=f)
    oov_fix = any(n.get("k") == "If" and mentions(n["cond"], lambda y: y.get("k") == "MethodCall" and y.get("method") == "is_oov") for n, _ in walk(f.hir)) and \
        any(is_call(c) and path_ends(callee(c) or "", "WordId::new") and mentions(c, lambda y: y.get("k") == "Path" and (y.get("path") or "").endswith("MAX_WORD")) for c, _ in walk(f.hir))
    ctx.ob("concat_oov_nodes|non-oov-id-becomes-oov-of-that-dictionary", oov_fix,
           "when no part is OOV the merged id becomes WordId::new(dic, MAX_WORD): %s" % oov_fix, fn=f)


@rule("C12.reference-bounds", "a split / word-structure reference equal to the size of the dictionary it points into is rejected by the compiler (re-evaluation "
                              "of C06.validate: validate_wid rejects exactly word >= size)")
def reference_bounds(db, ctx):
    from . import C06
    C06.validate(db, ctx)
