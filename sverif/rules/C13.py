"""C13 — unknown-word candidates follow the character-class definition (weak partial claim)."""
from ..engine import rule
from ..db import (walk, peel, peel_casts, render, callee, path_ends, short_path, is_call, call_args, lit_int,
                  exit_kind, path_conditions, atoms, AnchorMissing, local_name)
from ..guards import guarded_exits, mentions, is_call_to, cmp_atom
from ..origins import origins, for_loop_parts
from ..wimodel import flag_names
from .C02 import _loops, _chain

META = {
    "explanation": (
        "Decides only the structural part: (coverage) OOV providers are skipped exactly when the character at the position is "
        "tagged NOOOVBOW or NOOOVBOW2, every configured provider is invoked in order otherwise, and the fallback/err logic of "
        "C03.total-lattice guarantees a candidate or an error at every reachable position; (node-shape) every bundled "
        "provide_oov builds its nodes with begin = the offset it was given, an OOV word id carrying the configured POS, and "
        "connection ids / cost read from plugin fields (sanitised at load: C20); the best-path resolver synthesises the "
        "word info of an OOV node from the normalised text of its character range and its POS id; is_oov / dictionary_id "
        "derive from WordId::is_oov; (invoke) MeCab-style generation for a class is skipped iff the class is not "
        "always-invoked and other words already start at the position; the grouped candidate spans the run length and "
        "per-length candidates stop at the run. NOT decided: which spans the run computation yields (fill_cat_continuity "
        "computes runs right-to-left in one pass, which may differ from the left-to-right maximal run the statement "
        "describes for characters with several classes) — that is arithmetic over the class table, outside static reach."),
    "decided": ["coverage", "node-shape", "invoke"],
    "not_decided": ["which spans are generated (run computation over multi-class characters)", "char.def / unk.def contents"],
}


@rule("C13.coverage", "providers are skipped exactly under NOOOVBOW|NOOOVBOW2 at the position; otherwise every provider is invoked in order "
                      "and its result propagated")
def coverage(db, ctx):
    f = db.one("build_lattice", "LatticeBuilder")
    found = False
    for n, ps in walk(f.hir):
        if n.get("k") != "If":
            continue
        atoms_ = atoms(n["cond"], True)
        for a, p in atoms_:
            a2 = peel(a)
            if a2.get("k") == "MethodCall" and a2.get("method") == "intersects" and mentions(a2["recv"], is_call_to("cat_at_char")):
                flags = flag_names(a2["args"][0])
                from ..loops import iterations, propagates_errors, body_parents, chain as lchain
                from ..inline import nf
                its = list(iterations(n["then"]))
                ok = flags == {"NOOOVBOW", "NOOOVBOW2"} and p is False and len(its) == 1
                inner_ok = False
                if its:
                    itn = its[0]
                    ch, base = lchain(db, f, itn["it"])
                    calls = [(c, pp) for c, pp in walk(itn["body"], body_parents(itn)) if is_call(c) and path_ends(callee(c), "provide_oovs")]
                    inner_ok = {m for m, _ in ch} <= {"iter"} and nf(base) == "self.oov_providers" and len(calls) == 1 and \
                        propagates_errors(itn, calls[0][0], calls[0][1]) and \
                        not any(x.get("k") in ("Break", "Continue") for x, _ in walk(itn["body"]))
                found = True
                ctx.ob("providers-skipped-iff-nooovbow", ok and inner_ok,
                       "provider loop runs under !cat_at_char(pos).intersects(%s); plain loop over oov_providers with `?`: %s" % (sorted(flags), inner_ok), fn=f, site=n.get("sp"))
                pos_arg = render(call_args(a2["recv"] if a2["recv"].get("k") != "MethodCall" else a2["recv"])[1]) if is_call(a2["recv"]) else None
    if not found:
        raise AnchorMissing("build_lattice: NOOOVBOW guard around the provider loop")
    po = db.one("provide_oovs", "LatticeBuilder")
    c = [c for c, _ in walk(po.hir) if c.get("k") == "MethodCall" and c.get("method") == "provide_oov"]
    from ..inline import pcanon
    ok = bool(c) and [pcanon(po, render(a), "char_offset", "other", "plugin") for a in c[0]["args"]][:2] == ["self.input", "char_offset"]
    ins = any(is_call(x) and path_ends(callee(x), "Lattice::insert") for x, _ in walk(po.hir))
    # the loop visits [len before the call, len before the call + number the provider reports)
    from ..inline import range_bounds
    from ..db import deref_all
    from ..origins import unwrap_try
    rng = False
    for nn, fl, pp in _loops(po):
        rb = range_bounds(fl[0])
        rs = deref_all(fl[0])
        if rb and rb[0] == "self.node_buffer.len()" and isinstance(rs, dict) and rs.get("k") == "Struct":
            end = {x["name"]: x["e"] for x in rs["fields"] if "e" in x}.get("end")
            e_ = deref_all(end) if end is not None else {}
            if e_.get("k") == "Binary" and e_.get("op") == "Add":
                sides = [deref_all(unwrap_try(deref_all(s_))) for s_ in (e_["l"], e_["r"])]
                rng = any(s_.get("k") == "MethodCall" and s_.get("method") == "provide_oov" for s_ in sides) and \
                    any(s_.get("k") == "MethodCall" and s_.get("method") == "len" for s_ in sides)
    # what is recorded for the later providers is the LENGTH of each new node (CreatedWords is a set of lengths at this position)
    import re as _re
    from ..inline import nf as _nfa
    rec = [_nfa(c_["args"][0]) for c_, _ in walk(po.hir) if c_.get("k") == "MethodCall" and c_.get("method") == "add_word" and c_["args"]]
    len_ok = bool(rec) and all(_re.fullmatch(r".+\.char_range\(\)\.len\(\)|.+\.num_codepts\(\)|\((.+)\.end\(\) - \1\.begin\(\)\)", r_) for r_ in rec)
    ctx.ob("provide_oovs|records-node-length", len_ok, "CreatedWords::add_word receives %s (must be the node's length in code points: char_range().len() / "
                                                      "end() - begin()); an end position coincides with a length only at offset 0" % rec, fn=po)
    ctx.ob("provide_oovs|inserts-all-provided", ok and ins and rng, "provide_oov(self.input, char_offset, ..) then every node in start_size..start_size+num_provided is inserted: %s/%s/%s" % (ok, ins, rng), fn=po)


def _loops_in(node):
    for n, ps in walk(node):
        fl = for_loop_parts(n) if n.get("k") == "Match" else None
        if fl:
            yield n, fl, ps


@rule("C13.node-shape", "every bundled provide_oov builds nodes with begin = the offset it was given and WordId::oov(<configured pos>); the "
                        "resolver synthesises OOV word info from curr_slice_c(char_range()) and word_id().word(); is_oov/dictionary_id use WordId::is_oov")
def node_shape(db, ctx):
    impls = [f for f in db.impls_of("OovProviderPlugin::provide_oov") if f.pkg == "sudachi"]
    if len(impls) < 3:
        raise AnchorMissing("OovProviderPlugin::provide_oov impls", "(%d)" % len(impls))
    from .. import cg
    g = cg.get(db)
    n_nodes = 0
    for imp in impls:
        clo = [db.fns[k] for k in g.closure([imp.key]) if "::plugin::oov::" in k and db.fns[k].hir]
        for f in clo:
            for c, ps in walk(f.hir):
                if is_call(c) and path_ends(callee(c), "inner::Node::new"):
                    a = call_args(c)
                    og = origins(db, f, a[0], depth=2)
                    params = {(o[1], o[2]) for o in og if o[0] == "param"}
                    # the begin argument must trace to the `offset` parameter of a provide_oov* function
                    names = set()
                    for (fk, i) in params:
                        ps_ = db.fns[fk].info.get("params", [])
                        if i < len(ps_):
                            names.add(ps_[i].get("name"))
                    # ... by position: the first usize parameter of a provide_oov* function is the offset it was given
                    def _is_offset(fk, i):
                        ps2 = db.fns[fk].info.get("params", [])
                        first_usize = next((j for j, p2 in enumerate(ps2) if isinstance(p2, dict) and (p2.get("ty") or "") == "usize"), None)
                        return "provide_oov" in fk.split("::")[-1] and first_usize == i
                    ok_begin = any(_is_offset(fk, i) for fk, i in params)
                    wid = peel(a[5])
                    ok_wid = wid.get("k") == "Call" and path_ends(wid.get("callee"), "WordId::oov")
                    wo = origins(db, f, wid["args"][0], depth=0) if ok_wid else set()
                    ok_pos = any(o[0] == "field" and "pos" in o[2] for o in wo)
                    # the left / right connection ids of the candidate are the homonymous configured ones (not exchanged)
                    lo = {o[2] for o in origins(db, f, a[2], depth=2) if o[0] == "field"}
                    ro = {o[2] for o in origins(db, f, a[3], depth=2) if o[0] == "field"}
                    ok_ids = any("left" in x for x in lo) and not any("right" in x for x in lo) and any("right" in x for x in ro) and not any("left" in x for x in ro)
                    ctx.ob("%s|Node::new|id-pairing" % f.short(), ok_ids,
                           "%s: Node::new(left id from field(s) %s, right id from field(s) %s) — the candidate's left id must come from the configured left id and "
                           "its right id from the configured right id" % (f.short(), sorted(lo), sorted(ro)), fn=f, site=c.get("sp"))
                    n_nodes += 1
                    ctx.ob("%s|Node::new" % f.short(), ok_begin and ok_wid and ok_pos,
                           "%s: Node::new(begin=`%s` traced to parameters %s, .., word id `%s`): begin is the given offset=%s, OOV id with configured POS=%s"
                           % (f.short(), render(a[0]), sorted(n for n in names if n), render(a[5]), ok_begin, ok_wid and ok_pos), fn=f, site=c.get("sp"))
    ctx.floor(3)
    r = db.view(db.one("resolve_best_path", "StatefulTokenizer"))
    ok = False
    from ..inline import nf
    import re
    for n, ps in walk(r.hir):
        if n.get("k") == "Struct" and (n.get("path") or "").endswith("WordInfoData"):
            pcs = path_conditions(n.get("id"), r.hir) or []
            under_oov = any(p and re.fullmatch(r"\w+\.word_id\(\)\.is_oov\(\)", nf(a)) for c_, pol in pcs if isinstance(c_, dict) for a, p in atoms(c_, pol))
            fl = {x["name"]: nf(x["e"]) for x in n["fields"] if "e" in x}
            ok = under_oov and re.fullmatch(r"(\w+)\.word_id\(\)\.word\(\)", fl.get("pos_id", "")) is not None and \
                re.fullmatch(r"self\.input\.curr_slice_c\((\w+)\.char_range\(\)\)(\.to_owned\(\)|\.to_string\(\)|\.into\(\))?", fl.get("surface", "")) is not None
    ctx.ob("resolve_best_path|oov-word-info", ok, "OOV word info = {pos_id: word_id().word(), surface: curr_slice_c(char_range())}: %s" % ok, fn=r)
    m = db.one("is_oov", "Morpheme")
    ok = any(is_call(c) and path_ends(callee(c), "WordId::is_oov") for c, _ in walk(m.hir))
    ctx.ob("Morpheme::is_oov", ok, "Morpheme::is_oov delegates to WordId::is_oov: %s" % ok, fn=m)


def _span_arg(a):
    """'offset' | 'offset + run' (run = cat_continuous_len(offset)) | rendered text"""
    from ..db import deref_let
    a0 = peel_casts(a)
    if local_name(a0) == "offset":
        return "offset"
    if a0.get("k") == "Binary" and a0.get("op") == "Add":
        l, r = peel_casts(a0["l"]), peel_casts(a0["r"])
        for x, y in ((l, r), (r, l)):
            if local_name(x) == "offset":
                y2 = deref_let(y)
                if y2.get("k") == "MethodCall" and y2.get("method") == "cat_continuous_len" and local_name(y2["args"][0]) == "offset":
                    return "offset + run"
    return render(a)


@rule("C13.invoke", "MeCab OOV: a class is skipped iff !is_invoke && other words exist; grouped candidate spans offset..offset+run; per-length "
                    "candidates stop when longer than the (remaining) run")
def invoke(db, ctx):
    f = db.one("provide_oov_gen", "MeCabOovPlugin")
    ok = False
    for n, ps in walk(f.hir):
        if n.get("k") == "If" and exit_kind(n["then"]) == "continue":
            at = atoms(n["cond"], True)
            # by role: (the class's is_invoke field, negated) and (not_empty() of the CreatedWords parameter)
            def _kind(a, p):
                a = peel(a)
                if a.get("k") == "Field" and a.get("name") == "is_invoke":
                    return "!is_invoke" if not p else "is_invoke"
                if a.get("k") == "MethodCall" and a.get("method") in ("not_empty", "is_empty") and "CreatedWords" in (peel(a["recv"]).get("ty") or "") \
                        and peel(a["recv"]).get("res") == "local":
                    return "others" if (a["method"] == "not_empty") == p else "!others"
                return "?" + render(a)
            if sorted(_kind(a, p) for a, p in at) == ["!is_invoke", "others"]:
                ok = True
    ctx.ob("skip-iff-not-invoke-and-others", ok, "`if !cinfo.is_invoke && other_words.not_empty() { continue }`: %s" % ok, fn=f)
    # what reaches get_oov_node(oov, start, end), through helpers and hoisted lets, and under which conditions
    from ..inline import expanded_calls, nf
    import re
    RUN = r"\w+\.cat_continuous_len\(offset\)"
    DIST = r"\w+\.char_distance\(offset, \w+\)"
    grp, per = [], []
    from ..inline import pcanon
    _pc = lambda t: pcanon(f, t, "input", "offset", "other_words", "nodes")        # parameters by position
    for e in expanded_calls(db, f, "get_oov_node"):
        a = [_pc(x) for x in e["args"]]
        if len(a) < 4:
            continue
        (grp if any(p and c.endswith(".is_group") for c, p in e["conds"]) else per).append((a[2], a[3]))
    okg = bool(grp) and all(s == "offset" and re.fullmatch(r"\((%s \+ offset|offset \+ %s)\)" % (RUN, RUN), en) for s, en in grp)
    ctx.ob("grouped-candidate-span", okg, "grouped candidate(s) = get_oov_node(oov, %s) (must span offset .. offset + "
                                          "cat_continuous_len(offset))" % grp, fn=f)
    okp = bool(per) and all(s == "offset" and re.fullmatch(r"\((%s \+ offset|offset \+ %s)\)" % (DIST, DIST), en) for s, en in per)
    ctx.ob("per-length-candidate-span", okp, "per-length candidate(s) = get_oov_node(oov, %s) (must span offset .. offset + char_distance(offset, i))" % per, fn=f)
    # the per-length loop stops when the candidate is longer than the remaining run: `dist > L` where L starts as the run length
    brk = False
    for n, _ in walk(f.hir):
        if n.get("k") == "If" and exit_kind(n["then"]) == "break" and cmp_atom(n["cond"]):
            op, l, r = cmp_atom(n["cond"])
            if op in ("Lt", "Le"):
                op, l, r = {"Lt": "Gt", "Le": "Ge"}[op], r, l
            lim = peel_casts(r)
            if op == "Gt" and re.fullmatch(DIST, _pc(nf(l))) and lim.get("k") == "Path":
                # the values the limit can hold: the initial value of a `let mut` (later decremented), or the branch values of an
                # `if`-valued immutable let; each must be the run length or the run length minus one
                from ..db import deref_all
                vals = []
                if "mut_init" in lim:
                    vals = [lim["mut_init"]]
                else:
                    d = deref_all(lim)

                    def tails(x):
                        x = peel(x)
                        if x.get("k") == "If" and "else" in x:
                            return tails(x["then"]) + tails(x["else"])
                        if x.get("k") == "Block" and "expr" in x:
                            return tails(x["expr"])
                        return [x]
                    vals = tails(d)
                if vals and all(re.fullmatch(r"%s|\(%s - 1\)" % (RUN, RUN), _pc(nf(v))) for v in vals):
                    brk = True
    ctx.ob("run-bounded", brk, "per-length loop breaks when char_distance(offset, i) > (remaining) run length, the limit being initialised from cat_continuous_len(offset): %s" % brk, fn=f)
    cats = any(fl and "cat_at_char(offset)" in _pc(render(fl[0])) for n, fl, ps in _loops(f))
    ctx.ob("iterates-all-classes", cats, "candidates are generated for every class in cat_at_char(offset): %s" % cats, fn=f)


def _loop_carried(db, f, loop_node, fl):
    """locals mutated inside a loop body but declared outside it: {name: lid}"""
    from ..origins import index as oindex, pat_bindings
    it, pat, body = fl
    inside = set()
    for n, _ in walk(body):
        if n.get("k") == "Let":
            for lid, nm in pat_bindings(n["pat"]):
                inside.add(lid)
    for lid, nm in pat_bindings(pat):
        inside.add(lid)
    carried = {}
    for n, _ in walk(body):
        if n.get("k") in ("Assign", "AssignOp"):
            l = peel(n["l"])
            if l.get("k") == "Path" and l.get("res") == "local" and l["lid"] not in inside:
                carried[l["name"]] = l["lid"]
    return carried


@rule("C13.per-class-state", "MeCab OOV generation treats each class of the character independently: the only state carried across iterations "
                             "of the per-class loop is the returned candidate counter (the remaining-run budget is re-initialised per class)")
def per_class_state(db, ctx):
    f = db.one("provide_oov_gen", "MeCabOovPlugin")
    outer = None
    for n, fl, ps in _loops(f):
        if "cat_at_char" in render(fl[0]) and not any(p.get("k") == "Match" and p.get("src") == "ForLoopDesugar" for p in ps):
            outer = (n, fl)
    if outer is None:
        raise AnchorMissing("provide_oov_gen: loop over the classes of the character")
    carried = _loop_carried(db, f, outer[0], outer[1])
    ret = render(f.hir.get("expr") or {})
    extra = sorted(nm for nm in carried if nm not in ret)
    ctx.ob("class-loop|carried-state", not extra,
           "locals mutated in the per-class loop but declared outside it: %s; returned: `%s`; carried state other than the returned counter: %s%s" % (
               sorted(carried), ret, extra, "" if not extra else " — a budget consumed by one class leaks into the classes visited after it"), fn=f)


@rule("C13.run-intersection", "fill_cat_continuity extends a run only while the running INTERSECTION of classes is non-empty: where the "
                              "intersection is non-empty the carried class set is narrowed to it, where it is empty the set restarts from the "
                              "character's own classes")
def run_intersection(db, ctx):
    from ..db import deref_let
    f = db.one("fill_cat_continuity", "InputBuffer")
    loops = list(_loops(f))
    if not loops:
        raise AnchorMissing("fill_cat_continuity: loop")
    n0, (it, pat, body), ps0 = loops[0]

    def as_intersection(e):
        e = deref_let(e)
        if e.get("k") == "Binary" and e.get("op") == "BitAnd":
            return local_name(e["l"]), local_name(e["r"])
        return None

    def test_polarity(pcs):
        """+1: the intersection is known non-empty here, -1: known empty, 0: not tested; plus the operand pair"""
        for c, pol in pcs or []:
            if not isinstance(c, dict):
                continue
            for a, p in atoms(c, pol):
                a = peel(a)
                if a.get("k") == "MethodCall" and a.get("method") == "is_empty":
                    ops = as_intersection(a["recv"])
                    if ops and None not in ops:
                        return (-1 if p else 1), ops
                if a.get("k") == "MethodCall" and a.get("method") == "intersects" and a["args"]:
                    ops = (local_name(a["recv"]), local_name(a["args"][0]))
                    if None not in ops:
                        return (1 if p else -1), ops
        return 0, None

    inside = {x["pat"].get("name") for x, _ in walk(body) if x.get("k") == "Let"}
    found = False
    verdicts = []
    ok = True
    for x, ps in walk(body):
        tgt = None
        rhs_inter = None
        if x.get("k") == "Assign" and local_name(x["l"]) and local_name(x["l"]) not in inside:
            tgt = local_name(x["l"])
            rhs_inter = as_intersection(x["r"])
            rhs_name = local_name(x["r"])
        elif x.get("k") == "AssignOp" and x.get("op") == "BitAnd" and local_name(x["l"]) and local_name(x["l"]) not in inside:
            tgt = local_name(x["l"])
            rhs_inter = (tgt, local_name(x["r"]))
            rhs_name = None
        if tgt is None:
            continue
        pol, ops = test_polarity(path_conditions(x["id"], body))
        if ops is None or tgt not in ops:
            if pol == 0:
                # an assignment of the carried set that is not under the intersection test at all
                carried_candidates = True
                verdicts.append("`%s` assigned unconditionally" % tgt)
                # only a problem if this variable IS the carried set of some tested intersection (checked below)
                unconditional = tgt
                ok_uncond = False
                for y, ps2 in walk(body):
                    p2, o2 = test_polarity(path_conditions(y.get("id"), body)) if y.get("k") in ("Assign", "AssignOp") else (0, None)
                    if o2 and tgt in o2:
                        ok = False
                        found = True
            continue
        found = True
        cur = [o for o in ops if o != tgt][0]
        if pol == 1:
            good = bool(rhs_inter) and set(rhs_inter) == {tgt, cur}
            verdicts.append("non-empty: %s := %s" % (tgt, "intersection" if good else render(x.get("r", {}))))
        else:
            good = rhs_name == cur
            verdicts.append("empty: %s := %s" % (tgt, rhs_name))
        ok = ok and good
    have_pos = any(v.startswith("non-empty") for v in verdicts)
    have_neg = any(v.startswith("empty") for v in verdicts)
    if not found:
        raise AnchorMissing("fill_cat_continuity: assignments of the carried class set under the intersection test")
    ctx.ob("continuing-branch-narrows", ok and have_pos and have_neg,
           "assignments of the carried class set: %s (must be the intersection where it is non-empty, the character's own classes where it is empty, "
           "and nothing unconditional)" % verdicts, fn=f)


@rule("C13.units", "OOV providers: offsets and lengths keep their index space (node spans and created-word lengths in code points of the "
                   "normalised text; regex / byte positions converted through ch_idx before use) — the units engine of C01 over plugin::oov")
def oov_units(db, ctx):
    from ..units import Units
    n = 0
    for k, f in sorted(db.fns.items()):
        if f.pkg != "sudachi" or not f.hir or "::plugin::oov::" not in k:
            continue
        u = Units(db, f)
        conflicts, reached = u.check()
        seen = set()
        for node, msg in conflicts:
            if msg in seen:
                continue
            seen.add(msg)
            ctx.ob("%s|%s" % (f.short(), msg[:80]), False, "%s: index-space conflict — %s" % (f.short(), msg), fn=f,
                   site=node.get("sp") if isinstance(node, dict) else None)
        if reached and not conflicts:
            n += 1
            ctx.ob("%s|consistent" % f.short(), True, "%s: %d seeded use-sites reached with a known space, all consistent" % (f.short(), reached), fn=f)
    ctx.floor(3)


@rule("C13.bow-table", "whether a character may begin a word (InputBuffer::build): false after a NOOOVBOW2 character, false for NOOOVBOW2 / NOOOVBOW "
                       "characters, for ALPHA / GREEK / CYRILLIC characters false exactly when the previous character shares a class with it, true "
                       "otherwise — as a truth table over the five tests, whatever the control flow that implements it")
def bow_table(db, ctx):
    from ..flow import select
    from ..guards import eval3
    from ..db import deref_all
    from ..wimodel import flag_names
    f = db.view(db.one("build", "InputBuffer"))
    stores = [n for n, _ in walk(f.hir) if n.get("k") == "Assign" and peel(n["l"]).get("k") == "Index" and peel(peel(n["l"])["e"]).get("name") == "mod_bow"]
    if len(stores) != 1:
        raise AnchorMissing("InputBuffer::build: store into mod_bow")
    val = stores[0]["r"]

    def strip(e):
        e = peel(e)
        while isinstance(e, dict) and e.get("k") == "Unary" and e.get("op") == "Deref":
            e = peel(e["e"])
        d = deref_all(e)
        while isinstance(d, dict) and d.get("k") in ("AddrOf",):
            d = deref_all(d["e"])
        return d

    def mk_ev(blocked, b2, b1, ns, same):
        def ev(atom):
            a = strip(atom)
            if not isinstance(a, dict):
                return None
            if a.get("k") == "Path" and a.get("res") == "local" and (a.get("ty") or "").endswith("bool") and "mut_init" in a:
                return not blocked            # the carried flag: true = this character is not blocked by the previous one
            if a.get("k") == "MethodCall" and a.get("method") == "intersects" and a["args"]:
                recv, arg = strip(a["recv"]), strip(a["args"][0])
                is_cat = lambda x: x.get("k") == "MethodCall" and x.get("method") == "get_category_types" or (x.get("k") == "Path" and x.get("name") == "cat")
                is_prev = lambda x: x.get("k") == "Path" and x.get("res") == "local" and "mut_init" in x and "CategoryType" in (x.get("ty") or "")
                if is_prev(arg) and not is_prev(recv) and (is_cat(recv) or True) and not _flags(recv):
                    return same
                if is_prev(recv) and not _flags(arg):
                    return same
                fl = _flags(arg) if not is_prev(arg) else set()
                if fl == {"NOOOVBOW2"}:
                    return b2
                if fl == {"NOOOVBOW"}:
                    return b1
                if fl == {"ALPHA", "GREEK", "CYRILLIC"} and not _flags(recv):
                    return ns
                return None
            return None
        return ev

    def _flags(x):
        fl = flag_names(x)
        return fl if fl and not any(s.startswith("?") for s in fl) else set()
    bad = []
    n = 0
    for blocked in (True, False):
        for b2 in (True, False):
            for b1 in (True, False):
                for ns in (True, False):
                    for same in (True, False):
                        ev = mk_ev(blocked, b2, b1, ns, same)
                        got = eval3(select(db, f, val, ev), ev)
                        want = False if (blocked or b2 or b1) else ((not same) if ns else True)
                        n += 1
                        if got is not want:
                            bad.append(((blocked, b2, b1, ns, same), got, want))
    ctx.ob("can_bow|truth-table", not bad,
           "value stored into mod_bow over (blocked-by-previous, NOOOVBOW2, NOOOVBOW, alpha/greek/cyrillic, shares-a-class-with-previous): %d of %d rows "
           "as specified%s" % (n - len(bad), n, "" if not bad else "; first differing row %s gives %s, specified %s" % bad[0]), fn=f, site=stores[0].get("sp"))


@rule("C13.regex-anchored", "the regex OOV provider builds a node only from a match that STARTS at the queried position: the node construction is "
                            "reachable when the match start (relative to the slice handed to the regex) is 0 and unreachable when it is > 0 — the "
                            "`^` prefix anchors only the first alternative of a pattern with a top-level `|`, so a later match would otherwise be "
                            "reported as a candidate spanning text the pattern does not describe")
def regex_anchored(db, ctx):
    from ..flow import holds_at
    from ..guards import holds
    from ..db import deref_all, SWAP
    impls = [f for f in db.impls_of("OovProviderPlugin::provide_oov") if "RegexOovProvider" in f.key]
    if len(impls) != 1:
        raise AnchorMissing("RegexOovProvider::provide_oov")
    f = db.view(impls[0])

    def is_start(e):
        d = peel_casts(deref_all(e)) if isinstance(e, dict) else None
        return isinstance(d, dict) and d.get("k") == "MethodCall" and d.get("method") == "start" and "Match" in (peel(d["recv"]).get("ty") or "")

    def ev_start(v):
        def ev(atom):
            cm = cmp_atom(atom)
            if not cm:
                return None
            for l_, r_, op in ((cm[1], cm[2], cm[0]), (cm[2], cm[1], SWAP[cm[0]])):
                if is_start(l_) and lit_int(r_) is not None:
                    return holds(op, v, lit_int(r_))
            return None
        return ev
    sites = [c for c, _ in walk(f.hir) if is_call(c) and path_ends(callee(c) or "", "inner::Node::new")]
    if not sites:
        raise AnchorMissing("RegexOovProvider::provide_oov: Node::new")
    for c in sites:
        pcs = path_conditions(c["id"], f.hir) or []
        at0, at1, at7 = (holds_at(pcs, ev_start(v)) for v in (0, 1, 7))
        ctx.ob("RegexOovProvider::provide_oov|node-only-at-start", at0 is not False and at1 is False and at7 is False,
               "the candidate node is built when the match starts at 0 / 1 / 7 bytes into the queried text: %s (must be yes / no / no)" % (
                   ["yes" if x is not False else "no" for x in (at0, at1, at7)]), fn=f, site=c.get("sp"))
    ctx.floor(1)
