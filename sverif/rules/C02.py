"""C02 — the chosen segmentation is a minimum-cost lattice path (shape of the Viterbi recurrence)."""
from ..engine import rule
from ..db import (walk, peel, peel_casts, render, callee, path_ends, short_path, is_call, call_args, lit_int,
                  diverges, exit_kind, path_conditions, atoms, AnchorMissing, local_name, CMP_OPS, SWAP)
from ..guards import guarded_exits, mentions, is_call_to, cmp_atom
from ..origins import origins, index as oindex, for_loop_parts, pat_bindings, unwrap_try, resolve_let
from ..uses import consumer

META = {
    "explanation": (
        "The optimality argument for Viterbi rests on structural premises, each decided here on the type-checked code: "
        "(relax-all) connect_node iterates the whole predecessor row and skips only unreachable predecessors; "
        "(recurrence) the candidate cost depends on predecessor total + connection cost + word cost, and every call of the "
        "connection matrix passes (right id of the LEFT node, left id of the RIGHT node) in that order; (min) the "
        "running minimum and back-pointer are updated together under `new < min`; insert stores the returned pair in "
        "three parallel rows at the same index; (order) lattice nodes are created at the ascending loop position, "
        "positions without a predecessor are skipped, EOS is connected after the loop and i32::MAX becomes an error; the "
        "best path is read back from EOS through the stored back-pointers; (matrix-index) the matrix linearisation in the "
        "reader and in the dictionary builder are the same polynomial; (reported-cost) the per-morpheme cost is the "
        "total stored with the lattice node. NOT decided: the induction over values (that the minimum is attained for "
        "every lattice), integer overflow of costs (see C03), tie-breaking."),
    "decided": ["relax-all", "recurrence", "min", "order", "matrix-index", "reported-cost"],
    "not_decided": ["value-level optimality induction", "cost overflow (C03.acc-width)", "tie-breaking"],
}


def _loops(f):
    for n, ps in walk(f.hir):
        fl = for_loop_parts(n) if n.get("k") == "Match" else None
        if fl:
            yield n, fl, ps


def _chain(e):
    """method chain names from the receiver outwards"""
    names = []
    e = peel(e)
    while isinstance(e, dict) and e.get("k") == "MethodCall":
        names.append(e["method"])
        e = peel(e["recv"])
    return list(reversed(names)), e


@rule("C02.relax-all", "Lattice::connect_node iterates the whole of self.ends[begin] (adaptor chain within {iter, enumerate}), has "
                       "no break/return in the loop, and its only `continue` is guarded by !is_connected_to_bos()")
def relax_all(db, ctx):
    f = db.one("connect_node", "Lattice")
    loops = list(_loops(f))
    ctx.ob("connect_node|one-loop", len(loops) == 1, "connect_node has %d for-loops (expected exactly 1)" % len(loops), fn=f)
    for n, (it, pat, body), ps in loops:
        it = resolve_let(db, f, it)       # `let candidates = self.ends[begin].iter()...; for .. in candidates`
        names, base = _chain(it)
        base = resolve_let(db, f, base)   # `let row = &self.ends[begin]; for .. in row.iter()` is the same loop
        # a `.filter(..)` whose predicate is exactly is_connected_to_bos() is the same skip as the `continue` guard
        filt_ok = True
        cur_ = peel(it)
        n_filter = 0
        while isinstance(cur_, dict) and cur_.get("k") == "MethodCall":
            if cur_["method"] == "filter":
                n_filter += 1
                clo = peel(cur_["args"][0]) if cur_["args"] else {}
                bodyc = peel(clo.get("body", {})) if clo.get("k") == "Closure" else {}
                filt_ok = filt_ok and bodyc.get("k") == "MethodCall" and bodyc.get("method") == "is_connected_to_bos"
            cur_ = peel(cur_["recv"])
        names = [x for x in names if not (x == "filter" and filt_ok)]
        base_ok = base.get("k") == "Index" and peel(base["e"]).get("k") == "Field" and peel(base["e"]).get("name") == "ends"
        idx_ok = base_ok and local_name(base["i"]) is not None
        chain_ok = set(names) <= {"iter", "enumerate"} and "iter" in names
        ctx.ob("connect_node|iterates-whole-row", base_ok and idx_ok and chain_ok,
               "predecessor loop iterates `%s` (adaptors %s); must be self.ends[begin] through iter/enumerate only"
               % (render(it), names), fn=f, site=n.get("sp"))
        # index is r_node.begin()
        og = origins(db, f, base["i"]) if base_ok else set()
        ctx.ob("connect_node|row=begin-of-right-node", any(o[0] == "call" and path_ends(o[1], "LatticeNode::begin") for o in og),
               "row index `%s` comes from %s (must be LatticeNode::begin of the node being connected)" % (
                   render(base.get("i")), sorted(short_path(o[1]) for o in og if o[0] == "call")), fn=f)
        brk = [x for x, _ in walk(body) if x.get("k") in ("Break", "Ret")]
        conts = [(x, p2) for x, p2 in walk(body) if x.get("k") == "Continue"]
        ctx.ob("connect_node|no-break", not brk, "loop body contains %d break/return (must be 0)" % len(brk), fn=f)
        if not conts and n_filter == 1 and filt_ok:
            ctx.ob("connect_node|continue-guard", True, "unreachable predecessors are skipped by `.filter(|..| l.is_connected_to_bos())` on the row iterator", fn=f)
        for c, p2 in conts:
            pcs = path_conditions(c["id"], body) or []
            at = [(a, pol) for cnd, pol in pcs if isinstance(cnd, dict) for a, pol in atoms(cnd, pol)]
            ok = len(at) == 1 and peel(at[0][0]).get("k") == "MethodCall" and peel(at[0][0]).get("method") == "is_connected_to_bos" and at[0][1] is False
            ctx.ob("connect_node|continue-guard", ok,
                   "`continue` is guarded by %s (must be exactly !is_connected_to_bos())" % [("" if p else "!") + render(a) for a, p in at], fn=f)
    isc = db.find("is_connected_to_bos")
    for g in isc:
        # PathCost::is_connected_to_bos: total_cost() != i32::MAX
        ok = any(cmp_atom(x) and cmp_atom(x)[0] == "Ne" and (lit_int(cmp_atom(x)[2]) == 2147483647 or lit_int(cmp_atom(x)[1]) == 2147483647)
                 for x, _ in walk(g.hir))
        ctx.ob("%s|ne-i32::MAX" % g.short(), ok, "%s is `total_cost() != i32::MAX`: %s" % (g.short(), render(g.hir)), fn=g)
    ctx.floor(6)


def _matrix_calls(db):
    for f in db.fns.values():
        if f.pkg not in ("sudachi", "sudachipy", "sudachi-cli") or not f.hir:
            continue
        for n, ps in walk(f.hir):
            if is_call(n) and path_ends(callee(n), ("ConnectionMatrix::cost", "Grammar::connect_cost")):
                yield f, n


@rule("C02.recurrence", "candidate cost = predecessor total_cost + connection cost + word cost; every ConnectionMatrix::cost / "
                        "Grammar::connect_cost call passes (right_id of the left node, left_id of the right node)")
def recurrence(db, ctx):
    f = db.one("connect_node", "Lattice")
    ix = oindex(db)
    n_calls = 0
    for g, n in _matrix_calls(db):
        a = call_args(n)
        if len(a) < 3:
            continue
        o0 = {short_path(o[1]).split("::")[-1] for o in origins(db, g, a[1], depth=0) if o[0] == "call"}
        o1 = {short_path(o[1]).split("::")[-1] for o in origins(db, g, a[2], depth=0) if o[0] == "call"}
        p0 = [o[2] for o in origins(db, g, a[1], depth=0) if o[0] == "param"]
        p1 = [o[2] for o in origins(db, g, a[2], depth=0) if o[0] == "param"]
        o0 &= {"right_id", "left_id"}
        o1 &= {"right_id", "left_id"}
        if o0 or o1:
            ok = "right_id" in o0 and "left_id" not in o0 and "left_id" in o1 and "right_id" not in o1
            how = "arg0 from %s, arg1 from %s" % (sorted(o0), sorted(o1))
        elif p0 and p1:
            ok = p0[0] < p1[0]
            how = "forwarded parameters #%s,#%s in order" % (p0, p1)
        else:
            # not a lattice lookup (e.g. the CLI's matrix dump enumerating both axes): out of the rule's scope
            ctx.ob("%s|%s|not-node-ids" % (g.short(), short_path(callee(n))), True,
                   "%s: `%s` does not take its arguments from node ids — not a lattice lookup" % (g.short(), render(n)),
                   fn=g, site=n.get("sp"), nontrivial=False)
            continue
        n_calls += 1
        ctx.ob("%s|%s" % (g.short(), short_path(callee(n))), ok,
               "%s: `%s` — %s (required: right id of left node first, left id of right node second)" % (g.short(), render(n), how),
               fn=g, site=n.get("sp"))
    # the ids' owners in connect_node: arg0 from the loop variable, arg1 from the parameter
    for n, (it, pat, body), ps in _loops(f):
        loopvars = {lid for lid, _ in pat_bindings(pat)}
        for c, _ in walk(body):
            if is_call(c) and path_ends(callee(c), "ConnectionMatrix::cost"):
                a = call_args(c)
                from ..db import deref_let
                r0 = deref_let(peel(unwrap_try(peel_casts(a[1]))))
                r1 = deref_let(peel(unwrap_try(peel_casts(a[2]))))
                own0 = peel(r0.get("recv", {})) if r0.get("k") == "MethodCall" else {}
                own1 = peel(r1.get("recv", {})) if r1.get("k") == "MethodCall" else {}
                ok = own0.get("lid") in loopvars and ix.bindings(f).get(own1.get("lid"), ("",))[0] == "param"
                ctx.ob("connect_node|id-owners", ok, "matrix lookup `%s`: first id is read from the predecessor loop variable, second "
                                                     "from the node parameter: %s" % (render(c), ok), fn=f, site=c.get("sp"))
    # the compared candidate depends on all three terms
    cand = None
    for ifn, ps in ((x, p) for x, p in walk(f.hir) if x.get("k") == "If"):
        c = cmp_atom(ifn["cond"])
        if c and any(_is_min_local(f, s) for s in (c[1], c[2])):
            cand = c[1] if not (_is_min_local(f, c[1])) else c[2]
    if cand is None:
        raise AnchorMissing("connect_node: comparison with the running minimum")
    og = {short_path(o[1]) for o in origins(db, f, cand, depth=0) if o[0] == "call"}
    need = {"PathCost::total_cost": False, "ConnectionMatrix::cost": False, "LatticeNode::cost": False}
    for k in need:
        need[k] = any(path_ends(o, k) or o.endswith(k.split("::")[-1]) and k.split("::")[0] in o for o in og)
    ctx.ob("connect_node|candidate-terms", all(need.values()),
           "candidate `%s` depends on calls %s; required terms present: %s" % (render(cand), sorted(og), need), fn=f)
    ctx.floor(4)


def _place(e):
    """('local', lid) for a local, ('tuple', lid, n) for field n of a tuple-typed local, else None"""
    e = peel_casts(e)
    if not isinstance(e, dict):
        return None
    if e.get("k") == "Path" and e.get("res") == "local":
        return ("local", e["lid"])
    if e.get("k") == "Field" and not e.get("adt") and str(e.get("name", "")).isdigit():
        b = peel(e["e"])
        if b.get("k") == "Path" and b.get("res") == "local":
            return ("tuple", b["lid"], int(e["name"]))
    return None


def _min_places(f):
    """places that hold the running minimum: a `let mut` local initialised with i32::MAX, or the component of a `let mut` tuple
    accumulator whose initial value is i32::MAX"""
    out = set()
    for n, _ in walk(f.hir):
        if n.get("k") == "Let" and "init" in n and n["pat"].get("k") == "Bind":
            init = peel(n["init"])
            if lit_int(init) == 2147483647:
                out.add(("local", n["pat"]["lid"]))
            elif init.get("k") == "Tup":
                for i_, el in enumerate(init["elems"]):
                    if lit_int(el) == 2147483647:
                        out.add(("tuple", n["pat"]["lid"], i_))
    return out


def _is_min_local(f, e):
    """the expression is the running-minimum place"""
    return _place(e) in _min_places(f)


def _updates(f, block, mn):
    """(value assigned to the minimum place `mn` inside block or None, number of other places assigned together with it)"""
    val, others = None, []
    for x, _ in walk(block):
        if x.get("k") != "Assign":
            continue
        pl = _place(x["l"])
        if pl == mn:
            val = x["r"]
        elif mn[0] == "tuple" and pl == ("local", mn[1]) and peel(x["r"]).get("k") == "Tup":
            el = peel(x["r"])["elems"]
            if mn[2] < len(el):
                val = el[mn[2]]
                others += ["%s.%d" % (render(x["l"]), i_) for i_ in range(len(el)) if i_ != mn[2]]
        elif pl is not None:
            others.append(render(x["l"]))
    return val, others


@rule("C02.min", "the running minimum and the back-pointer are assigned together under `new < min` (accepted: <, <=, swapped >, >=); "
                 "connect_node returns them; insert stores (idx,cost) into indices/ends and the node into ends_full at the same row")
def min_rule(db, ctx):
    f = db.one("connect_node", "Lattice")
    found = False
    for ifn, ps in ((x, p) for x, p in walk(f.hir) if x.get("k") == "If"):
        c = cmp_atom(ifn["cond"])
        if not c:
            continue
        op, l, r = c
        if _is_min_local(f, r):
            new, mn, opn = l, r, op
        elif _is_min_local(f, l):
            new, mn, opn = r, l, SWAP[op]
        else:
            continue
        mnp = _place(mn)
        val, others = _updates(f, ifn["then"], mnp)
        if val is None:
            continue  # a comparison with the minimum that does not update it is not the update guard
        found = True
        ok_op = opn in ("Lt", "Le")
        from ..inline import nf
        same_src = nf(val) == nf(new)
        ok = ok_op and same_src and len(others) >= 1 and "else" not in ifn
        ctx.ob("connect_node|update-guard", ok,
               "update `%s`: comparison normalised to new %s min (must be < or <=); min assigned from the compared candidate: %s; "
               "back-pointer(s) assigned in the same block: %s" % (render(ifn["cond"]), opn, same_src, others), fn=f, site=ifn.get("sp"))
        # returned tuple = (back-pointer, min)
        ret = peel(f.hir.get("expr")) if f.hir.get("k") == "Block" else None
        if ret and ret.get("k") == "Tup":
            places = [_place(e) for e in ret["elems"]]
            ctx.ob("connect_node|returns", mnp in places and len([p_ for p_ in places if p_ and p_ != mnp]) >= 1,
                   "connect_node returns %s (must contain the back-pointer and the minimum)" % [render(e) for e in ret["elems"]], fn=f)
        elif ret is not None:
            ctx.ob("connect_node|returns", mnp[0] == "tuple" and _place(ret) == ("local", mnp[1]),
                   "connect_node returns `%s` (must be the (back-pointer, minimum) accumulator)" % render(ret), fn=f)
    if not found:
        raise AnchorMissing("connect_node: `if new < min` update")
    ins = db.one("insert", "Lattice")
    pushes = {}
    for n, ps in walk(ins.hir):
        if n.get("k") == "MethodCall" and n.get("method") == "push":
            r = peel(n["recv"])
            if r.get("k") == "Index" and peel(r["e"]).get("k") == "Field":
                pushes[peel(r["e"])["name"]] = (render(r["i"]), n["args"][0])
    rows = {v[0] for v in pushes.values()}
    ok = set(pushes) >= {"ends", "indices", "ends_full"} and len(rows) == 1
    ctx.ob("insert|parallel-rows", ok, "Lattice::insert pushes into %s at row(s) %s (must be ends, indices, ends_full at one row)" % (
        sorted(pushes), sorted(rows)), fn=ins)
    if ok:
        row_og = set()
        for n, ps in walk(ins.hir):
            if n.get("k") == "Index" and peel(n["e"]).get("name") == "ends":
                row_og = {o[1] for o in origins(db, ins, n["i"], depth=0) if o[0] == "call"}
        ctx.ob("insert|row=end", any(path_ends(x, "LatticeNode::end") for x in row_og),
               "row index comes from %s (must be LatticeNode::end of the inserted node)" % sorted(row_og), fn=ins)
        og_i = {o[1] for o in origins(db, ins, pushes["indices"][1], depth=0) if o[0] == "call"}
        vn = peel(pushes["ends"][1])
        og_cost = set()
        og_rid = set()
        if vn.get("k") == "Call" and len(vn["args"]) == 2:
            og_rid = {o[1] for o in origins(db, ins, vn["args"][0], depth=0) if o[0] == "call"}
            og_cost = {o[1] for o in origins(db, ins, vn["args"][1], depth=0) if o[0] == "call"}
        ctx.ob("insert|stores-connect-result",
               any(path_ends(x, "connect_node") for x in og_i) and any(path_ends(x, "connect_node") for x in og_cost) and any(path_ends(x, "RightId::right_id") for x in og_rid),
               "indices row gets %s, VNode gets right id from %s and total from %s (must be connect_node's pair and the node's right_id)"
               % (sorted(og_i), sorted(og_rid), sorted(og_cost)), fn=ins)
    ctx.floor(4)


@rule("C02.order", "build_lattice creates dictionary nodes at the ascending loop position, skips positions without a predecessor, "
                   "connects EOS after the loop with `?`; connect_eos turns i32::MAX into Err; fill_top_path walks back-pointers from EOS")
def order(db, ctx):
    f = db.one("build_lattice", "LatticeBuilder")
    loops = [(n, fl, ps) for n, fl, ps in _loops(f) if not any(p.get("k") == "Match" and p.get("src") == "ForLoopDesugar" for p in ps)]
    if not loops:
        raise AnchorMissing("build_lattice outer loop")
    n, (it, pat, body), ps = loops[0]
    names, base = _chain(it)
    ok = "enumerate" in names and "rev" not in names and base.get("k") in ("MethodCall", "Call") or (base.get("k") == "MethodCall")
    src = render(it)
    ctx.ob("build_lattice|ascending-enumerate", "enumerate" in names and not ({"rev", "skip", "step_by", "take", "filter"} & set(names)) and "curr_byte_offsets" in src,
           "outer loop iterates `%s` (must be an ascending enumerate over curr_byte_offsets())" % src, fn=f, site=n.get("sp"))
    pb = pat_bindings(pat)
    pos_lid = pb[0][0] if pb else None
    # skip guard
    ok_skip = False
    for c, p2 in walk(body):
        if c.get("k") == "Continue":
            pcs = path_conditions(c["id"], body) or []
            for cnd, pol in pcs:
                if isinstance(cnd, dict):
                    for a, pl in atoms(cnd, pol):
                        a2 = peel(a)
                        if a2.get("k") == "MethodCall" and a2.get("method") == "has_previous_node" and pl is False:
                            ok_skip = True
    ctx.ob("build_lattice|skip-unreachable", ok_skip, "positions with !has_previous_node(pos) are skipped with continue: %s" % ok_skip, fn=f)
    # Node::new begin arg from loop position (possibly inside a private helper called from the loop body)
    n_nodes = 0
    for c, p2 in walk(body):
        if is_call(c) and path_ends(callee(c), "inner::Node::new"):
            a0 = peel_casts(c["args"][0])
            n_nodes += 1
            ctx.ob("build_lattice|node-begin=position", a0.get("lid") == pos_lid,
                   "Node::new begin argument `%s` is the loop position variable: %s" % (render(c["args"][0]), a0.get("lid") == pos_lid), fn=f, site=c.get("sp"))
    if n_nodes == 0:
        for call, ps2, g in db.private_helpers(f):
            if not any(x is call for x, _ in walk(body)):
                continue
            plist = g.info.get("params") or []
            for c, _ in walk(g.hir):
                if is_call(c) and path_ends(callee(c), "inner::Node::new"):
                    a0 = peel_casts(c["args"][0])
                    idx = next((i for i, p_ in enumerate(plist) if p_.get("lid") == a0.get("lid")), None)
                    args = call_args(call)
                    ok_h = idx is not None and idx < len(args) and peel_casts(args[idx]).get("lid") == pos_lid
                    n_nodes += 1
                    ctx.ob("build_lattice|node-begin=position", ok_h,
                           "Node::new (in helper %s) takes begin from parameter #%s, which the loop passes as `%s` — the loop position variable: %s" % (
                               g.short(), idx, render(args[idx]) if idx is not None and idx < len(args) else None, ok_h), fn=g, site=c.get("sp"))
    if n_nodes == 0:
        raise AnchorMissing("build_lattice: dictionary-node construction")
    # connect_eos after loop, with ?
    eos = [(c, p2) for c, p2 in walk(f.hir) if is_call(c) and path_ends(callee(c), "Lattice::connect_eos")]
    ok_eos = False
    for c, p2 in eos:
        inside_loop = any(p.get("k") == "Loop" for p in p2)
        ok_eos = (not inside_loop) and consumer(c, p2)[0] == "try"
    ctx.ob("build_lattice|connect_eos-after-loop", ok_eos, "connect_eos is called once after the loop and its Result propagated with `?`: %s" % ok_eos, fn=f)
    ce = db.one("connect_eos", "Lattice")
    ok = False
    for ifn, p2 in ((x, p) for x, p in walk(ce.hir) if x.get("k") == "If"):
        c = cmp_atom(ifn["cond"])
        if c and c[0] == "Eq" and (lit_int(c[1]) == 2147483647 or lit_int(c[2]) == 2147483647):
            t = peel(ifn["then"])
            ok = t.get("k") == "Call" and path_ends(t.get("callee"), ("Err", "Result::Err")) or exit_kind(ifn["then"]) == "err"
    ctx.ob("connect_eos|unreachable-is-error", ok, "connect_eos returns Err when the connected cost equals i32::MAX: %s" % ok, fn=ce)
    ft = db.one("fill_top_path", "Lattice")
    uses_eos = mentions(ft.hir, lambda x: x.get("k") == "Field" and x.get("name") == "eos")
    follows = mentions(ft.hir, lambda x: x.get("k") == "Index" and mentions(x, lambda y: y.get("k") == "Field" and y.get("name") == "indices"))
    ctx.ob("fill_top_path|from-eos-through-indices", uses_eos and follows,
           "fill_top_path starts from self.eos (%s) and follows self.indices[..][..] (%s)" % (uses_eos, follows), fn=ft)
    ctx.floor(6)


def poly(db, f, e, depth=0):
    """sum-of-products normal form of an integer expression: {tuple(sorted factor names)): coeff}"""
    from ..db import diverges
    e = peel_casts(unwrap_try(peel_casts(e)))
    k = e.get("k")
    # the value of a block is its tail; the value of an `if` one of whose branches leaves the function is the other branch
    if k == "Block" and "expr" in e and depth < 24:
        return poly(db, f, e["expr"], depth + 1)
    if k == "If" and "else" in e and depth < 24:
        live = [b for b in (e["then"], e["else"]) if not diverges(b)]
        if len(live) == 1:
            return poly(db, f, live[0], depth + 1)
    if k == "Binary" and e["op"] == "Add":
        a, b = poly(db, f, e["l"], depth), poly(db, f, e["r"], depth)
        out = dict(a)
        for t, c in b.items():
            out[t] = out.get(t, 0) + c
        return out
    if k == "Binary" and e["op"] == "Mul":
        a, b = poly(db, f, e["l"], depth), poly(db, f, e["r"], depth)
        out = {}
        for t1, c1 in a.items():
            for t2, c2 in b.items():
                t = tuple(sorted(t1 + t2))
                out[t] = out.get(t, 0) + c1 * c2
        return out
    v = lit_int(e)
    if v is not None:
        return {(): v}
    if k == "Path" and e.get("res") == "def" and isinstance(e.get("val"), int):
        return {(): e["val"]}          # a named constant
    if k == "Field":
        return {("field:" + e["name"],): 1}
    if k == "Path" and e.get("res") == "local":
        b = oindex(db).bindings(f).get(e["lid"])
        if b and b[0] == "let" and b[1] is not None and depth < 24:
            return poly(db, f, b[1], depth + 1)
        if b and b[0] == "param":
            # parameters by POSITION (self excluded), not by name
            ps_ = [p_.get("lid") for p_ in (f.info.get("params") or []) if isinstance(p_, dict) and p_.get("name") != "self"]
            return {("param:#%d" % ps_.index(e["lid"]) if e["lid"] in ps_ else "param:" + e["name"],): 1}
    return {("?" + render(e),): 1}


@rule("C02.matrix-index", "ConnectionMatrix::index (reader) and ConnBuffer::write_elem (builder) linearise (left,right) with the same "
                          "polynomial right*num_left+left (builder in bytes = 2x); cost and update both go through index")
def matrix_index(db, ctx):
    rd = db.one("index", "ConnectionMatrix")
    ret = rd.hir.get("expr")
    p_rd = poly(db, rd, ret)
    want = {("field:num_left", "param:#1"): 1, ("param:#0",): 1}            # index(left = #0, right = #1)
    ctx.ob("ConnectionMatrix::index|polynomial", p_rd == want, "reader index = %s (expected right*num_left + left)" % _fmt(p_rd), fn=rd)
    wr = db.view(db.one("write_elem", "ConnBuffer"))
    sites = [n for n, _ in walk(wr.hir) if n.get("k") == "Index" and peel(n["e"]).get("name") == "matrix"]
    polys = sorted((_fmt(poly(db, wr, s["i"])) for s in sites))
    want_b = {("field:num_left", "param:#1"): 2, ("param:#0",): 2}
    want_b1 = dict(want_b)
    want_b1[()] = 1
    got = [poly(db, wr, s["i"]) for s in sites]
    ok = len(sites) == 2 and want_b in got and want_b1 in got
    ctx.ob("ConnBuffer::write_elem|polynomial", ok, "builder byte indices = %s (expected 2*(right*num_left+left) and +1)" % polys, fn=wr)
    for nm in ("cost", "update"):
        g = db.one(nm, "ConnectionMatrix")
        uses = [c for c, _ in walk(g.hir) if is_call(c) and path_ends(callee(c), "ConnectionMatrix::index")]
        arg_order = None
        if uses:
            a = call_args(uses[0])
            from ..inline import pcanon
            arg_order = [pcanon(g, local_name(x), "left", "right") for x in a[1:3]]
        ctx.ob("ConnectionMatrix::%s|via-index" % nm, len(uses) == 1 and arg_order == ["left", "right"],
               "ConnectionMatrix::%s computes its offset through index(%s)" % (nm, arg_order), fn=g)
    ctx.floor(4)


def _fmt(p):
    return " + ".join(("%d*" % c if c != 1 else "") + ("*".join(t) if t else "1") for t, c in sorted(p.items()))


@rule("C02.reported-cost", "ResultNode.total_cost in resolve_best_path is the cost stored with the lattice node (second component of "
                           "Lattice::node), which reads VNode.total_cost of the same (end,index)")
def reported_cost(db, ctx):
    f = db.one("resolve_best_path", "StatefulTokenizer")
    done = False
    for c, ps in walk(f.hir):
        if is_call(c) and path_ends(callee(c), "ResultNode::new"):
            a = call_args(c)
            nm = local_name(a[1])
            ok = False
            for n, _ in walk(f.hir):
                if n.get("k") == "Let" and n["pat"].get("k") == "Tuple" and "init" in n:
                    pats = n["pat"]["pats"]
                    if len(pats) == 2 and pats[1].get("name") == nm and is_call(peel(n["init"])) and path_ends(callee(peel(n["init"])), "Lattice::node"):
                        ok = True
            done = True
            ctx.ob("resolve_best_path|cost-from-lattice", ok, "ResultNode::new total-cost argument `%s` is the second component of Lattice::node(pid): %s"
                   % (render(a[1]), ok), fn=f, site=c.get("sp"))
    if not done:
        raise AnchorMissing("resolve_best_path: ResultNode::new")
    g = db.one("node", "Lattice")
    ret = peel(g.hir.get("expr"))
    ok = False
    if ret and ret.get("k") == "Tup" and len(ret["elems"]) == 2:
        og = origins(db, g, ret["elems"][1], depth=0)
        ok = any(o[0] == "field" and o[2] == "total_cost" for o in og)
    ctx.ob("Lattice::node|returns-total_cost", ok, "Lattice::node returns (node, VNode.total_cost): %s" % ok, fn=g)


_CHOICE_GROUNDS = ("get_word_param", "::cost", "::left_id", "::right_id", "::total_cost", "PathCost", "RightId", "LeftId")
_TRUNCATING = {"take", "skip", "step_by", "take_while", "skip_while", "map_while", "nth", "last", "next", "find", "rev"}


@rule("C02.all-candidates", "every dictionary word the lexicon returns at a reachable position becomes a lattice node: inside the look-up loop of "
                            "build_lattice, Lattice::insert may be conditioned only on the text (the word-boundary test on the entry's end) — never on "
                            "a cost, a connection id, the nodes collected so far or the lattice; the candidate stream is not truncated. A 'dominated "
                            "homograph' shortcut removes the node the minimum-cost path may need (its RIGHT id decides what follows)")
def all_candidates(db, ctx):
    from ..loops import iterations, chain, filter_atoms
    from ..db import deref_all
    f = db.view(db.one("build_lattice", "LatticeBuilder"), keep=("provide_oovs",))
    found = 0

    def grounds(e):
        """why a condition is not a pure text test: the costs / ids / collected nodes it looks at"""
        out = set()
        for x, _ in walk(deref_all(e) if isinstance(e, dict) else {}):
            if x.get("k") == "Field" and x.get("name") in ("node_buffer", "lattice", "matrix"):
                out.add("self." + x["name"])
            if is_call(x) and any(s in (callee(x) or "") for s in _CHOICE_GROUNDS):
                out.add(short_path(callee(x)))
            if x.get("k") == "Path" and x.get("res") == "local" and "CreatedWords" in (x.get("ty") or ""):
                out.add("created words")
            if x.get("k") == "Path" and x.get("res") == "local" and "let_init" not in x and x.get("lid") in param_lids:
                out.add("word parameter `%s`" % x.get("name"))
        return out
    for itn in iterations(f.hir):
        names, base = chain(db, f, itn["it"])
        base = peel(base)
        is_lookup = lambda x: isinstance(x, dict) and is_call(x) and path_ends(callee(x) or "", ("LexiconSet::lookup", "Lexicon::lookup"))
        at = [i for i, (_, c_) in enumerate(names) if is_lookup(c_)]
        if at:
            names = names[at[-1] + 1:]
        elif not is_lookup(base):
            continue
        body = itn["body"]
        # locals bound (by tuple destructuring) from get_word_param carry costs / ids
        param_lids = set()
        for n, _ in walk(body):
            if n.get("k") == "Let" and "init" in n and any(is_call(x) and "get_word_param" in (callee(x) or "") for x, _ in walk(n["init"])):
                param_lids |= {b[0] for b in pat_bindings(n["pat"])}
        inserts = [c for c, _ in walk(body) if is_call(c) and path_ends(callee(c) or "", "Lattice::insert")]
        found += len(inserts)
        trunc = sorted({m for m, _ in names} & _TRUNCATING)
        ctx.ob("build_lattice|lookup-stream-complete", not trunc, "adaptors that cut the stream of looked-up entries short: %s" % trunc, fn=f, site=itn["node"].get("sp"))
        conds = []
        for m, call in names:
            if m in ("filter", "filter_map"):
                conds += [(a, p) for a, p in (filter_atoms(call) or [({"k": "?", "id": None}, True)])]
        for c in inserts:
            bad = set()
            for cnd, pol in (path_conditions(c["id"], body) or []) + conds:
                if isinstance(cnd, tuple) and cnd and cnd[0] == "arm":
                    bad |= grounds(cnd[1])
                elif isinstance(cnd, dict):
                    bad |= grounds(cnd)
            ctx.ob("build_lattice|insert-only-text-conditioned", not bad,
                   "Lattice::insert of a looked-up word is conditioned on: %s (only the word-boundary test on the text may discard a candidate)" % (sorted(bad) or "text only"),
                   fn=f, site=c.get("sp"))
        for n, ps in walk(body):
            if n.get("k") == "Break" and not any(p.get("k") == "Loop" or (p.get("k") == "Match" and p.get("src") == "ForLoopDesugar") or p.get("k") == "Closure" for p in ps):
                ctx.ob("build_lattice|no-early-exit", False, "the look-up loop is left early by `break`: later candidates never reach the lattice", fn=f, site=n.get("sp"))
    if not found:
        raise AnchorMissing("build_lattice: Lattice::insert inside the lexicon look-up loop")
    ctx.floor(2)


@rule("C02.no-stale-lattice", "costs and back-pointers are computed from the rows of the CURRENT sentence only: every growable field of the lattice (rows, "
                              "memo tables) is emptied on the reset path (re-evaluation of C10.kill-grow)")
def no_stale_lattice(db, ctx):
    from . import C10
    C10.kill_grow(db, ctx)
