"""C09 — modes A and B refine mode C with exactly the dictionary's split units."""
from ..engine import rule
from ..db import (walk, peel, peel_casts, render, callee, path_ends, short_path, is_call, call_args, lit_int,
                  exit_kind, path_conditions, atoms, AnchorMissing, local_name)
from ..guards import guarded_exits, mentions, is_call_to, cmp_atom
from ..origins import origins, for_loop_parts, index as oindex
from ..wimodel import flag_names
from .C02 import _loops, _chain
from .C11 import _normalize_rules

META = {
    "explanation": (
        "(split-guard) split_path returns the path unchanged for Mode::C, pushes nodes with at most one declared unit unchanged and "
        "otherwise extends the result with node.split(..); it iterates the whole path in order and does nothing else to it; "
        "(pairing) Mode::A<->SPLIT_A<->a_unit_split and Mode::B<->SPLIT_B<->b_unit_split are paired identically in set_mode, "
        "set_subset, ResultNode::num_splits and ResultNode::split (the parser and the fix-up pairings are C05.field-flag / "
        "C11.fixups); (offsets) the split iterator starts at the parent's begin (bytes and characters), each unit ends at "
        "start + head_word_length() mapped through ch_idx, the last unit inherits the parent's end, offsets advance by "
        "assignment from the computed ends; (closure) the split flags pull HEAD_WORD_LENGTH, set_mode ORs the mode's flag "
        "into the subset and set_subset re-adds it after normalising; (shared-input) split_into assigns the parent's input "
        "to the output list before pushing, builds the iterator from the parent's input/subset, and the zero-unit branch "
        "pushes nothing and returns Ok(false). NOT decided: that sub-tokens are exactly the declared units for all "
        "dictionaries (their key lengths are dictionary data)."),
    "decided": ["split-guard", "pairing", "offsets", "closure", "shared-input"],
    "not_decided": ["value-level equality of sub-tokens with declared units for arbitrary dictionaries"],
}


def _arm_map(node):
    """{pattern last segment: body node} for a match"""
    out = {}
    for a in node["arms"]:
        pth = (a["pat"].get("e") or {}).get("path") or a["pat"].get("path") or ("_" if a["pat"].get("k") == "Wild" else "?")
        out[pth.split("::")[-1]] = a["body"]
    return out


def _mode_flag_expr(db, f, e):
    """`e` (in function f) is the expression that maps a Mode to its split flag: a match on a Mode value, or a call to a private
    helper whose body is such a match on one of its parameters.  Returns (scrutinee text in f's terms, {arm: flag set}) or None."""
    from ..db import deref_let
    from ..inline import nf
    e = deref_let(e)
    if not isinstance(e, dict):
        return None
    if e.get("k") == "Match" and e.get("src") == "Normal":
        am = _arm_map(e)
        if "A" in am and "B" in am:
            return nf(e["scrut"]), {k: flag_names(v) for k, v in am.items()}
        return None
    if is_call(e):
        g = None
        for k in (e.get("resolved"), e.get("callee"), callee(e)):
            if k and k in db.fns:
                g = db.fns[k]
                break
        if g is None or not g.hir or g.trait or g.info.get("vis") == "Public":
            return None
        body = peel(g.hir)
        while isinstance(body, dict) and body.get("k") == "Block" and not body.get("stmts") and "expr" in body:
            body = peel(body["expr"])
        if isinstance(body, dict) and body.get("k") == "Match" and body.get("src") == "Normal":
            am = _arm_map(body)
            sc = peel(body["scrut"])
            if "A" in am and "B" in am and sc.get("k") == "Path" and sc.get("res") == "local":
                bd = oindex(db).bindings(g).get(sc["lid"])
                args = call_args(e)
                if bd and bd[0] == "param" and bd[1] < len(args):
                    return nf(args[bd[1]]), {k: flag_names(v) for k, v in am.items()}
            elif "A" in am and "B" in am and nf(sc).startswith("self.") and call_args(e) and nf(call_args(e)[0]) == "self":
                # a `&self` helper that looks at a field of the same object
                return nf(sc), {k: flag_names(v) for k, v in am.items()}
    return None


def _mode_flag_exprs(db, f):
    out = []
    for n, _ in walk(f.hir):
        if n.get("k") == "Match" or is_call(n):
            r = _mode_flag_expr(db, f, n)
            if r:
                out.append((n, r))
    return out


@rule("C09.split-guard", "split_path: Mode::C returns the path unchanged; nodes with <=1 unit are pushed unchanged, others are replaced by "
                         "node.split(..); a plain in-order loop, no other mutation")
def split_guard(db, ctx):
    f = db.one("split_path", None)
    early = any(pol and ek in ("ok", "ret") and "Mode::C" in render(cond) and cmp_atom(cond) and cmp_atom(cond)[0] == "Eq" for ifn, cond, pol, ek, ps in guarded_exits(f.hir))
    ctx.ob("mode-C-unchanged", early, "`if mode == Mode::C { return Ok(path) }`: %s" % early, fn=f)
    from ..flow import reachable_at, is_local_from_call
    isv = is_local_from_call("ResultNode::num_splits")
    loops = list(_loops(f))
    ok = False
    detail = ""
    if len(loops) == 1:
        n, (it, pat, body), ps = loops[0]
        from ..db import param_roles, is_local
        plain = is_local(it, param_roles(f, {"path": lambda t: "Vec<" in t and "ResultNode" in t}).get("path"))
        node_lids = {l for l, _ in __import__("sverif.origins", fromlist=["pat_bindings"]).pat_bindings(pat)}
        pushes = [x for x, _ in walk(body) if x.get("k") == "MethodCall" and x.get("method") == "push" and peel(x["args"][0]).get("lid") in node_lids]
        exts = [x for x, _ in walk(body) if x.get("k") == "MethodCall" and x.get("method") == "extend" and mentions(x, is_call_to("ResultNode::split"))]
        muts = sorted(x["method"] for x, _ in walk(body) if x.get("k") == "MethodCall" and x.get("method") in ("push", "extend", "insert", "remove", "pop", "clear", "truncate", "drain", "retain"))
        if len(pushes) == 1 and len(exts) == 1:
            # the node is kept unchanged exactly when it declares 0 or 1 unit, and replaced by its units from 2 on
            p0, p1, p2 = (reachable_at(body, pushes[0]["id"], isv, v) for v in (0, 1, 2))
            e1, e2, e5 = (reachable_at(body, exts[0]["id"], isv, v) for v in (1, 2, 5))
            ok = plain and p0 is True and p1 is True and p2 is False and e1 is False and e2 is True and e5 is True and muts == ["extend", "push"]
            detail = "loop over `%s`; push(node) reachable at num_splits=0,1,2: %s,%s,%s; extend(split) reachable at 1,2,5: %s,%s,%s; mutations=%s" % (
                render(it), p0, p1, p2, e1, e2, e5, muts)
        else:
            detail = "%d unchanged pushes, %d extend(split) calls" % (len(pushes), len(exts))
        no_exit = not any(x.get("k") == "Break" for x, _ in walk(body))
        ok = ok and no_exit
    ctx.ob("loop-shape", ok, "split_path loop: %s" % detail, fn=f)
    ns = [c for c, _ in walk(f.hir) if is_call(c) and path_ends(callee(c), "ResultNode::num_splits")]
    sp = [c for c, _ in walk(f.hir) if is_call(c) and path_ends(callee(c), "ResultNode::split")]
    from ..inline import nf as _nfm
    mode_lid = param_roles(f, {"mode": lambda t: t.endswith("Mode")}).get("mode")
    same_mode = bool(ns) and bool(sp) and is_local(call_args(ns[0])[1], mode_lid) and is_local(call_args(sp[0])[1], mode_lid)
    ctx.ob("same-mode", same_mode, "num_splits and split receive the same `mode`: %s" % same_mode, fn=f)
    # the units are loaded with the caller's field subset, un-narrowed: a B unit that itself declares A units must keep its split
    # list (refining a mode-B result on demand must agree with mode A)
    sub_lid = param_roles(f, {"subset": lambda t: t.endswith("InfoSubset")}).get("subset")
    from ..db import deref_all as _da
    arg = _da(call_args(sp[0])[3]) if sp and len(call_args(sp[0])) > 3 else None
    whole = arg is not None and is_local(arg, sub_lid)
    ctx.ob("units-keep-caller-subset", whole, "ResultNode::split(.., subset = `%s`, ..): the caller's subset itself: %s" % (render(arg) if arg is not None else None, whole), fn=f)


def ev_mode(m):
    def pat_mode(p):
        pth = ((p or {}).get("e") or {}).get("path") or (p or {}).get("path") or ""
        return pth.split("::")[-1] if "Mode::" in pth else ("_" if (p or {}).get("k") == "Wild" else None)

    def ev(atom):
        if isinstance(atom, tuple):
            pm = pat_mode(atom[2])
            if pm == "_":
                return None
            return (pm == m) if pm else None
        a = peel(atom)
        if a.get("k") == "LetExpr":
            pm = pat_mode(a.get("pat"))
            return (pm == m) if pm and pm != "_" else None
        c = cmp_atom(a)
        if c and c[0] in ("Eq", "Ne"):
            for x in (c[1], c[2]):
                px = peel(x)
                if px.get("k") == "Path" and "Mode::" in (px.get("path") or ""):
                    eq = px["path"].split("::")[-1] == m
                    return eq if c[0] == "Eq" else (not eq)
        return None
    return ev


@rule("C09.pairing", "Mode::A<->SPLIT_A<->a_unit_split and Mode::B<->SPLIT_B<->b_unit_split agree across set_mode, set_subset, num_splits, split")
def pairing(db, ctx):
    want_flag = {"A": {"SPLIT_A"}, "B": {"SPLIT_B"}}
    for nm in ("set_mode", "set_subset"):
        f = db.one(nm, "StatefulTokenizer")
        ok = False
        got = {}
        scr = None
        for m, (sc, mp) in _mode_flag_exprs(db, f):
            got = mp
            scr = sc
            ok = got.get("A") == want_flag["A"] and got.get("B") == want_flag["B"] and all(v == set() for k, v in got.items() if k not in ("A", "B"))
        ctx.ob("%s|mode->flag" % nm, ok, "%s maps %s (must be A->SPLIT_A, B->SPLIT_B, otherwise empty)" % (nm, {k: sorted(v) for k, v in got.items()}), fn=f)
        # which mode is matched: set_mode must look at the NEW mode (its parameter), set_subset at the tokenizer's current mode
        want_scr = "mode" if nm == "set_mode" else "self.mode"
        from ..inline import pcanon
        scr = pcanon(f, scr, "mode") if nm == "set_mode" else scr            # the parameter by position, whatever it is called
        ctx.ob("%s|matches-%s" % (nm, "new-mode" if nm == "set_mode" else "current-mode"), scr == want_scr,
               "%s matches on `%s` (must be `%s`: %s)" % (nm, scr, want_scr, "the mode being set — matching the old mode adds the old mode's split list and the new mode's "
                                                         "units are never loaded under a restricted field subset" if nm == "set_mode" else "the tokenizer's mode"), fn=f)
    # which unit list is read in which mode: reachability of each accessor call at mode = A / B / C (match arms, if-let chains, ==)
    from ..flow import holds_at
    from ..inline import nf as _nf

    for nm in ("num_splits", "split"):
        f = db.view(db.one(nm, "ResultNode"))
        calls = [(c, ps) for c, ps in walk(f.hir) if c.get("k") == "MethodCall" and c.get("method") in ("a_unit_split", "b_unit_split")]
        got = {}
        for m in ("A", "B", "C"):
            got[m] = sorted({c["method"] for c, ps in calls if holds_at(path_conditions(c["id"], f.hir) or [], ev_mode(m)) is not False})
        ok = got == {"A": ["a_unit_split"], "B": ["b_unit_split"], "C": []}
        ctx.ob("ResultNode::%s|mode->field" % nm, ok, "ResultNode::%s reads %s (must be A->a_unit_split, B->b_unit_split, C->nothing)" % (nm, got), fn=f)
    ctx.floor(4)


@rule("C09.offsets", "split iterator: starts at the parent's begin, unit end = start + head_word_length() mapped by ch_idx, last unit inherits "
                     "the parent's end, offsets advance from the computed ends")
def offsets(db, ctx):
    sp = db.one("split", "ResultNode")
    init = None
    for n, _ in walk(sp.hir):
        if n.get("k") == "Struct" and (n.get("path") or "").endswith("NodeSplitIterator"):
            from ..flow import select as _sel
            from ..inline import nf as _nfi
            init = {x["name"]: _nfi(_sel(db, sp, x["e"], lambda a: None)) for x in n["fields"] if "e" in x}
    # `subset` must be handed on unchanged: the units' head_word_length is parsed only if the fields up to it are requested
    want = {"byte_offset": "self.begin_bytes", "byte_end": "self.end_bytes", "char_offset": "self.begin()", "char_end": "self.end()", "subset": "subset"}
    ok = init is not None and all(init.get(k) == v for k, v in want.items()) and init.get("index") == "0"
    ctx.ob("split|iterator-init", ok, "NodeSplitIterator is initialised with %s (must be %s, index 0)" % ({k: (init or {}).get(k) for k in list(want) + ["index"]}, want), fn=sp)
    fs = [f for f in db.impls_of("Iterator::next") if "NodeSplitIterator" in f.key]
    if len(fs) != 1:
        raise AnchorMissing("<NodeSplitIterator as Iterator>::next")
    f = fs[0]
    f = db.view(f)
    from ..inline import nf as _nf
    from ..flow import select
    import re as _re

    def ev_last(is_last):
        def ev(atom):
            c = cmp_atom(atom)
            if c and c[0] in ("Eq", "Ne") and {_nf(c[1]), _nf(c[2])} == {"(1 + self.index)", "self.splits.len()"}:
                return is_last if c[0] == "Eq" else (not is_last)
            return None
        return ev
    node_call = [c for c, _ in walk(f.hir) if is_call(c) and path_ends(callee(c), "inner::Node::new")]
    res_call = [c for c, _ in walk(f.hir) if is_call(c) and path_ends(callee(c), "ResultNode::new")]
    if len(node_call) != 1 or len(res_call) != 1:
        raise AnchorMissing("NodeSplitIterator::next: Node::new / ResultNode::new")
    na, ra = call_args(node_call[0]), call_args(res_call[0])
    ends = {}
    for is_last in (True, False):
        ends[is_last] = (_nf(select(db, f, na[1], ev_last(is_last))), _nf(select(db, f, ra[3], ev_last(is_last))))
    HW = r"\(self\.byte_offset \+ .+\.head_word_length\(\)\)|\(.+\.head_word_length\(\) \+ self\.byte_offset\)"
    last_ok = ends[True] == ("self.char_end", "self.byte_end")
    inner_ok = _re.fullmatch(HW, ends[False][1]) is not None and ends[False][0] == "self.text.ch_idx(%s)" % ends[False][1]
    ctx.ob("next|last-unit-inherits-parent-end", last_ok,
           "when (index + 1 == splits.len()) the emitted node ends at chars `%s`, bytes `%s` (the last unit must take (self.char_end, self.byte_end))" % ends[True], fn=f)
    ctx.ob("next|inner-unit-end", inner_ok, "otherwise it ends at chars `%s`, bytes `%s` (must be text.ch_idx(byte_start + head_word_length()), byte_start + "
                                           "head_word_length())" % ends[False], fn=f)
    # the stored offsets advance to exactly the emitted ends
    adv_ok = True
    adv = {}
    for n, _ in walk(f.hir):
        if n.get("k") == "Assign" and peel(n["l"]).get("k") == "Field" and peel(n["l"]).get("name") in ("char_offset", "byte_offset"):
            nm = peel(n["l"])["name"]
            for is_last in (True, False):
                got = _nf(select(db, f, n["r"], ev_last(is_last)))
                adv[(nm, is_last)] = got
                adv_ok = adv_ok and got == ends[is_last][0 if nm == "char_offset" else 1]
    ctx.ob("next|advance", adv_ok and len(adv) == 4, "offsets advance to the emitted ends: %s" % adv, fn=f)
    starts = (_nf(na[0]), _nf(ra[2]))
    ctx.ob("next|emitted-ranges", starts == ("self.char_offset", "self.byte_offset"),
           "emitted node starts at chars `%s`, bytes `%s` (must be the offsets stored by the previous unit: self.char_offset, self.byte_offset)" % starts, fn=f)
    idx = any(n.get("k") == "AssignOp" and n.get("op") == "Add" and _nf(n["l"]) == "self.index" and lit_int(n["r"]) == 1 for n, _ in walk(f.hir)) or \
        any(n.get("k") == "Assign" and _nf(n["l"]) == "self.index" and _nf(n["r"]) == "(1 + self.index)" for n, _ in walk(f.hir))

    def _is_stop(cond):
        c = cmp_atom(cond)
        if not c:
            return False
        op, l, r = c
        if op in ("Le", "Lt"):
            op, l, r = {"Le": "Ge", "Lt": "Gt"}[op], r, l
        return op == "Ge" and _nf(l) == "self.index" and _nf(r) == "self.splits.len()"
    stop = any(pol and ek in ("none", "ret") and _is_stop(cond) for ifn, cond, pol, ek, ps in guarded_exits(f.hir))
    # `self.splits.get(self.index)?` is the same stop: None when the index is past the end
    from ..uses import consumer
    for c, ps in walk(f.hir):
        if c.get("k") == "MethodCall" and c.get("method") == "get" and _nf(c["recv"]) == "self.splits" and c["args"] and _nf(c["args"][0]) == "self.index" \
                and consumer(c, ps)[0] == "try":
            stop = True
    ctx.ob("next|index", idx and stop, "index advances by one per unit (%s) and None once index >= splits.len() (%s)" % (idx, stop), fn=f)


@rule("C09.closure", "SPLIT_A|SPLIT_B => HEAD_WORD_LENGTH in normalize(); set_mode ORs the mode flag into self.subset; set_subset re-adds it after normalize()")
def closure(db, ctx):
    nf, nrules = _normalize_rules(db)
    hw = any(m == "intersects" and {"SPLIT_A", "SPLIT_B"} <= ante and "HEAD_WORD_LENGTH" in cons for m, ante, cons in nrules)
    ctx.ob("normalize|split=>head_word_length", hw, "normalize(): %s" % [(m, sorted(a), sorted(c)) for m, a, c in nrules], fn=nf)
    sm = db.one("set_mode", "StatefulTokenizer")
    ok = any(n.get("k") == "AssignOp" and n.get("op") == "BitOr" and "subset" in render(n["l"]) for n, _ in walk(sm.hir))
    ctx.ob("set_mode|ors-flag", ok, "set_mode does `self.subset |= <mode flag>`: %s" % ok, fn=sm)
    ss = db.one("set_subset", "StatefulTokenizer")
    from ..inline import pnames
    _ss_param = (pnames(ss) + [None])[0]
    from ..db import walk_x, deref_let
    isM = lambda x: (x.get("k") == "Match" or is_call(x)) and _mode_flag_expr(db, ss, x) is not None
    is_norm = lambda x: x.get("k") == "MethodCall" and x.get("method") == "normalize" and any(isM(y) for y, _ in walk_x(x["recv"])) \
        and any(local_name(y) is not None and local_name(y) == _ss_param for y, _ in walk_x(x["recv"]))
    norm = any(is_norm(c) for c, _ in walk(ss.hir))
    readd = False

    def _or_operands(e):
        e = deref_let(e)
        if isinstance(e, dict) and e.get("k") == "Binary" and e.get("op") == "BitOr":
            return _or_operands(e["l"]) + _or_operands(e["r"])
        return [e]
    stores = [call_args(c)[1] for c, _ in walk(ss.hir) if is_call(c) and path_ends(callee(c), "mem::replace") and len(call_args(c)) > 1 and "subset" in render(call_args(c)[0])]
    stores += [n["r"] for n, _ in walk(ss.hir) if n.get("k") == "Assign" and render(n["l"]).endswith(".subset")]
    for v in stores:
        ops = _or_operands(v)
        readd = len(ops) >= 2 and any(isM(o) for o in ops if isinstance(o, dict)) and any(is_norm(o) for o in ops if isinstance(o, dict))
    ctx.ob("set_subset|normalise-and-readd", norm and readd, "set_subset normalises (subset | mode flag) (%s) and stores <normalised> | mode flag (%s)" % (norm, readd), fn=ss)
    nx = [f for f in db.impls_of("Iterator::next") if "NodeSplitIterator" in f.key]
    reads = nx and any(c.get("k") == "MethodCall" and c.get("method") == "head_word_length" for c, _ in walk(db.view(nx[0]).hir))
    ctx.ob("next|reads-head_word_length", bool(reads), "NodeSplitIterator::next reads head_word_length() (hence the closure requirement): %s" % bool(reads))


@rule("C09.shared-input", "MorphemeList::split_into: with zero units it returns Ok(false) without touching the output; otherwise assign_input(self) "
                          "precedes the pushes and the iterator is built from self.input()/self.subset()")
def shared_input(db, ctx):
    from ..flow import reachable_at, is_local_from_call, holds_at, var_evaluator
    f = db.one("split_into", "MorphemeList")
    isv = is_local_from_call("ResultNode::num_splits")
    order = []
    nodes_ = {}
    for x, _ in walk(f.hir):
        if x.get("k") == "MethodCall" and x.get("method") in ("assign_input", "push", "extend", "input", "subset") or (is_call(x) and path_ends(callee(x), "ResultNode::split")):
            nm = x.get("method") if x.get("k") == "MethodCall" and x.get("method") != "split" else "split"
            order.append(nm)
            nodes_.setdefault(nm, x)
    muts = [nodes_[m] for m in ("assign_input", "push", "extend") if m in nodes_]
    untouched = all(reachable_at(f.hir, m["id"], isv, 0) is False for m in muts) and bool(muts)
    ret_false = False
    for x, ps in walk(f.hir):
        e = peel(x)
        if e.get("k") == "Call" and path_ends(e.get("callee"), ("Ok", "Result::Ok")) and e["args"] and peel(e["args"][0]).get("v") is False:
            if reachable_at(f.hir, e["id"], isv, 0) is not False and reachable_at(f.hir, e["id"], isv, 2) is False:
                ret_false = True
    ctx.ob("zero-units", untouched and ret_false, "at num_splits == 0 the output list is not touched (%s) and Ok(false) is what is returned (%s)" % (untouched, ret_false), fn=f)
    ok = "assign_input" in order and ("push" in order or "extend" in order) and order.index("assign_input") < min(order.index(m) for m in ("push", "extend") if m in order) \
        and "input" in order and "subset" in order
    arg_ok = any(x.get("k") == "MethodCall" and x.get("method") == "assign_input" and local_name(x["args"][0]) == "self" for x, _ in walk(f.hir))
    ctx.ob("assign-input-first", bool(ok) and arg_ok, "call order %s; assign_input(self)=%s" % (order, arg_ok), fn=f)
    spc = [x for x, _ in walk(f.hir) if is_call(x) and path_ends(callee(x), "ResultNode::split")]
    from ..inline import pcanon
    _pc = lambda t: pcanon(f, t, "mode", "index", "out")
    ok2 = bool(spc) and _pc(render(call_args(spc[0])[1])) == "mode" and ".subset" in render(call_args(spc[0])[3], x=True) and ".input" in render(call_args(spc[0])[4], x=True)
    ctx.ob("split-args", ok2, "node.split(%s)" % (", ".join(render(a) for a in call_args(spc[0])[1:]) if spc else None), fn=f)
    node_src = bool(spc) and "self.node(index)" in _pc(render(call_args(spc[0])[0], x=True))
    ctx.ob("node=self.node(index)", node_src, "the split node is self.node(index): %s" % node_src, fn=f)
    # assign_input itself: afterwards the list shares the OTHER list's input whenever the two differed
    ai = db.view(db.one("assign_input", "MorphemeList"))
    from ..inline import nf as _nf2
    asg = [n for n, _ in walk(ai.hir) if n.get("k") == "Assign" and _nf2(n["l"]) == "self.input" and "other.input" in pcanon(ai, _nf2(n["r"]), "other")]

    def ev_same(same):
        def ev(atom):
            a = peel(atom)
            c = cmp_atom(a)
            if c and c[0] in ("Eq", "Ne") and all(".as_ptr()" in _nf2(x) or "Rc::as_ptr" in _nf2(x) for x in (c[1], c[2])):
                return same if c[0] == "Eq" else (not same)
            if is_call(a) and (callee(a) or "").endswith("ptr_eq"):
                return same
            return None
        return ev
    ok_ai = len(asg) == 1 and holds_at(path_conditions(asg[0]["id"], ai.hir) or [], ev_same(False)) is True
    ctx.ob("assign_input|adopts-the-other-input", ok_ai,
           "assign_input stores other.input into self.input whenever the two lists do not already share it: %s" % ok_ai, fn=ai)


@rule("C09.fixups", "split references of user-dictionary words are re-stamped under the flag of the list they belong to (re-evaluation of "
                    "C11.fixups: a B-split list fixed up under the A flag, or vice versa, resolves units in the wrong dictionary)")
def fixups(db, ctx):
    from . import C11
    C11.fixups(db, ctx)
    ctx.floor(4)


@rule("C09.unit-length", "the stored head-word length that places every inner A/B unit boundary is the byte length of the unit's index key (re-evaluation of C05.field-source)")
def field_source_reeval(db, ctx):
    from . import C05
    C05.field_source(db, ctx)


@rule("C09.order", "A/B splitting is the LAST step of the analysis: the path-rewrite plugins run on the mode-C path and split_path afterwards (re-evaluation of "
                   "C14.order — splitting first lets numeral / katakana joining re-merge units and erase C boundaries)")
def order_reeval(db, ctx):
    from . import C14
    C14.order(db, ctx)


@rule("C09.merged-no-units", "a token produced by merging (numerals, katakana) declares no units of its own: the merged word info is completed from "
                             "Default::default(), never from a part — a part's split list would be applied to the merged range by A/B splitting "
                             "(re-evaluation of C14.merged-fields)")
def merged_no_units(db, ctx):
    from . import C14
    C14.merged_fields(db, ctx)
