"""C16 — sentence splitting partitions the text and breaks only after terminators."""
from ..engine import rule
from ..db import (walk, peel, peel_casts, render, callee, path_ends, short_path, is_call, call_args, lit_int,
                  exit_kind, path_conditions, atoms, AnchorMissing, local_name)
from ..guards import guarded_exits, mentions, is_call_to, cmp_atom
from ..origins import origins, for_loop_parts

META = {
    "explanation": (
        "(word-extent) when a dictionary word ends exactly on the candidate boundary, the veto in has_non_break_word must be "
        "computed from the matched word's extent: any slice of the input in that arm has to be bounded above by the entry's "
        "end / the boundary (an open-ended input[i..] counts text after the word, so a one-character entry for the "
        "terminator itself suppresses the break whenever text follows); (vetoes) every boundary get_eos accepts has passed "
        "the bracket-level, itemisation, continuous-phrase and non-break-word vetoes with rejecting polarity, and the "
        "closing-bracket/comma run is added to it; (cover) SentenceIter::next yields self.position..end, advances "
        "position to end, slices self.data by that range and stops exactly at position == data.len(). NOT decided: "
        "non-emptiness/termination (needs get_eos != 0 for non-empty input — a fact about the regexes), behaviour beyond "
        "the window limit, the regexes themselves."),
    "decided": ["word-extent", "vetoes", "cover"],
    "not_decided": ["termination / non-empty sentences (regex facts)", "window-limit path", "regex contents"],
}


@rule("C16.word-extent", "in NonBreakChecker::has_non_break_word every slice of the input text taken while examining a dictionary word is "
                         "bounded above by that word's end / the boundary (the verdict for a word ending on the boundary concerns the matched "
                         "word only); a word extending past the boundary vetoes the break")
def word_extent(db, ctx):
    from ..db import deref_let, walk_x
    f = db.one("has_non_break_word", "NonBreakChecker")
    loops = list(_loops_of(f))
    if not loops:
        raise AnchorMissing("has_non_break_word: lookup loop")
    n_slices = 0
    for n, ps in walk(f.hir):
        if n.get("k") == "Index" and "str" in (n.get("bty") or "") and local_name(n["e"]) == "input":
            n_slices += 1
            rng = deref_let(n["i"])
            kind = (rng.get("path") or "").split("::")[-1] if rng.get("k") == "Struct" else render(rng)
            bounded = False
            if rng.get("k") == "Struct" and kind in ("Range", "RangeInclusive", "RangeTo", "RangeToInclusive"):
                fl = {x["name"]: x["e"] for x in rng["fields"]}
                if "end" in fl:
                    og = origins(db, f, fl["end"], depth=0)
                    bounded = any((o[0] == "field" and o[2] == "end") for o in og) or any(
                        y.get("k") == "Path" and y.get("res") == "local" and "let_init" in y and any(z.get("k") == "Field" and z.get("name") == "bos" for z, _ in walk(y["let_init"]))
                        for y, _ in walk(fl["end"]))
            ctx.ob("equal-arm|slice-bounded", bounded,
                   "has_non_break_word inspects `%s` (%s): %s" % (render(n), kind,
                                                                  "bounded by the matched word's end" if bounded else
                                                                  "NOT bounded above — characters after the matched word are counted, so a single-character "
                                                                  "entry equal to the terminator vetoes the break whenever any text follows"),
                   fn=f, site=n.get("sp"))
    if n_slices == 0:
        txt = render(f.hir, x=True)
        ctx.ob("equal-arm|verdict-uses-extent", ".end" in txt or "end_byte" in txt, "no slice of the input: the verdict must still consult the word's end", fn=f)
    # the boundary local: bound to `self.bos + length`
    eos_lids = {x["lid"] for x, _ in walk(f.hir) if x.get("k") == "Path" and x.get("res") == "local" and "let_init" in x
                and any(y.get("k") == "Field" and y.get("name") == "bos" for y, _ in walk(x["let_init"]))}

    def is_eos(e):
        return any(y.get("k") == "Path" and y.get("lid") in eos_lids for y, _ in walk(e))

    def is_end(e):
        return any(y.get("k") == "Field" and y.get("name") == "end" and (y.get("adt") or "").endswith("LexiconEntry") for y, _ in walk_x(e))
    # a word extending past the boundary vetoes: `return true` under end > eos (match arm Greater, or a comparison)
    gt = False
    for n, ps in walk(f.hir):
        if n.get("k") == "Ret" and peel(n.get("e", {})).get("v") is True:
            pcs = path_conditions(n["id"], f.hir) or []
            for c, pol in pcs:
                if isinstance(c, tuple) and c[0] == "arm" and ((c[2].get("e") or {}).get("path") or c[2].get("path") or "").endswith("Ordering::Greater"):
                    gt = True
                if isinstance(c, dict):
                    for a, p in atoms(c, pol):
                        cm = cmp_atom(a)
                        if cm and p and cm[0] in ("Gt", "Lt"):
                            big, small = (cm[1], cm[2]) if cm[0] == "Gt" else (cm[2], cm[1])
                            if is_end(big) and is_eos(small):
                                gt = True
    ctx.ob("greater-arm|veto", gt, "a word extending past the boundary vetoes the break (`return true` when its end > the boundary): %s" % gt, fn=f)
    cmp_ok = any(is_eos(c) and is_end(c) for c, _ in walk(f.hir)
                 if (c.get("k") == "MethodCall" and c.get("method") == "cmp") or (c.get("k") == "Binary" and c.get("op") in ("Gt", "Lt", "Eq", "Ge", "Le")))
    ctx.ob("compares-end-with-boundary", cmp_ok, "the entry end is compared with the boundary: %s" % cmp_ok, fn=f)


def _loops_of(f):
    for n, ps in walk(f.hir):
        fl = for_loop_parts(n) if n.get("k") == "Match" else None
        if fl:
            yield n, fl, ps


@rule("C16.vetoes", "the boundary returned by get_eos has passed parenthesis_level, ITEMIZE_HEADER, is_continuous_phrase and (with a "
                    "checker) has_non_break_word, each with rejecting polarity; prohibited_bos is added to it")
def vetoes(db, ctx):
    f = db.one("get_eos", "SentenceDetector")
    loop = None
    for n, ps in walk(f.hir):
        fl = for_loop_parts(n) if n.get("k") == "Match" else None
        if fl and "SENTENCE_BREAKER" in render(fl[0]):
            loop = fl
    if loop is None:
        raise AnchorMissing("get_eos: loop over SENTENCE_BREAKER matches")
    it, pat, body = loop
    ret = None
    for n, ps in walk(body):
        if n.get("k") == "Ret" and "Ok" in render(n) and not any(p.get("k") == "If" for p in ps):
            ret = n
    if ret is None:
        raise AnchorMissing("get_eos: `return Ok(eos)` at loop-body level")
    pcs = path_conditions(ret["id"], body) or []
    neg = []
    for c, pol in pcs:
        if isinstance(c, dict):
            for a, p in atoms(c, pol):
                neg.append((render(a), p))
    txt = " ; ".join(("" if p else "!") + a for a, p in neg)
    need = {"parenthesis_level": False, "ITEMIZE_HEADER": False, "is_continuous_phrase": False}
    for a, p in neg:
        if "parenthesis_level" in a and "> 0" in a and p is False:
            need["parenthesis_level"] = True
        if "ITEMIZE_HEADER" in a and "is_match" in a and p is False:
            need["ITEMIZE_HEADER"] = True
    # `eos < len && is_continuous_phrase` negated gives a disjunction; look at the statement directly
    for st in body.get("stmts", []):
        e = st.get("e") or {}
        if e.get("k") == "If" and exit_kind(e["then"]) == "continue" and "is_continuous_phrase" in render(e["cond"]):
            need["is_continuous_phrase"] = True
    for k, v in need.items():
        ctx.ob("veto|%s" % k, v, "veto %s precedes the accepting return with `continue` polarity: %s (conditions at the return: %s)" % (k, v, txt[:200]), fn=f)
    nb = False
    for st in body.get("stmts", []):
        e = st.get("e") or {}
        if e.get("k") == "If" and peel(e["cond"]).get("k") == "LetExpr" and "checker" in render(e["cond"]):
            for x, _ in walk(e["then"]):
                if x.get("k") == "If" and "has_non_break_word" in render(x["cond"]) and exit_kind(x["then"]) == "continue":
                    nb = True
    ctx.ob("veto|has_non_break_word", nb, "with a checker present, has_non_break_word(..) == true continues to the next candidate: %s" % nb, fn=f)
    pb = any(e.get("k") == "AssignOp" and e.get("op") == "Add" and "prohibited_bos" in render(e["r"]) and local_name(e["l"]) == "eos" for e, _ in walk(body))
    ctx.ob("prohibited_bos-added", pb, "closing brackets / commas / terminators after the match are added to the boundary (eos += prohibited_bos(..)): %s" % pb, fn=f)
    nbc = None
    for x, _ in walk(body):
        if is_call(x) and path_ends(callee(x), "has_non_break_word"):
            nbc = [render(a) for a in call_args(x)]
    ctx.ob("has_non_break_word-args", nbc is not None and nbc[1:] == ["input", "eos"], "has_non_break_word is called with (input, eos): %s" % nbc, fn=f)


@rule("C16.cover", "SentenceIter::next yields position..end, sets position=end, slices data by that range, ends at position==data.len(); "
                   "end = data.len() for a negative get_eos result, position+result otherwise")
def cover(db, ctx):
    from ..db import deref_let, walk_x
    fs = [f for f in db.impls_of("Iterator::next") if "SentenceIter" in f.key]
    if len(fs) != 1:
        raise AnchorMissing("<SentenceIter as Iterator>::next")
    f = fs[0]
    X = lambda e: render(e, x=True)
    stop = False
    for ifn, cond, pol, ek, ps in guarded_exits(f.hir):
        c = cmp_atom(cond)
        if c and c[0] == "Eq" and "self.position" in X(cond) and "data.len()" in X(cond) and pol and ek in ("none", "ret"):
            stop = True
    ctx.ob("stops-at-end", stop, "returns None exactly when self.position == self.data.len(): %s" % stop, fn=f)
    # the yielded pair
    some = None
    for n, _ in walk(f.hir):
        e = peel(n)
        if e.get("k") == "Call" and path_ends(e.get("callee"), ("Some", "Option::Some")) and e["args"] and peel(e["args"][0]).get("k") == "Tup":
            some = peel(e["args"][0])["elems"]
    if not some or len(some) != 2:
        raise AnchorMissing("SentenceIter::next: Some((range, text))")
    rng = deref_let(some[0])
    rtxt = X(some[0])
    ok_rng = rng.get("k") == "Struct" and "start: self.position" in rtxt
    ctx.ob("range=position..end", ok_rng, "yielded range is `%s` (must start at self.position)" % rtxt[:120], fn=f)
    # the end value: negative detector result -> data.len(), otherwise position + result; possibly computed by a private helper
    end_expr = None
    if rng.get("k") == "Struct":
        end_expr = {x["name"]: x["e"] for x in rng["fields"]}.get("end")
    branches = None
    cand = []
    if end_expr is not None:
        e = deref_let(end_expr)
        if e.get("k") == "If":
            cand.append((e, None))
        elif is_call(e) and callee(e) in db.fns and db.fns[callee(e)].hir:
            g = db.fns[callee(e)]
            body_e = peel(g.hir.get("expr") or g.hir)
            if body_e.get("k") == "If":
                cand.append((body_e, (g, e)))
    ok_end = False
    shown = None
    for iff, helper in cand:
        c = cmp_atom(iff["cond"])
        if not c or lit_int(c[2]) != 0:
            continue
        neg_branch, pos_branch = (iff["then"], iff.get("else")) if c[0] == "Lt" else (iff.get("else"), iff["then"]) if c[0] == "Ge" else (None, None)
        if neg_branch is None or pos_branch is None:
            continue
        nb, pb = X(neg_branch), X(pos_branch)
        # the tested value is the detector's result
        tested = c[1]
        if helper:
            g, call = helper
            plist = [p_.get("name") for p_ in (g.info.get("params") or [])]
            nm = local_name(tested)
            tested_src = X(call_args(call)[plist.index(nm)]) if nm in plist else ""
        else:
            tested_src = X(tested)
        ok_end = "data.len()" in nb and "position" not in nb and "self.position +" in pb and "get_eos" in tested_src
        shown = "negative -> `%s`, otherwise `%s`, tested value from `%s`" % (nb[:40], pb[:50], tested_src[:60])
    ctx.ob("end", ok_end, "end: %s (must be data.len() when the detector result is negative, position+result otherwise)" % shown, fn=f)
    adv = any(n.get("k") == "Assign" and "position" in render(n["l"]) and X(n["r"]) == X(end_expr) for n, _ in walk(f.hir)) if end_expr is not None else False
    ctx.ob("advances", adv, "self.position is advanced to the range end: %s" % adv, fn=f)
    sl = X(some[1])
    ctx.ob("slice-by-range", "self.data[" in sl and ("start: self.position" in sl), "yielded text is `%s`" % sl[:120], fn=f)
    ge = [c for c, _ in walk(f.hir) if is_call(c) and path_ends(callee(c), "get_eos")]
    src = X(call_args(ge[0])[1]) if ge else ""
    ctx.ob("get_eos-on-rest", "self.data[" in src and "RangeFrom{start: self.position" in src.replace("ops::", ""), "get_eos is applied to `%s`" % src[:100], fn=f)


@rule("C16.bracket-level", "parenthesis_level never goes below zero: the decrement for a closing bracket is guarded by level > 0 (or saturating), so a "
                           "stray closer cannot cancel a later opener")
def bracket_level(db, ctx):
    f = db.one("parenthesis_level", None)
    decs = [(n, ps) for n, ps in walk(f.hir) if n.get("k") == "AssignOp" and n.get("op") == "Sub" and local_name(n["l"]) is not None]
    sat = any(c.get("k") == "MethodCall" and c.get("method") in ("saturating_sub", "checked_sub") for c, _ in walk(f.hir))
    if not decs and not sat:
        raise AnchorMissing("parenthesis_level: level decrement")
    for n, ps in decs:
        nm = local_name(n["l"])
        pcs = path_conditions(n["id"], f.hir) or []
        guarded = False
        for c, pol in pcs:
            if isinstance(c, dict):
                for a, p in atoms(c, pol):
                    cm = cmp_atom(a)
                    if cm and p and ((cm[0] == "Gt" and local_name(cm[1]) == nm and lit_int(cm[2]) == 0) or (cm[0] == "Ge" and local_name(cm[1]) == nm and lit_int(cm[2]) == 1)
                                     or (cm[0] == "Ne" and local_name(cm[1]) == nm and lit_int(cm[2]) == 0)):
                        guarded = True
        ctx.ob("decrement-guarded", guarded, "`%s` is executed only when %s > 0: %s (a closer at level 0 must be ignored, not remembered as a negative balance)" % (render(n), nm, guarded), fn=f, site=n.get("sp"))
    ctx.ob("returns-usize", f.info.get("output", "").startswith("std::result::Result<usize"), "parenthesis_level returns %s" % f.info.get("output", "")[:50], fn=f)


@rule("C16.units", "sentence detection works in BYTE offsets of the text: every quantity added to / compared with a candidate boundary is a byte "
                   "length (regex match ends, str::len, len_utf8), never a count of code points — the units engine of C01 over sentence_detector / "
                   "sentence_splitter")
def units_rule(db, ctx):
    from ..units import Units
    total = 0
    for k, f in sorted(db.fns.items()):
        if f.pkg != "sudachi" or not f.hir or not ("::sentence_detector::" in k or "::sentence_splitter::" in k) or "::test" in k:
            continue
        u = Units(db, f)
        conflicts, reached = u.check()
        total += reached
        seen = set()
        for node, msg in conflicts:
            if msg in seen:
                continue
            seen.add(msg)
            ctx.ob("%s|%s" % (f.short(), msg[:80]), False, "%s: byte / code-point conflict — %s (MB = bytes of the text, MC = code points)" % (f.short(), msg), fn=f,
                   site=node.get("sp") if isinstance(node, dict) else None)
        if reached and not conflicts:
            ctx.ob("%s|consistent" % f.short(), True, "%s: %d use-sites with a known unit, all consistent" % (f.short(), reached), fn=f)
    ctx.ob("reached", total >= 3, "%d use-sites reached with a known unit (floor 3)" % total, nontrivial=False)
