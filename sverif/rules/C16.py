"""C16 — sentence splitting partitions the text and breaks only after terminators."""
from ..engine import rule
from ..db import (walk, peel, peel_casts, render, callee, path_ends, short_path, is_call, call_args, lit_int,
                  exit_kind, path_conditions, atoms, AnchorMissing, local_name)
from ..guards import guarded_exits, mentions, is_call_to, cmp_atom
from ..origins import origins, for_loop_parts

META = {
    "explanation": (
        "(word-extent) when a dictionary word ends exactly on the candidate boundary, the veto in has_non_break_word must be "
        "computed from the matched word's extent: any slice of the input in that arm has to be bounded above by the entry's "
        "end / the boundary (an open-ended input[i..] counts text after the word, so a one-character entry for the "
        "terminator itself suppresses the break whenever text follows); (vetoes) every boundary get_eos accepts has passed "
        "the bracket-level, itemisation, continuous-phrase and non-break-word vetoes with rejecting polarity, and the "
        "closing-bracket/comma run is added to it; (cover) SentenceIter::next yields self.position..end, advances "
        "position to end, slices self.data by that range and stops exactly at position == data.len(). NOT decided: "
        "non-emptiness/termination (needs get_eos != 0 for non-empty input — a fact about the regexes), behaviour beyond "
        "the window limit, the regexes themselves."),
    "decided": ["word-extent", "vetoes", "cover"],
    "not_decided": ["termination / non-empty sentences (regex facts)", "window-limit path", "regex contents"],
}


def _is_text_param(f, e):
    """e is the function's text parameter (its first `&str` parameter, whatever it is called) — the WHOLE input, not a window of it"""
    from ..db import is_local
    lid = next((p_.get("lid") for p_ in (f.info.get("params") or []) if isinstance(p_, dict) and (p_.get("ty") or "") == "&str"), None)
    return lid is not None and is_local(e, lid)


@rule("C16.word-extent", "in NonBreakChecker::has_non_break_word every slice of the input text taken while examining a dictionary word is "
                         "bounded above by that word's end / the boundary (the verdict for a word ending on the boundary concerns the matched "
                         "word only); a word extending past the boundary vetoes the break")
def word_extent(db, ctx):
    from ..db import deref_let, walk_x
    f = db.one("has_non_break_word", "NonBreakChecker")
    loops = list(_loops_of(f))
    if not loops:
        raise AnchorMissing("has_non_break_word: lookup loop")
    n_slices = 0
    for n, ps in walk(f.hir):
        if n.get("k") == "Index" and "str" in (n.get("bty") or "") and _is_text_param(f, n["e"]):
            n_slices += 1
            rng = deref_let(n["i"])
            kind = (rng.get("path") or "").split("::")[-1] if rng.get("k") == "Struct" else render(rng)
            bounded = False
            if rng.get("k") == "Struct" and kind in ("Range", "RangeInclusive", "RangeTo", "RangeToInclusive"):
                fl = {x["name"]: x["e"] for x in rng["fields"]}
                if "end" in fl:
                    og = origins(db, f, fl["end"], depth=0)
                    bounded = any((o[0] == "field" and o[2] == "end") for o in og) or any(
                        y.get("k") == "Path" and y.get("res") == "local" and "let_init" in y and any(z.get("k") == "Field" and z.get("name") == "bos" for z, _ in walk(y["let_init"]))
                        for y, _ in walk(fl["end"]))
            ctx.ob("equal-arm|slice-bounded", bounded,
                   "has_non_break_word inspects `%s` (%s): %s" % (render(n), kind,
                                                                  "bounded by the matched word's end" if bounded else
                                                                  "NOT bounded above — characters after the matched word are counted, so a single-character "
                                                                  "entry equal to the terminator vetoes the break whenever any text follows"),
                   fn=f, site=n.get("sp"))
    if n_slices == 0:
        txt = render(f.hir, x=True)
        ctx.ob("equal-arm|verdict-uses-extent", ".end" in txt or "end_byte" in txt, "no slice of the input: the verdict must still consult the word's end", fn=f)
    # the boundary local: bound to `self.bos + length`
    eos_lids = {x["lid"] for x, _ in walk(f.hir) if x.get("k") == "Path" and x.get("res") == "local" and "let_init" in x
                and any(y.get("k") == "Field" and y.get("name") == "bos" for y, _ in walk(x["let_init"]))}

    def is_eos(e):
        return any(y.get("k") == "Path" and y.get("lid") in eos_lids for y, _ in walk(e))

    def is_end(e):
        return any(y.get("k") == "Field" and y.get("name") == "end" and (y.get("adt") or "").endswith("LexiconEntry") for y, _ in walk_x(e))
    # a word extending past the boundary vetoes: `return true` under end > eos (match arm Greater, or a comparison)
    gt = False
    for n, ps in walk(f.hir):
        if n.get("k") == "Ret" and peel(n.get("e", {})).get("v") is True:
            pcs = path_conditions(n["id"], f.hir) or []
            for c, pol in pcs:
                if isinstance(c, tuple) and c[0] == "arm" and ((c[2].get("e") or {}).get("path") or c[2].get("path") or "").endswith("Ordering::Greater"):
                    gt = True
                if isinstance(c, dict):
                    for a, p in atoms(c, pol):
                        cm = cmp_atom(a)
                        if cm and p and cm[0] in ("Gt", "Lt"):
                            big, small = (cm[1], cm[2]) if cm[0] == "Gt" else (cm[2], cm[1])
                            if is_end(big) and is_eos(small):
                                gt = True
    ctx.ob("greater-arm|veto", gt, "a word extending past the boundary vetoes the break (`return true` when its end > the boundary): %s" % gt, fn=f)
    cmp_ok = any(is_eos(c) and is_end(c) for c, _ in walk(f.hir)
                 if (c.get("k") == "MethodCall" and c.get("method") == "cmp") or (c.get("k") == "Binary" and c.get("op") in ("Gt", "Lt", "Eq", "Ge", "Le")))
    ctx.ob("compares-end-with-boundary", cmp_ok, "the entry end is compared with the boundary: %s" % cmp_ok, fn=f)


def _loops_of(f):
    for n, ps in walk(f.hir):
        fl = for_loop_parts(n) if n.get("k") == "Match" else None
        if fl:
            yield n, fl, ps


@rule("C16.vetoes", "the boundary returned by get_eos has passed parenthesis_level, ITEMIZE_HEADER, is_continuous_phrase and (with a "
                    "checker) has_non_break_word, each with rejecting polarity; prohibited_bos is added to it")
def vetoes(db, ctx):
    """truth-table formulation: the accepting `return Ok(boundary)` is reachable when no veto fires and unreachable when any single one
    does — whatever the control flow that implements it (continue chain, helper returning Option, if-let, map_or)"""
    from ..flow import holds_at, select
    from ..inline import nf
    f = db.view(db.one("get_eos", "SentenceDetector"), depth=3, keep=("parenthesis_level", "prohibited_bos", "is_continuous_phrase", "has_non_break_word"))
    rets = []
    for n, ps in walk(f.hir):
        if n.get("k") == "Ret" and "e" in n and not (n.get("mac") and "desugar:QuestionMark" in n["mac"]):
            e = peel(n["e"])
            if e.get("k") == "Call" and path_ends(e.get("callee") or "", ("Result::Ok", "Ok")) and e.get("args"):
                v = peel_casts(e["args"][0])
                if not (v.get("k") == "Unary" and v.get("op") == "Neg") and any(
                        (for_loop_parts(p) if p.get("k") == "Match" else None) for p in ps):
                    rets.append((n, v))
        # the candidate loop moved into a helper that returns Option<boundary>: its `return Ok(Some(b))` is, in the inlined view, the
        # point where the loop is left with Some(b)
        if n.get("k") == "BreakValue" and "e" in n and any((for_loop_parts(p) if p.get("k") == "Match" else None) for p in ps):
            e = peel(n["e"])
            if e.get("k") == "Call" and path_ends(e.get("callee") or "", ("Option::Some", "Some")) and e.get("args"):
                rets.append((n, peel_casts(e["args"][0])))
    if len(rets) != 1:
        raise AnchorMissing("get_eos: the accepting `return Ok(boundary)` inside the candidate loop", "(%d found)" % len(rets))
    ret, val = rets[0]
    VETOES = ("parenthesis_level", "ITEMIZE_HEADER", "is_continuous_phrase", "has_non_break_word")

    def mk_ev(fired):
        def ev(atom):
            a = peel(atom)
            if not isinstance(a, dict):
                return None
            if a.get("k") == "Block":             # an inlined boolean helper: its value
                s_ = select(db, f, a, ev)
                return None if s_ is a else ev(s_)
            if a.get("k") == "LetExpr":
                pth = (a.get("pat") or {}).get("path") or ""
                if pth.endswith("Some"):
                    if "NonBreakChecker" in (peel(a["init"]).get("ty") or "") and peel(a["init"]).get("res") == "local":
                        return True                # scenario: a checker is present
                    s_ = peel(select(db, f, a["init"], ev))
                    if isinstance(s_, dict) and s_.get("k") == "Path" and (s_.get("path") or "").endswith("None"):
                        return False
                    if isinstance(s_, dict) and s_.get("k") == "Call" and (s_.get("callee") or "").endswith("Some"):
                        return True
                return None
            c = cmp_atom(a)
            if c:
                if c[0] == "Gt" and mentions(c[1], is_call_to("parenthesis_level")) and lit_int(c[2]) == 0:
                    return "parenthesis_level" in fired
                if c[0] == "Lt" and nf(c[2]).endswith(".len()"):
                    return True                    # scenario: the candidate lies inside the text
                return None
            if a.get("k") == "MethodCall" and a.get("method") == "is_match" and "ITEMIZE_HEADER" in render(a["recv"]):
                return "ITEMIZE_HEADER" in fired
            if is_call(a) and path_ends(callee(a) or "", "is_continuous_phrase"):
                return "is_continuous_phrase" in fired
            if is_call(a) and path_ends(callee(a) or "", "has_non_break_word"):
                return "has_non_break_word" in fired
            if a.get("k") == "MethodCall" and a.get("method") in ("map_or", "is_some_and", "map_or_else") and mentions(a, is_call_to("has_non_break_word")):
                return "has_non_break_word" in fired
            if a.get("k") == "Match" and a.get("src") == "TryDesugar":
                sc = a["scrut"]
                return ev(sc["args"][0]) if sc.get("args") else None
            return None
        return ev
    pcs = path_conditions(ret["id"], f.hir) or []
    base = holds_at(pcs, mk_ev(()))
    ctx.ob("accept|no-veto", base is not False, "with no veto firing the accepting return is reachable: %s" % (base is not False), fn=f, site=ret.get("sp"))
    for vname in VETOES:
        r = holds_at(pcs, mk_ev((vname,)))
        ctx.ob("veto|%s" % vname, r is False,
               "when %s fires (and nothing else) the accepting `return Ok(boundary)` is %s (must be unreachable: the candidate is skipped)" % (
                   vname, {False: "unreachable", True: "REACHABLE", None: "not decided"}[r]), fn=f, site=ret.get("sp"))
    # the accepted boundary includes the closing brackets / commas / terminators that follow the match
    sel = select(db, f, val, mk_ev(()))
    pb = "prohibited_bos(" in nf(sel)
    if not pb and peel_casts(val).get("k") == "Path":
        lid = peel_casts(val).get("lid")
        pb = any(e.get("k") == "AssignOp" and e.get("op") == "Add" and mentions(e["r"], is_call_to("prohibited_bos")) and peel(e["l"]).get("lid") == lid for e, _ in walk(f.hir))
    ctx.ob("prohibited_bos-added", pb, "closing brackets / commas / terminators after the match are added to the accepted boundary: %s" % pb, fn=f)
    nbc = None
    for x, _ in walk(f.hir):
        if is_call(x) and path_ends(callee(x), "has_non_break_word"):
            a_ = call_args(x)
            same = nf(select(db, f, a_[2], mk_ev(()))) == nf(sel) or peel_casts(a_[2]).get("lid") == peel_casts(val).get("lid")
            nbc = ("input" if _is_text_param(f, a_[1]) else nf(a_[1]), same)
    ctx.ob("has_non_break_word-args", nbc is not None and nbc[0] == "input" and nbc[1], "has_non_break_word is called with (input, <the boundary that is returned>): %s" % (nbc,), fn=f)


@rule("C16.cover", "SentenceIter::next yields position..end, sets position=end, slices data by that range, ends at position==data.len(); "
                   "end = data.len() for a negative get_eos result, position+result otherwise")
def cover(db, ctx):
    from ..db import deref_all
    from ..flow import outcomes, select, var_evaluator
    from ..inline import nf, range_bounds
    from ..origins import unwrap_try
    fs = [f for f in db.impls_of("Iterator::next") if "SentenceIter" in f.key]
    if len(fs) != 1:
        raise AnchorMissing("<SentenceIter as Iterator>::next")
    f = db.view(fs[0])

    def classify(e):
        if e.get("k") == "Path" and (e.get("path") or "").endswith("None"):
            return "none"
        if e.get("k") == "Call" and path_ends(e.get("callee") or "", ("Some", "Option::Some")):
            return "some"
        return "other"
    table = {}
    for at_end in (True, False):
        def ev(atom, at_end=at_end):
            c = cmp_atom(atom)
            if c and c[0] in ("Eq", "Ne") and {nf(c[1]), nf(c[2])} == {"self.position", "self.data.len()"}:
                return at_end if c[0] == "Eq" else (not at_end)
            return None
        table[at_end] = sorted(outcomes(f.hir, ev, classify) - {"try"})
    ctx.ob("stops-at-end", table == {True: ["none"], False: ["some"]}, "result by (position == data.len()): %s (must be None exactly at the end)" % table, fn=f)
    some = None
    for n, _ in walk(f.hir):
        e = peel(n)
        if e.get("k") == "Call" and path_ends(e.get("callee"), ("Some", "Option::Some")) and e["args"] and peel(e["args"][0]).get("k") == "Tup":
            some = peel(e["args"][0])["elems"]
    if not some or len(some) != 2:
        raise AnchorMissing("SentenceIter::next: Some((range, text))")
    rng = deref_all(some[0])
    rb = range_bounds(some[0])
    ctx.ob("range=position..end", rb is not None and rb[0] == "self.position", "yielded range is `%s` (must start at self.position)" % (rb,), fn=f)
    end_expr = {x["name"]: x["e"] for x in rng["fields"] if "e" in x}.get("end") if isinstance(rng, dict) and rng.get("k") == "Struct" else None

    def is_eos(e):
        d = deref_all(unwrap_try(deref_all(e)))
        while isinstance(d, dict) and d.get("k") == "MethodCall" and d.get("method") in ("unwrap", "expect"):
            d = deref_all(d["recv"])
        return isinstance(d, dict) and is_call(d) and path_ends(callee(d) or "", "get_eos")
    ends = {}
    if end_expr is not None:
        for sign in (-1, 1):
            ends[sign] = nf(select(db, f, end_expr, var_evaluator(is_eos, sign)))
    ok_end = ends.get(-1) == "self.data.len()" and "get_eos(" in ends.get(1, "") and ends.get(1, "").startswith("(") and " + " in ends.get(1, "") and "self.position" in ends.get(1, "") \
        and "self.data.len()" != ends.get(1)
    ctx.ob("end", ok_end, "end: negative detector result -> `%s`, otherwise `%s` (must be data.len() when the result is negative, position + result otherwise)" % (
        ends.get(-1), (ends.get(1) or "")[:90]), fn=f)
    adv = False
    for n, _ in walk(f.hir):
        if n.get("k") == "Assign" and nf(n["l"]) == "self.position" and end_expr is not None:
            adv = all(nf(select(db, f, n["r"], var_evaluator(is_eos, s_))) == ends[s_] for s_ in (-1, 1))
    ctx.ob("advances", adv, "self.position is advanced to the range end: %s" % adv, fn=f)
    sl = deref_all(some[1])
    sl_ok = False
    if isinstance(sl, dict) and sl.get("k") == "Index" and nf(sl["e"]) == "self.data":
        ix_ = deref_all(sl["i"])
        while isinstance(ix_, dict) and ix_.get("k") == "MethodCall" and ix_.get("method") == "clone":
            ix_ = deref_all(ix_["recv"])
        sb = range_bounds(ix_)
        sl_ok = sb is not None and rb is not None and sb == rb
    ctx.ob("slice-by-range", sl_ok, "yielded text is `%s` (must be self.data[<the yielded range>])" % render(sl, x=True)[:120], fn=f)
    ge = [c for c, _ in walk(f.hir) if is_call(c) and path_ends(callee(c), "get_eos")]
    src_ok = False
    src = None
    if ge:
        src = deref_all(call_args(ge[0])[1])
        if isinstance(src, dict) and src.get("k") == "Index" and nf(src["e"]) == "self.data":
            r_ = deref_all(src["i"])
            src_ok = isinstance(r_, dict) and r_.get("k") == "Struct" and (r_.get("path") or "").endswith("RangeFrom") and \
                nf({x["name"]: x["e"] for x in r_["fields"] if "e" in x}.get("start")) == "self.position"
    ctx.ob("get_eos-on-rest", src_ok, "get_eos is applied to `%s` (must be self.data[self.position..])" % (render(src, x=True)[:100] if src else None), fn=f)


@rule("C16.bracket-level", "parenthesis_level never goes below zero: the decrement for a closing bracket is guarded by level > 0 (or saturating), so a "
                           "stray closer cannot cancel a later opener")
def bracket_level(db, ctx):
    f = db.one("parenthesis_level", None)
    # every `L - 1` / `L -= 1` on a counter (in place or as the next accumulator value of a fold) is unreachable when L == 0
    from ..flow import holds_at, var_evaluator
    decs = [(n, ps) for n, ps in walk(f.hir) if n.get("k") in ("AssignOp", "Binary") and n.get("op") == "Sub" and local_name(n["l"]) is not None and lit_int(n["r"]) == 1
            and not (n.get("mac") or [])]
    sat = any(c.get("k") == "MethodCall" and c.get("method") in ("saturating_sub", "checked_sub") for c, _ in walk(f.hir))
    if not decs and not sat:
        raise AnchorMissing("parenthesis_level: level decrement")
    for n, ps in decs:
        nm = local_name(n["l"])
        lid = peel(n["l"]).get("lid")
        pcs = path_conditions(n["id"], f.hir) or []
        is_l = lambda e, lid=lid: isinstance(peel_casts(e), dict) and peel_casts(e).get("k") == "Path" and peel_casts(e).get("lid") == lid
        guarded = holds_at(pcs, var_evaluator(is_l, 0)) is False and holds_at(pcs, var_evaluator(is_l, 1)) is not False
        ctx.ob("decrement-guarded", guarded, "`%s` is executed only when %s > 0: %s (a closer at level 0 must be ignored, not remembered as a negative balance)" % (render(n), nm, guarded), fn=f, site=n.get("sp"))
    ctx.ob("returns-usize", f.info.get("output", "").startswith("std::result::Result<usize"), "parenthesis_level returns %s" % f.info.get("output", "")[:50], fn=f)


@rule("C16.units", "sentence detection works in BYTE offsets of the text: every quantity added to / compared with a candidate boundary is a byte "
                   "length (regex match ends, str::len, len_utf8), never a count of code points — the units engine of C01 over sentence_detector / "
                   "sentence_splitter")
def units_rule(db, ctx):
    from ..units import Units
    total = 0
    for k, f in sorted(db.fns.items()):
        if f.pkg != "sudachi" or not f.hir or not ("::sentence_detector::" in k or "::sentence_splitter::" in k) or "::test" in k:
            continue
        u = Units(db, f)
        conflicts, reached = u.check()
        total += reached
        seen = set()
        for node, msg in conflicts:
            if msg in seen:
                continue
            seen.add(msg)
            ctx.ob("%s|%s" % (f.short(), msg[:80]), False, "%s: byte / code-point conflict — %s (MB = bytes of the text, MC = code points)" % (f.short(), msg), fn=f,
                   site=node.get("sp") if isinstance(node, dict) else None)
        if reached and not conflicts:
            ctx.ob("%s|consistent" % f.short(), True, "%s: %d use-sites with a known unit, all consistent" % (f.short(), reached), fn=f)
    ctx.ob("reached", total >= 3, "%d use-sites reached with a known unit (floor 3)" % total, nontrivial=False)


def _fmt_template(v):
    """literal pieces and placeholders of a compact format_args template (length-prefixed literals, high bytes = placeholders)"""
    parts = []
    i = 0
    while i < len(v):
        ch = v[i]
        o = ord(ch)
        if o == 0:
            break
        if ch == "\ufffd" or o >= 0x80 and o < 0x100:
            if not parts or parts[-1] != "{}":
                parts.append("{}")
            i += 1
            continue
        if o < 0x80:
            piece = v[i + 1:i + 1 + o]
            # the length counts bytes; pieces here are ASCII except inside explicit alternations, where we resynchronise on the next control char
            nb = 0
            j = i + 1
            while j < len(v) and nb < o:
                nb += len(v[j].encode("utf-8")) if v[j] != "\ufffd" else 1
                j += 1
            parts.append(v[i + 1:j])
            i = j
            continue
        i += 1
    return parts


def regex_source(db, static_suffix, depth=2):
    """[literal | '{}'] pieces of the pattern a lazy_static Regex (or String) of sentence_detector is built from; a pattern taken from another
    static is followed"""
    inits = [f for k, f in db.fns.items() if "::sentence_detector::" in k and k.endswith("::deref::__static_ref_initialize") and ("::%s as " % static_suffix) in k]
    if len(inits) != 1:
        raise AnchorMissing("static %s initialiser" % static_suffix, "(%d)" % len(inits))
    f = inits[0]
    lits = [x for x, _ in walk(f.hir) if x.get("k") == "Lit" and x.get("t") in ("bytes", "str")]
    refs = [x for x, _ in walk(f.hir) if x.get("k") == "Path" and x.get("res") == "def" and "::sentence_detector::" in (x.get("path") or "") and x["path"].split("::")[-1].isupper()
            and x["path"].split("::")[-1] not in ("ALPHABET_OR_NUMBER", "DOT", "PERIODS", "COMMA", "BR_TAG", "CLOSE_PARENTHESIS", "OPEN_PARENTHESIS", "ITEMIZE_HEADER_PATTERN_")]
    parts = []
    if lits:
        l0 = lits[0]
        parts = _fmt_template(l0["v"]) if l0.get("t") == "bytes" and l0.get("mac") else [l0["v"]]
    statics = [r["path"].split("::")[-1] for r in refs if any(("::%s as " % r["path"].split("::")[-1]) in k for k in db.fns)]
    if statics and depth > 0:
        inner = regex_source(db, statics[0], depth - 1)
        if not parts:
            parts = inner
        else:
            # splice the referenced pattern into the first placeholder
            out = []
            done = False
            for p_ in parts:
                if p_ == "{}" and not done:
                    out += inner
                    done = True
                else:
                    out.append(p_)
            parts = out
    return parts


@rule("C16.regex-anchors", "the vetoing regexes keep their anchors: PROHIBITED_BOS starts at the candidate (\\A..), EOS_ITEMIZE_HEADER looks only at the END of the "
                           "text before the candidate (..\\z), ITEMIZE_HEADER matches the whole text (^..$) — an unanchored header test fires for any "
                           "earlier `3.` / `Ver.` in the window and merges sentences")
def regex_anchors(db, ctx):
    want = {"PROHIBITED_BOS": ("\\A", None), "EOS_ITEMIZE_HEADER": (None, "\\z"), "ITEMIZE_HEADER": ("^", "$")}
    for nm, (pre, suf) in want.items():
        parts = regex_source(db, nm)
        txt = "".join(parts)
        ok = bool(parts) and (pre is None or (parts[0] != "{}" and parts[0].startswith(pre))) and (suf is None or (parts[-1] != "{}" and parts[-1].endswith(suf)))
        ctx.ob("%s|anchors" % nm, ok, "%s is built from `%s` (must %s%s)" % (nm, txt, ("start with %s " % pre) if pre else "", ("end with %s" % suf) if suf else ""))
    ctx.floor(3)


@rule("C16.lookup-offsets", "the offset handed to the dictionary look-up in has_non_break_word is an ABSOLUTE byte offset of the text that is handed to it: "
                            "positions enumerated over a sub-slice (char_indices / bytes().enumerate() of input[a..b]) are relative to `a` and must be "
                            "re-based before use")
def lookup_offsets(db, ctx):
    from ..db import deref_all
    from ..origins import index as oindex
    from ..inline import nf
    f = db.view(db.one("has_non_break_word", "NonBreakChecker"))
    bd = oindex(db).bindings(f)
    n = 0
    for c, ps in walk(f.hir):
        if not (c.get("k") == "MethodCall" and c.get("method") == "lookup" and len(c["args"]) == 2):
            continue
        n += 1
        off = c["args"][1]
        rel_base = None
        for x, _ in walk(off):
            if x.get("k") == "Path" and x.get("res") == "local":
                b_ = bd.get(x["lid"])
                if b_ and b_[0] in ("for", "closure-param"):
                    it = b_[1] if b_[0] == "for" else None
                    if it is None:
                        continue
                    # walk down the adaptor chain to the iterated base
                    cur = deref_all(it)
                    names = []
                    while isinstance(cur, dict) and cur.get("k") == "MethodCall":
                        names.append(cur["method"])
                        cur = deref_all(cur["recv"])
                    if isinstance(cur, dict) and cur.get("k") == "Index" and set(names) & {"char_indices", "bytes", "chars", "enumerate", "as_bytes"}:
                        rng = deref_all(cur["i"])
                        if isinstance(rng, dict) and rng.get("k") == "Struct":
                            st = {y["name"]: y["e"] for y in rng["fields"] if "e" in y}.get("start")
                            if st is not None and lit_int(st) != 0:
                                rel_base = nf(st)
        ok = rel_base is None or (peel_casts(off).get("k") == "Binary" and peel_casts(off).get("op") == "Add" and rel_base in (nf(peel_casts(off)["l"]), nf(peel_casts(off)["r"])))
        ctx.ob("has_non_break_word|lookup-offset-absolute", ok,
               "lexicon.lookup(.., `%s`): %s" % (render(off), "absolute offset" if rel_base is None else
                                                 ("position relative to the sub-slice starting at `%s`%s" % (rel_base, ", re-based" if ok else
                                                  " used WITHOUT re-basing: identical to the absolute offset only while the window starts at 0 (boundary within the "
                                                  "first 30 bytes)"))), fn=f, site=c.get("sp"))
    ctx.floor(1)


_PATTERN_SYNTAX = set("\\-{}()|[]^$.*+?")


def _in_pattern(ps):
    return any(is_call(p) and (path_ends(callee(p) or "", ("fmt::format", "Regex::new", "RegexBuilder::new", "escape"))
                               or "fmt::Arguments" in (callee(p) or "") or "fmt::format" in (callee(p) or "")) for p in ps)


@rule("C16.pattern-fragments", "the splitter's character-class constants are regex FRAGMENTS (they carry escapes such as `\\\\(` and ranges such as `a-z`): "
                               "each is consumed only while a pattern is being built (inside format! feeding Regex::new, or as a Regex::new argument). "
                               "Used as a plain set of characters (`.contains(c)`, `.chars()`), the escape character itself becomes a member — a "
                               "backslash then counts as an opening bracket and every later terminator is vetoed")
def pattern_fragments(db, ctx):
    frags = {k: v["str"] for k, v in db.consts.items()
             if k.startswith("sudachi::sentence_detector::") and isinstance(v.get("str"), str) and set(v["str"]) & _PATTERN_SYNTAX}
    if not frags:
        raise AnchorMissing("sentence_detector: string constants with regex syntax")
    uses = {k: [] for k in frags}
    for f in db.fns.values():
        if not f.hir or "::tests::" in f.key or not f.key.startswith(("sudachi::sentence_detector", "<sudachi::sentence_detector")):
            continue
        for x, ps in walk(f.hir):
            if x.get("k") == "Path" and x.get("res") == "def" and x.get("path") in frags:
                building = _in_pattern(ps)
                if not building:
                    # `let open = OPEN_PARENTHESIS;` — the alias is judged by its own uses
                    let = next((p for p in reversed(ps) if p.get("k") == "Let"), None)
                    inner = [p for p in ps[ps.index(let) + 1:]] if let is not None else None
                    if let is not None and all(p.get("k") in ("AddrOf", "Cast", "DropTemps", "Block") for p in inner) and (let.get("pat") or {}).get("k") == "Bind":
                        lid = let["pat"].get("lid")
                        alias_uses = [ps2 for y, ps2 in walk(f.hir) if y.get("k") == "Path" and y.get("res") == "local" and y.get("lid") == lid]
                        building = bool(alias_uses) and all(_in_pattern(ps2) for ps2 in alias_uses)
                uses[x["path"]].append((f, x, building))
    for k, us in sorted(uses.items()):
        bad = [(f.short(), x.get("sp")) for f, x, b in us if not b]
        ctx.ob("%s|only-in-patterns" % k.split("::")[-1], not bad,
               "%s = %r is used %d time(s); uses outside pattern construction: %s" % (k.split("::")[-1], frags[k], len(us), bad), fn=us[0][0] if us else None,
               nontrivial=bool(us))
    ctx.floor(3)


@rule("C16.bos-consistency", "the dictionary look-back offset `bos + length` of NonBreakChecker is relative to the text handed to get_eos: either every writer of "
                             "`bos` stores 0 (the detector then receives the text from the sentence start on), or no caller hands get_eos a re-based sub-slice "
                             "together with a non-zero `bos` (the offset would be applied twice from the second sentence on)")
def bos_consistency(db, ctx):
    from ..db import walk, is_call, callee, call_args, path_ends, render, peel, lit_int, deref_let
    writers = []
    for f in db.fns.values():
        if not f.hir or f.pkg not in ("sudachi", "sudachi_cli", "sudachi-cli", "sudachipy"):
            continue
        for n, _ in walk(f.hir):
            if n.get("k") == "Struct" and (n.get("path") or "").endswith("NonBreakChecker"):
                for fl in n.get("fields", []):
                    if fl["name"] == "bos":
                        writers.append((f, fl["e"], n))
            if n.get("k") in ("Assign", "AssignOp") and peel(n["l"]).get("k") == "Field" and peel(n["l"]).get("name") == "bos" and "NonBreakChecker" in (peel(n["l"]).get("adt") or ""):
                writers.append((f, n["r"], n))
    if not writers:
        raise AnchorMissing("a writer of NonBreakChecker.bos")
    nonzero = [(f, e, n) for f, e, n in writers if lit_int(e) != 0 or n.get("k") == "AssignOp"]
    rebased = []
    ncalls = 0
    for f in db.fns.values():
        if not f.hir or f.pkg not in ("sudachi", "sudachi_cli", "sudachi-cli", "sudachipy"):
            continue
        for c, _ in walk(f.hir):
            if is_call(c) and path_ends(callee(c) or "", "SentenceDetector::get_eos"):
                a = call_args(c)
                has_checker = len(a) > 2 and "None" != render(a[2]).split("::")[-1]
                if not has_checker:
                    continue
                ncalls += 1
                txt = peel(deref_let(peel(a[1])))
                while isinstance(txt, dict) and txt.get("k") in ("AddrOf", "Deref", "Unary"):
                    txt = peel(deref_let(peel(txt.get("e"))))
                if isinstance(txt, dict) and txt.get("k") == "Index":
                    r = render(txt.get("i"))
                    if "RangeFull" not in r and not r.replace(" ", "").startswith("ops::RangeTo{"):
                        rebased.append((f, render(txt)[:60]))
    for i, (f, e, n) in enumerate(writers):
        ctx.ob("bos-writer|%s#%d" % (f.short(), i + 1), lit_int(e) == 0 or not rebased,
               "%s writes NonBreakChecker.bos = `%s`; get_eos call sites that pass a checker together with a re-based sub-slice: %s%s" % (
                   f.short(), render(e)[:60], [(g.short(), t) for g, t in rebased],
                   "" if (lit_int(e) == 0 or not rebased) else " — the look-back position is bos + length INSIDE that sub-slice: the offset is applied twice"),
               fn=f, site=n.get("sp"))
    ctx.ob("get_eos-calls", ncalls >= 1, "%d get_eos call site(s) with a checker inspected (floor 1)" % ncalls, nontrivial=False)
    ctx.floor(2)
