"""C16 — sentence splitting partitions the text and breaks only after terminators."""
from ..engine import rule
from ..db import (walk, peel, peel_casts, render, callee, path_ends, short_path, is_call, call_args, lit_int,
                  exit_kind, path_conditions, atoms, AnchorMissing, local_name)
from ..guards import guarded_exits, mentions, is_call_to, cmp_atom
from ..origins import origins, for_loop_parts

META = {
    "explanation": (
        "(word-extent) when a dictionary word ends exactly on the candidate boundary, the veto in has_non_break_word must be "
        "computed from the matched word's extent: any slice of the input in that arm has to be bounded above by the entry's "
        "end / the boundary (an open-ended input[i..] counts text after the word, so a one-character entry for the "
        "terminator itself suppresses the break whenever text follows); (vetoes) every boundary get_eos accepts has passed "
        "the bracket-level, itemisation, continuous-phrase and non-break-word vetoes with rejecting polarity, and the "
        "closing-bracket/comma run is added to it; (cover) SentenceIter::next yields self.position..end, advances "
        "position to end, slices self.data by that range and stops exactly at position == data.len(). NOT decided: "
        "non-emptiness/termination (needs get_eos != 0 for non-empty input — a fact about the regexes), behaviour beyond "
        "the window limit, the regexes themselves."),
    "decided": ["word-extent", "vetoes", "cover"],
    "not_decided": ["termination / non-empty sentences (regex facts)", "window-limit path", "regex contents"],
}


@rule("C16.word-extent", "in NonBreakChecker::has_non_break_word the Ordering::Equal verdict inspects only the matched word: every slice of "
                         "the input in that arm is bounded above by entry.end / the boundary")
def word_extent(db, ctx):
    f = db.one("has_non_break_word", "NonBreakChecker")
    arms = []
    for n, ps in walk(f.hir):
        if n.get("k") == "Match" and n.get("src") == "Normal":
            for a in n["arms"]:
                pth = (a["pat"].get("e") or {}).get("path") or a["pat"].get("path") or ""
                if pth.endswith("Ordering::Equal"):
                    arms.append((n, a))
    if not arms:
        raise AnchorMissing("has_non_break_word: Ordering::Equal arm")
    for m, a in arms:
        slices = [x for x, _ in walk(a["body"]) if x.get("k") == "Index" and "str" in (x.get("bty") or "")]
        if not slices:
            txt = render(a["body"])
            ok = ("end_byte" in txt or "eos_byte" in txt or ".end" in txt)
            ctx.ob("equal-arm|verdict-uses-extent", ok, "Equal arm `%s` does not slice the input; it must still consult the word's end: %s" % (txt[:120], ok), fn=f)
            continue
        for s in slices:
            rng = peel(s["i"])
            kind = (rng.get("path") or "").split("::")[-1] if rng.get("k") == "Struct" else render(rng)
            bounded = False
            if rng.get("k") == "Struct" and kind in ("Range", "RangeInclusive", "RangeTo", "RangeToInclusive"):
                fl = {x["name"]: x["e"] for x in rng["fields"]}
                if "end" in fl:
                    og = origins(db, f, fl["end"], depth=0)
                    bounded = any((o[0] == "field" and o[2] == "end") for o in og) or "eos_byte" in render(fl["end"]) or "end_byte" in render(fl["end"])
            ctx.ob("equal-arm|slice-bounded", bounded,
                   "Equal arm inspects `%s` (%s): %s" % (render(s), kind,
                                                         "bounded by the matched word's end" if bounded else
                                                         "NOT bounded above — characters after the matched word are counted, so a single-character "
                                                         "entry equal to the terminator vetoes the break whenever any text follows"),
                   fn=f, site=s.get("sp"))
    # Greater arm vetoes
    gt = False
    for m, a in arms:
        for a2 in m["arms"]:
            pth = (a2["pat"].get("e") or {}).get("path") or a2["pat"].get("path") or ""
            if pth.endswith("Ordering::Greater"):
                b = peel(a2["body"])
                gt = b.get("k") == "Ret" and peel(b.get("e")).get("v") is True
    ctx.ob("greater-arm|veto", gt, "a word extending past the boundary vetoes the break (`return true`): %s" % gt, fn=f)
    cmp_ok = any(c.get("k") == "MethodCall" and c.get("method") == "cmp" and "end" in render(c["recv"]) and "eos_byte" in render(c["args"][0]) for c, _ in walk(f.hir))
    ctx.ob("compares-end-with-boundary", cmp_ok, "the match compares the entry end with the boundary (end.cmp(&eos_byte)): %s" % cmp_ok, fn=f)


@rule("C16.vetoes", "the boundary returned by get_eos has passed parenthesis_level, ITEMIZE_HEADER, is_continuous_phrase and (with a "
                    "checker) has_non_break_word, each with rejecting polarity; prohibited_bos is added to it")
def vetoes(db, ctx):
    f = db.one("get_eos", "SentenceDetector")
    loop = None
    for n, ps in walk(f.hir):
        fl = for_loop_parts(n) if n.get("k") == "Match" else None
        if fl and "SENTENCE_BREAKER" in render(fl[0]):
            loop = fl
    if loop is None:
        raise AnchorMissing("get_eos: loop over SENTENCE_BREAKER matches")
    it, pat, body = loop
    ret = None
    for n, ps in walk(body):
        if n.get("k") == "Ret" and "Ok" in render(n) and not any(p.get("k") == "If" for p in ps):
            ret = n
    if ret is None:
        raise AnchorMissing("get_eos: `return Ok(eos)` at loop-body level")
    pcs = path_conditions(ret["id"], body) or []
    neg = []
    for c, pol in pcs:
        if isinstance(c, dict):
            for a, p in atoms(c, pol):
                neg.append((render(a), p))
    txt = " ; ".join(("" if p else "!") + a for a, p in neg)
    need = {"parenthesis_level": False, "ITEMIZE_HEADER": False, "is_continuous_phrase": False}
    for a, p in neg:
        if "parenthesis_level" in a and "> 0" in a and p is False:
            need["parenthesis_level"] = True
        if "ITEMIZE_HEADER" in a and "is_match" in a and p is False:
            need["ITEMIZE_HEADER"] = True
    # `eos < len && is_continuous_phrase` negated gives a disjunction; look at the statement directly
    for st in body.get("stmts", []):
        e = st.get("e") or {}
        if e.get("k") == "If" and exit_kind(e["then"]) == "continue" and "is_continuous_phrase" in render(e["cond"]):
            need["is_continuous_phrase"] = True
    for k, v in need.items():
        ctx.ob("veto|%s" % k, v, "veto %s precedes the accepting return with `continue` polarity: %s (conditions at the return: %s)" % (k, v, txt[:200]), fn=f)
    nb = False
    for st in body.get("stmts", []):
        e = st.get("e") or {}
        if e.get("k") == "If" and peel(e["cond"]).get("k") == "LetExpr" and "checker" in render(e["cond"]):
            for x, _ in walk(e["then"]):
                if x.get("k") == "If" and "has_non_break_word" in render(x["cond"]) and exit_kind(x["then"]) == "continue":
                    nb = True
    ctx.ob("veto|has_non_break_word", nb, "with a checker present, has_non_break_word(..) == true continues to the next candidate: %s" % nb, fn=f)
    pb = any(e.get("k") == "AssignOp" and e.get("op") == "Add" and "prohibited_bos" in render(e["r"]) and local_name(e["l"]) == "eos" for e, _ in walk(body))
    ctx.ob("prohibited_bos-added", pb, "closing brackets / commas / terminators after the match are added to the boundary (eos += prohibited_bos(..)): %s" % pb, fn=f)
    nbc = None
    for x, _ in walk(body):
        if is_call(x) and path_ends(callee(x), "has_non_break_word"):
            nbc = [render(a) for a in call_args(x)]
    ctx.ob("has_non_break_word-args", nbc is not None and nbc[1:] == ["input", "eos"], "has_non_break_word is called with (input, eos): %s" % nbc, fn=f)


@rule("C16.cover", "SentenceIter::next yields position..end, sets position=end, slices data by that range, ends at position==data.len(); "
                   "end = data.len() for a negative get_eos result, position+rv otherwise")
def cover(db, ctx):
    fs = [f for f in db.impls_of("Iterator::next") if "SentenceIter" in f.key]
    if len(fs) != 1:
        raise AnchorMissing("<SentenceIter as Iterator>::next")
    f = fs[0]
    stop = False
    for ifn, cond, pol, ek, ps in guarded_exits(f.hir):
        c = cmp_atom(cond)
        if c and c[0] == "Eq" and "position" in render(cond) and "data.len()" in render(cond) and pol and ek in ("none", "ret"):
            stop = True
    ctx.ob("stops-at-end", stop, "returns None exactly when self.position == self.data.len(): %s" % stop, fn=f)
    lets = {n["pat"].get("name"): n["init"] for n, _ in walk(f.hir) if n.get("k") == "Let" and "init" in n and n["pat"].get("k") == "Bind"}
    rng = render(lets.get("range", {}))
    ok_rng = "start: self.position" in rng and "end: end" in rng
    ctx.ob("range=position..end", ok_rng, "yielded range is `%s`" % rng, fn=f)
    end = lets.get("end")
    ok_end = False
    if end and peel(end).get("k") == "If":
        e = peel(end)
        c = cmp_atom(e["cond"])
        ok_end = bool(c) and c[0] == "Lt" and lit_int(c[2]) == 0 and "data.len()" in render(e["then"]) and "self.position +" in render(e.get("else", {}))
    ctx.ob("end", ok_end, "end = `%s` (must be data.len() when rv<0, position+rv otherwise)" % render(end)[:100], fn=f)
    adv = any(n.get("k") == "Assign" and "position" in render(n["l"]) and local_name(n["r"]) == "end" for n, _ in walk(f.hir))
    ctx.ob("advances", adv, "self.position = end: %s" % adv, fn=f)
    sl = render(lets.get("real_slice", {}))
    ctx.ob("slice-by-range", "self.data[" in sl and "range" in sl, "yielded text is `%s`" % sl, fn=f)
    src = render(lets.get("slice", {}))
    ctx.ob("get_eos-on-rest", "self.data[" in src and "self.position" in src and any(is_call(c) and path_ends(callee(c), "get_eos") for c, _ in walk(f.hir)),
           "get_eos is applied to `%s`" % src, fn=f)


@rule("C16.bracket-level", "parenthesis_level never goes below zero: the decrement for a closing bracket is guarded by level > 0 (or saturating), so a "
                           "stray closer cannot cancel a later opener")
def bracket_level(db, ctx):
    f = db.one("parenthesis_level", None)
    decs = [(n, ps) for n, ps in walk(f.hir) if n.get("k") == "AssignOp" and n.get("op") == "Sub" and local_name(n["l"]) is not None]
    sat = any(c.get("k") == "MethodCall" and c.get("method") in ("saturating_sub", "checked_sub") for c, _ in walk(f.hir))
    if not decs and not sat:
        raise AnchorMissing("parenthesis_level: level decrement")
    for n, ps in decs:
        nm = local_name(n["l"])
        pcs = path_conditions(n["id"], f.hir) or []
        guarded = False
        for c, pol in pcs:
            if isinstance(c, dict):
                for a, p in atoms(c, pol):
                    cm = cmp_atom(a)
                    if cm and p and ((cm[0] == "Gt" and local_name(cm[1]) == nm and lit_int(cm[2]) == 0) or (cm[0] == "Ge" and local_name(cm[1]) == nm and lit_int(cm[2]) == 1)
                                     or (cm[0] == "Ne" and local_name(cm[1]) == nm and lit_int(cm[2]) == 0)):
                        guarded = True
        ctx.ob("decrement-guarded", guarded, "`%s` is executed only when %s > 0: %s (a closer at level 0 must be ignored, not remembered as a negative balance)" % (render(n), nm, guarded), fn=f, site=n.get("sp"))
    ctx.ob("returns-usize", f.info.get("output", "").startswith("std::result::Result<usize"), "parenthesis_level returns %s" % f.info.get("output", "")[:50], fn=f)
