"""C06 — the dictionary compiler is total and never emits an invalid dictionary."""
from ..engine import rule
from ..db import (walk, peel, peel_casts, render, callee, path_ends, short_path, is_call, call_args, lit_int,
                  diverges, exit_kind, path_conditions, atoms, AnchorMissing, local_name, find_by_id)
from ..guards import guarded_exits, eval3, bound_cmp_evaluator, mentions, is_call_to, cmp_atom, holds
from ..origins import origins, derived_fns, unwrap_try, index as oindex, pat_bindings, owners
from ..uses import consumer, is_result_ty
from .. import cg

META = {
    "explanation": (
        "Decided for all inputs at once: (no-panic) the closure of DictBuilder's public API contains no explicit panic "
        "macro / Result unwrap outside a frozen allow-table whose entries are each discharged by another rule; "
        "(resolved-first) compile() checks split resolution before anything else; (tainted-index) every container "
        "index in dic::build computed from parsed input is dominated by a rejecting bound comparison on each parsed "
        "component; (validate) validate_entries rejects left/right ids >= the matrix size, negative right ids of indexed "
        "entries, and sends every word reference through validate_wid whose reject-set is word>=max; (ext-precond) "
        "yada's builder (which panics on an empty key set) is only called under a non-empty check; (sink) every "
        "io::Write result in the build closure is propagated, never dropped; (limits) array/string length limits agree "
        "with the 1-byte count / 15-bit length encodings; (axis) word connection ids are validated against the matrix dimension that bounds them at the "
        "lattice's lookups (finding F15); (ref-space) word references are validated against the table they are resolved in. NOT decided: that every accepted CSV loads and analyses; the "
        "csv crate's behaviour on arbitrary bytes; allocation failure."),
    "decided": ["no-panic", "resolved-first", "tainted-index", "validate", "ext-precond", "sink", "limits", "ref-space", "axis"],
    "not_decided": ["that every accepted CSV loads and analyses (value-level)", "csv/yada crate internals"],
    "trusted": ["yada::DoubleArrayBuilder::build panics on an empty key set (observed during triage)"],
}

BUILD_ENTRIES = ("DictBuilder<D>::read_lexicon", "DictBuilder<D>::read_conn", "DictBuilder<D>::resolve",
                 "DictBuilder<D>::compile", "DictBuilder<D>::new_user", "DictBuilder<sudachi::dic::build::NoDic>::new_system",
                 "DictBuilder<D>::set_compile_time", "DictBuilder<D>::set_description", "DictBuilder<D>::report")


def build_closure(db):
    g = cg.get(db)
    entries = [k for k in db.fns if any(k.endswith("::" + e) for e in BUILD_ENTRIES)]
    if len(entries) < 5:
        raise AnchorMissing("DictBuilder public API", "(%d entries found)" % len(entries))
    return g, entries, g.closure(entries)


ALLOW = {
    ("LexiconReader::validate_entries", "panic"): "unresolved inline splits cannot reach validation: compile() returns "
                                                  "Err(UnresolvedSplits) first (C06.resolved-first)",
    ("<SplitUnit as ToU32>::to_u32", "panic"): "same: writing happens after check_if_resolved() (C06.resolved-first)",
    ("LexiconReader::validate_wid", "panic"): "dictionary number is 0 or 1 by construction: parse_wordid only produces "
                                              "WordId::new/checked(0|1, ..) (checked by C06.wid-dic)",
    ("LexiconReader::preload_pos", "assert_eq"): "called once from DictBuilder::new_user on a fresh reader (pos table empty)",
    ("pos_obj::{closure#0}", "assert_eq"): "pos table stores (key -> its own insertion index) — invariant of pos_of/preload_pos",
    ("<SPLIT_REGEX as Deref>::deref::__static_ref_initialize", "Result::unwrap"): "constant regex literal",
    ("<EMPTY_LINE as Deref>::deref::__static_ref_initialize", "Result::unwrap"): "constant regex literal",
    ("<WORD_ID_LITERAL as Deref>::deref::__static_ref_initialize", "Result::unwrap"): "constant regex literal",
    ("<UNICODE_LITERAL as Deref>::deref::__static_ref_initialize", "Result::unwrap"): "constant regex literal",
    ("<NoDic as DictionaryAccess>::grammar", "panic"): "NoDic is an uninhabited enum: no value exists to call it on",
    ("<NoDic as DictionaryAccess>::lexicon", "panic"): "NoDic is an uninhabited enum: no value exists to call it on",
    ("Lexicon::set_dic_id", "assert"): "C12.capacity",
    ("cow_array::copy_of_bytes", "assert_eq"): "see C20.no-panic-load",
    ("cow_array::copy_of_bytes", "Result::unwrap"): "see C20.no-panic-load",
}


@rule("C06.no-panic", "no explicit panic macro / Result unwrap reachable from DictBuilder's public API outside the "
                      "frozen allow-table (each entry discharged by a named rule)")
def no_panic(db, ctx):
    g, entries, clo = build_closure(db)
    d = derived_fns(db)
    n = 0
    for k in sorted(clo):
        f = db.fns[k]
        if f.pkg != "sudachi" or k in d or "_serde" in k:
            continue
        if "::dic::build::" not in k and "NoDic" not in k:
            continue  # reader-side helpers reached through BinDictResolver are C04/C05/C20 territory
        n += 1
        ctx.touch(f)
        for s in cg.panic_sites(f):
            if cg.is_debug_only(s):
                continue
            mac = cg.macro_of(s)
            if s["kind"] == "unwrap":
                if not s["callee"].startswith("Result"):
                    continue
                what = s["callee"]
            else:
                if mac is None:
                    continue
                what = mac
            allowed = None
            own = f
            for (suffix, w), reason in ALLOW.items():
                for o in owners(db, f):
                    if o.short().endswith(suffix) and w == what and allowed is None:
                        allowed, own = reason, o
            ctx.ob("%s|%s" % (own.short(), what), allowed is not None,
                   "%s: %s at %s, reachable via %s%s" % (f.short(), what, s["sp"], " → ".join(g.path(entries, k) or []),
                                                       (" — allowed: " + allowed) if allowed else " — NOT allowed: a panic on compiler input"),
                   fn=f, site=s["sp"])
    ctx.ob("closure-size", n >= 60, "build closure has %d dic::build functions (floor 60)" % n, nontrivial=False)
    ctx.floor(8)


@rule("C06.resolved-first", "DictBuilder::compile calls check_if_resolved()? before validating or writing; check_if_resolved "
                            "returns Err when inline splits exist and resolve() has not succeeded; `resolved` becomes true only "
                            "in resolve_impl")
def resolved_first(db, ctx):
    comp = db.one("compile", "DictBuilder")
    order = [short_path(callee(n)) for n, _ in walk(comp.hir) if is_call(n) and callee(n) in db.fns]
    first = order[0] if order else None
    cn = None
    for n, ps in walk(comp.hir):
        if is_call(n) and path_ends(callee(n), "check_if_resolved"):
            cn = (n, ps)
            break
    ok = first is not None and first.endswith("check_if_resolved") and cn is not None and consumer(cn[0], cn[1])[0] == "try"
    ctx.ob("compile|first-call", ok, "DictBuilder::compile: first workspace call is %s (must be check_if_resolved, consumed by `?`); "
                                     "call order: %s" % (first, order[:6]), fn=comp)
    chk = db.one("check_if_resolved", "DictBuilder")
    # truth table of the outcome over (inline splits exist, resolved): Err exactly for (true, false)
    from ..flow import outcomes

    def classify(e):
        if e.get("k") == "Call" and path_ends(e.get("callee"), ("Result::Ok", "Ok")):
            return "ok"
        if e.get("k") == "Call" and path_ends(e.get("callee"), ("Result::Err", "Err")):
            return "err"
        if is_call(e) and path_ends(callee(e) or "", ("DicCompilationCtx::err",)):
            return "err"
        return "unknown:" + render(e)[:40]
    table = {}
    for needs in (True, False):
        for res in (True, False):
            def ev(atom, needs=needs, res=res):
                a = peel(atom)
                if mentions(a, is_call_to("needs_split_resolution")) and a.get("k") in ("MethodCall", "Call", "Path"):
                    return needs
                if a.get("k") == "Field" and a.get("name") == "resolved":
                    return res
                return None
            table[(needs, res)] = sorted(outcomes(chk.hir, ev, classify))
    good = table[(True, False)] == ["err"] and all(v == ["ok"] for k_, v in table.items() if k_ != (True, False))
    ctx.ob("check_if_resolved|guard", good,
           "check_if_resolved returns an error exactly when needs_split_resolution() && !self.resolved: %s; outcome by (needs, resolved): %s" % (good, table), fn=chk)
    from ..origins import field_writes
    k, _ = db.adt("dic::build::DictBuilder")
    writers = [(f, v) for f, kind, v, n in field_writes(db, k, "resolved")]
    okw = True
    desc = []
    for f, v in writers:
        val = peel(v)
        is_true = val.get("k") == "Lit" and val.get("v") is True
        is_false = val.get("k") == "Lit" and val.get("v") is False
        desc.append("%s:=%s" % (f.short(), render(v)))
        if is_true and not f.short().endswith("resolve_impl"):
            okw = False
        if not (is_true or is_false):
            okw = False
    ctx.ob("resolved|writers", okw and len(writers) >= 2, "writers of DictBuilder.resolved: %s (true only inside resolve_impl)" % desc)
    # ... and only where resolution has succeeded or was not needed
    ri = db.one("resolve_impl", "DictBuilder")
    for n, ps in walk(ri.hir):
        if n.get("k") == "Assign" and peel(n["l"]).get("k") == "Field" and peel(n["l"]).get("name") == "resolved" and peel(n["r"]).get("v") is True:
            pcs = path_conditions(n["id"], ri.hir) or []
            ok_arm = any(isinstance(c, tuple) and c[0] == "arm" and (c[2].get("path") or "").split("::")[-1] == "Ok" for c, pol in pcs)
            # the Ok-side combinators of Result run their closure only for Ok: `res.map(|n| { self.resolved = true; n })`
            for i_, p_ in enumerate(ps):
                if p_.get("k") == "MethodCall" and p_.get("method") in ("map", "and_then", "inspect", "is_ok_and") and "Result<" in (p_.get("rty") or "") \
                        and i_ + 1 < len(ps) and ps[i_ + 1].get("k") == "Closure" and any(peel(a_) is ps[i_ + 1] for a_ in p_["args"]):
                    ok_arm = True
            not_needed = any(p2 is False and mentions(a2, is_call_to("needs_split_resolution"))
                             for c, pol in pcs if isinstance(c, dict) for a2, p2 in atoms(c, pol))
            after_try = False
            ctx.ob("resolve_impl|resolved=true-only-on-success#%s" % ("ok-arm" if ok_arm else "not-needed" if not_needed else "other"), ok_arm or not_needed,
                   "`self.resolved = true` is reached %s (must be inside the Ok arm of the resolution result, or when no resolution is needed): otherwise a failed "
                   "resolve() lets compile() run into the 'unresolved splits' panics" % ("in the Ok arm" if ok_arm else "when !needs_split_resolution()" if not_needed else "UNCONDITIONALLY / on the error path too"),
                   fn=ri, site=n.get("sp"))


def _build_fns(db):
    d = derived_fns(db)
    for f in db.fns.values():
        if f.pkg == "sudachi" and f.hir and "::dic::build::" in f.key and f.key not in d and "_serde" not in f.key:
            yield f


def _index_sites(f):
    for n, ps in walk(f.hir):
        if n.get("k") == "Index":
            yield n, ps


def _leaf_locals(e):
    out = {}
    for n, _ in walk(e):
        if n.get("k") == "Path" and n.get("res") == "local":
            out[n["lid"]] = n["name"]
    return out


@rule("C06.tainted-index", "every container index in dic::build whose index derives from a parsed value (parameter of "
                           "integer type fed by parse_*/it_next, or arithmetic on such) is dominated by a rejecting comparison "
                           "on each parsed component")
def tainted_index(db, ctx):
    ix = oindex(db)
    n_sites = 0
    for f in _build_fns(db):
        f = db.view(f, depth=4)
        b = ix.bindings(f)
        for n, ps in _index_sites(f):
            idx = n["i"]
            if lit_int(idx) is not None:
                continue
            if peel(idx).get("k") == "Struct" or "ops::Range" in (idx.get("ty") or ""):
                # range slicing: policed by the str/slice rules of other properties
                if not any(True for _ in _leaf_locals(idx)):
                    continue
            # expand locals to the parameters / parsed values they are computed from
            comps = _tainted_components(db, f, idx, b)
            if not comps:
                continue
            n_sites += 1
            pcs = path_conditions(n["id"], f.hir) or []
            guarded = {}
            for name, lid in comps.items():
                guarded[name] = any(_mentions_local(c, lid) for c, pol in pcs if isinstance(c, dict))
            ok = all(guarded.values())
            ctx.ob("%s|%s" % (f.short(), render(n)), ok,
                   "%s: `%s` indexes with values derived from parsed input %s; dominating rejecting comparisons per "
                   "component: %s" % (f.short(), render(n), sorted(comps), guarded), fn=f, site=n.get("sp"))
    ctx.floor(1)


def _mentions_local(cond, lid):
    from ..db import walk_x
    for x, _ in walk_x(cond):
        if x.get("k") == "Path" and x.get("res") == "local" and x.get("lid") == lid:
            return True
    return False


INT_TYS = {"i16", "u16", "i32", "u32", "i64", "u64", "usize", "isize", "i8", "u8"}


def _tainted_components(db, f, idx, b, depth=0):
    """parameters / parse results (integer typed) the index is computed from: {name: lid}"""
    out = {}
    ix = oindex(db)
    for lid, name in _leaf_locals(idx).items():
        bd = b.get(lid)
        if bd is None:
            continue
        if bd[0] == "param":
            pty = (f.info.get("inputs") or [])[bd[1]] if bd[1] < len(f.info.get("inputs") or []) else ""
            if pty in INT_TYS and _param_fed_by_parse(db, f, bd[1]):
                out[name] = lid
        elif bd[0] == "let" and bd[1] is not None and depth < 10:
            init = bd[1]
            # the initialiser ITSELF parses (not: some let it mentions does — that let is the component then)
            if any(is_call(x) and path_ends(callee(x), ("parse_i16", "it_next", "parse_u32", "str::parse", "from_str_radix")) for x, _ in walk(init)):
                out[name] = lid
            else:
                out.update(_tainted_components(db, f, init, b, depth + 1))
    return out


def _param_fed_by_parse(db, f, i):
    ix = oindex(db)
    for cf, cn in ix.callsites.get(f.key, []):
        args = call_args(cn)
        if i < len(args):
            og = origins(db, cf, args[i], depth=1)
            for o in og:
                if o[0] == "call" and path_ends(o[1] or "", ("it_next", "parse_i16", "parse_u32", "str::parse", "from_str_radix", "RecordWrapper::get")):
                    return True
    return False


@rule("C06.validate", "validate_entries rejects left_id>=max_left and right_id>=max_right (evaluated at max-1,max,max+1), "
                      "rejects a negative right_id of an indexed entry, and sends dic_form/splits/word_structure through "
                      "validate_wid, whose reject-set is word>=max")
def validate(db, ctx):
    f = db.view(db.one("validate_entries", "LexiconReader"), keep=("validate_wid",))
    for fld, bound in (("left_id", "max_left"), ("right_id", "max_right")):
        isb = lambda x, bound=bound: isinstance(x, dict) and x.get("k") == "Field" and x.get("name") == bound
        isv = lambda x, fld=fld: mentions(x, lambda y: y.get("k") == "Field" and y.get("name") == fld)
        found = None
        for ifn, cond, pol, ek, ps in guarded_exits(f.hir):
            if mentions(cond, isb) and isv(cond):
                vals = [eval3(cond, bound_cmp_evaluator(isb, p, isv)) for p in (-1, 0, 1)]
                vals = [bool(v is not None and v == pol) for v in vals]
                found = (cond, vals, ek)
        ok = found is not None and found[1] == [False, True, True] and found[2] in ("err", "ret")
        ctx.ob("validate_entries|%s<%s" % (fld, bound), ok,
               "validate_entries: guard on %s vs %s: %s rejects(max-1,max,max+1)=%s" % (
                   fld, bound, render(found[0]) if found else "MISSING", found[1] if found else None), fn=f)
    # negative right id of an indexed entry
    rej = False
    shown = []
    for ifn, cond, pol, ek, ps in guarded_exits(f.hir):
        if not mentions(cond, lambda y: y.get("k") == "Field" and y.get("name") == "right_id"):
            continue

        def ev(atom):
            a = peel(atom)
            if a.get("k") == "MethodCall" and a.get("method") == "should_index":
                return True
            c = cmp_atom(a)
            if c:
                op, l, r = c
                lf, rf = peel_casts(l), peel_casts(r)
                if lf.get("k") == "Field" and lf.get("name") == "right_id" and lit_int(r) is not None:
                    return holds(op, -1, lit_int(r))
                if rf.get("k") == "Field" and rf.get("name") == "right_id" and lit_int(l) is not None:
                    return holds(op, lit_int(l), -1)
                if lf.get("k") == "Field" and lf.get("name") == "left_id" and lit_int(r) is not None:
                    return holds(op, 0, lit_int(r))   # an indexed entry: left_id >= 0, take 0
            return None
        v = eval3(cond, ev)
        shown.append(render(cond))
        if v is not None and v == pol:
            rej = True
    ctx.ob("validate_entries|right_id>=0-if-indexed", rej,
           "validate_entries must reject right_id=-1 for an indexed entry (left_id>=0): a negative right id is later cast to "
           "u16 and indexes outside the connection matrix; guards mentioning right_id: %s" % shown, fn=f)
    # every word reference field goes through validate_wid
    k, adt = db.adt("build::lexicon::RawLexiconEntry")
    ref_fields = [fl["name"] for v in adt["variants"] for fl in v["fields"]
                  if any(a.endswith("word_id::WordId") or a.endswith("lexicon::SplitUnit") for a in fl.get("adts", []))]
    for fld in ref_fields:
        ok = False
        for g in [f] + [h for _, _, h in db.private_helpers(f)]:
            for n, ps in walk(g.hir):
                if is_call(n) and path_ends(callee(n), "validate_wid") and call_args(n):
                    if any(o[0] == "field" and o[1].endswith("RawLexiconEntry") and o[2] == fld for o in origins(db, g, call_args(n)[0], depth=2)):
                        ok = True
        ctx.ob("validate_entries|validate_wid(%s)" % fld, ok,
               "word-reference field RawLexiconEntry.%s is passed (directly or element-wise) to validate_wid: %s" % (fld, ok), fn=f)
    ctx.floor(6)
    vw = db.one("validate_wid", "LexiconReader")
    found = None
    isw = lambda x: mentions(x, is_call_to("WordId::word"))
    # the bound is the local that selects between the two dictionary sizes (whatever it is called): a local that is not the word part
    isb = lambda x: isinstance(x, dict) and x.get("k") == "Path" and x.get("res") == "local" and not isw(x)
    for ifn, cond, pol, ek, ps in guarded_exits(vw.hir):
        if isw(cond):
            vals = [eval3(cond, bound_cmp_evaluator(isb, p, isw)) for p in (-1, 0, 1)]
            vals = [bool(v is not None and v == pol) for v in vals]
            found = (cond, vals, ek)
    ctx.ob("validate_wid|word<max", found is not None and found[1] == [False, True, True],
           "validate_wid: guard %s rejects(max-1,max,max+1)=%s" % (render(found[0]) if found else "MISSING",
                                                                  found[1] if found else None), fn=vw)


@rule("C06.wid-dic", "word references parsed from CSV carry dictionary number 0 or 1 only (discharges validate_wid's panic arm)")
def wid_dic(db, ctx):
    f = db.one("parse_wordid", None)
    vals = []
    for n, ps in walk(f.hir):
        if is_call(n) and path_ends(callee(n), ("WordId::new", "WordId::checked", "WordId::from_raw")):
            a = call_args(n)
            v = lit_int(a[0]) if a else None
            vals.append((short_path(callee(n)), v))
    ok = bool(vals) and all(v in (0, 1) and not c.endswith("from_raw") for c, v in vals)
    ctx.ob("parse_wordid|dic in {0,1}", ok, "parse_wordid constructs word ids with dictionary numbers %s" % vals, fn=f)


@rule("C06.ext-precond", "yada::DoubleArrayBuilder::build (panics on an empty key set) is dominated by a non-empty check of "
                         "the key vector it receives")
def ext_precond(db, ctx):
    n_sites = 0
    for f in _build_fns(db):
        for n, ps in walk(f.hir):
            if is_call(n) and path_ends(callee(n), "DoubleArrayBuilder::build"):
                n_sites += 1
                arg = call_args(n)[0] if call_args(n) else None
                nm = local_name(arg)
                pcs = path_conditions(n["id"], f.hir) or []
                ok = False
                shown = []
                for c, pol in pcs:
                    if not isinstance(c, dict):
                        continue
                    for a, p in atoms(c, pol):
                        a2 = peel(a)
                        if a2.get("k") == "MethodCall" and a2.get("method") == "is_empty" and local_name(a2["recv"]) == nm and p is False:
                            ok = True
                        cm = cmp_atom(a2)
                        if cm and mentions(a2, lambda y: y.get("k") == "MethodCall" and y.get("method") == "len" and local_name(y["recv"]) == nm):
                            ok = True
                        shown.append(("" if p else "!") + render(a))
                ctx.ob("%s|DoubleArrayBuilder::build" % f.short(), ok,
                       "%s: yada::DoubleArrayBuilder::build(&%s) panics on an empty key set; dominating conditions: %s — "
                       "non-empty check present: %s" % (f.short(), nm, shown, ok), fn=f, site=n.get("sp"))
                # second precondition: yada terminates keys with a 0 byte, so a key containing NUL is truncated at it or collides with
                # another key's terminator (assertion failures inside the builder).  A rejecting NUL test must dominate the call, or the
                # record parser must reject such surfaces.
                def nul_test(cond):
                    from ..db import walk_x
                    for y, _ in walk_x(cond):
                        if y.get("k") == "MethodCall" and y.get("method") in ("contains", "any", "find", "position", "memchr") :
                            for z, _ in walk_x(y):
                                pz = peel(z)
                                if pz.get("k") == "Lit" and (pz.get("v") == 0 or pz.get("v") == chr(0) or pz.get("v") == [0]) and pz.get("t") != "bool":
                                    return True
                    return False
                fv = db.view(f)
                nul_ok = any(ek == "err" and nul_test(cond) for ifn, cond, pol, ek, ps_ in guarded_exits(fv.hir))
                pr = db.view(db.one("parse_record", "LexiconReader"))
                nul_ok = nul_ok or any(ek == "err" and nul_test(cond) for ifn, cond, pol, ek, ps_ in guarded_exits(pr.hir))
                ctx.ob("%s|DoubleArrayBuilder::build|nul-free-keys" % f.short(), nul_ok,
                       "%s: keys handed to yada must not contain a NUL byte (CSV escape \\u0000): rejecting NUL test before the call or in parse_record: %s"
                       % (f.short(), nul_ok), fn=f, site=n.get("sp"))
    ctx.floor(1)


WRITE_METHODS = ("Write::write_all", "Write::write", "Write::flush", "Write::write_fmt")


@rule("C06.sink", "every io::Write::{write_all,write,flush,write_fmt} result in dic::build is propagated (`?`, returned, "
                  "matched, passed on) — never dropped by `let _`, `.ok()`, an expression statement or unwrap")
def sink(db, ctx):
    n = 0
    for f in _build_fns(db):
        for c, ps in walk(f.hir):
            if not (c.get("k") == "MethodCall" and c.get("callee") and path_ends(c["callee"], WRITE_METHODS)):
                continue
            if not is_result_ty(c.get("ty", "")):
                continue
            kind, det = consumer(c, ps)
            ok = kind in ("try", "return", "match", "arg", "bound")
            n += 1
            ctx.ob("%s|%s#%d" % (f.short(), c["method"], _ordinal(f, c)), ok,
                   "%s: result of `%s` is %s%s" % (f.short(), render(c), kind, (" (" + str(det) + ")") if det else ""),
                   fn=f, site=c.get("sp"))
    # results of workspace write helpers (DicWriteResult / SudachiResult) inside the writers
    for f in _build_fns(db):
        for c, ps in walk(f.hir):
            if not is_call(c) or not is_result_ty(c.get("ty", "")):
                continue
            cal = callee(c) or ""
            if not path_ends(cal, ("write_u32_array", "Utf16Writer::write", "Utf16Writer::write_len", "Utf16Writer::write_empty_if_equal",
                                   "write_params", "write_word_info", "write_pos_table", "ConnBuffer::write_to", "Header::write_to",
                                   "write_grammar", "write_lexicon", "write_index", "LexiconWriter::write", "build_word_id_table", "build_trie")):
                continue
            kind, det = consumer(c, ps)
            ok = kind in ("try", "return", "match", "arg", "bound")
            n += 1
            ctx.ob("%s|%s#%d" % (f.short(), short_path(cal), _ordinal(f, c)), ok,
                   "%s: result of `%s` is %s%s" % (f.short(), render(c), kind, (" (" + str(det) + ")") if det else ""),
                   fn=f, site=c.get("sp"))
    # `Write::write` may write fewer bytes than asked and still return Ok: on the sink only write_all is acceptable
    for f in _build_fns(db):
        for c, ps in walk(f.hir):
            if c.get("k") == "MethodCall" and c.get("method") == "write" and path_ends(c.get("callee") or "", "io::Write::write"):
                ctx.ob("%s|Write::write#%d" % (f.short(), _ordinal(f, c)), False,
                       "%s: `%s` uses io::Write::write, which may perform a SHORT write and return Ok(n < len): a sink that runs out of room is "
                       "reported as success; the sink must be written with write_all" % (f.short(), render(c)[:70]), fn=f, site=c.get("sp"))
    ctx.floor(30)


def _ordinal(f, node):
    i = 0
    for n, _ in walk(f.hir):
        if n is node:
            return i
        if n.get("k") == node.get("k") and n.get("callee") == node.get("callee"):
            i += 1
    return i


@rule("C06.limits", "length limits agree with the encodings: write_u32_array rejects len>127 before the 1-byte count; "
                    "write_len rejects len>i16::MAX before the 15-bit length; MAX_ARRAY_LEN<=127, MAX_DIC_STRING_LEN<=i16::MAX")
def limits(db, ctx):
    f = db.one("write_u32_array", None)
    res = []
    for p in (127, 128):
        rej = False
        for ifn, cond, pol, ek, ps in guarded_exits(f.hir):
            v = eval3(cond, _const_ev(p))
            if v is not None and v == pol and ek in ("err", "ret"):
                rej = True
        res.append(rej)
    ctx.ob("write_u32_array|len<=127", res == [False, True], "write_u32_array rejects(len=127,128)=%s (count is one byte, readers "
                                                              "treat it as 0..=127 entries)" % res, fn=f)
    g = db.one("write_len", "Utf16Writer")
    res = []
    for p in (32767, 32768):
        rej = False
        for ifn, cond, pol, ek, ps in guarded_exits(g.hir):
            v = eval3(cond, _const_ev(p))
            if v is not None and v == pol and ek in ("err", "ret"):
                rej = True
        res.append(rej)
    ctx.ob("write_len|len<=i16::MAX", res == [False, True], "write_len rejects(len=32767,32768)=%s (15-bit length)" % res, fn=g)
    a = db.const("dic::build::MAX_ARRAY_LEN")
    s = db.const("dic::build::MAX_DIC_STRING_LEN")
    ctx.ob("consts", a is not None and a <= 127 and s is not None and s <= 32767,
           "MAX_ARRAY_LEN=%s (<=127), MAX_DIC_STRING_LEN=%s (<=32767)" % (a, s))


def _const_ev(x):
    def ev(atom):
        c = cmp_atom(atom)
        if not c:
            return None
        op, l, r = c
        lv, rv = lit_int(l), lit_int(r)
        if rv is not None and lv is None:
            return holds(op, x, rv)
        if lv is not None and rv is None:
            return holds(op, lv, x)
        return None
    return ev


@rule("C06.ref-space", "a reference is validated against the size of the table the loader resolves it in: the dictionary form is looked up in "
                       "the word's OWN lexicon (WordInfos::get_word_info -> self.parse_word_info), so its bound must be this file's entry "
                       "count (not the system dictionary's) and a dictionary-1 ('U') reference must be rejected")
def ref_space(db, ctx):
    rd = db.one("get_word_info", "WordInfos")
    same_lexicon = False
    for c, _ in walk(rd.hir):
        if c.get("k") == "MethodCall" and c.get("method") == "parse_word_info" and local_name(c["recv"]) == "self":
            og = origins(db, rd, c["args"][0], depth=0)
            if any(o[0] == "field" and o[2] == "dictionary_form_word_id" for o in og):
                same_lexicon = True
    ctx.ob("reader|dictionary-form-resolved-in-own-lexicon", same_lexicon,
           "WordInfos::get_word_info resolves dictionary_form_word_id with self.parse_word_info(..) — i.e. inside the word's own lexicon: %s" % same_lexicon, fn=rd)
    if not same_lexicon:
        return
    f = db.view(db.one("validate_entries", "LexiconReader"), keep=("validate_wid",))
    found = False
    for c, ps in walk(f.hir):
        if is_call(c) and path_ends(callee(c), "validate_wid") and mentions(c, lambda y: y.get("k") == "Field" and y.get("name") == "dic_form"):
            a = call_args(c)
            og0 = origins(db, f, a[1], depth=0)
            fields0 = {o[2] for o in og0 if o[0] == "field"}
            unknown0 = any(o[0] == "unknown" for o in og0)
            own = "entries" in fields0 and "num_system" not in fields0 and not unknown0
            user_rejected = lit_int(a[2]) == 0
            found = True
            ctx.ob("validate_entries|dic_form-bound", own and user_rejected,
                   "validate_wid(e.dic_form, `%s`, `%s`, ..): bound for plain ids derives from fields %s%s (must be this file's own entry count only), "
                   "bound for 'U' ids = %s (must be the constant 0: the loader cannot resolve them)%s" % (
                       render(a[1]), render(a[2]), sorted(fields0), " + a branch" if unknown0 else "", render(a[2]),
                       "" if own and user_rejected else " — a user dictionary whose dictionary-form column holds a valid SYSTEM word number compiles and "
                                                        "then indexes outside its own word table when the word is analysed"),
                   fn=f, site=c.get("sp"))
    if not found:
        raise AnchorMissing("validate_entries: validate_wid(e.dic_form, ..)")


BUFFERING = ("BufWriter::new", "BufWriter::with_capacity", "LineWriter::new", "LineWriter::with_capacity", "BufWriter<W>::new", "BufWriter<W>::with_capacity")


@rule("C06.sink-buffered", "no buffering writer (BufWriter / LineWriter) is layered over the output sink in the build closure unless the same "
                           "function flushes it (flush / into_inner) and propagates that Result — a BufWriter dropped with pending bytes "
                           "swallows the sink's error")
def sink_buffered(db, ctx):
    n = 0
    for f in _build_fns(db):
        for c, ps in walk(f.hir):
            if is_call(c) and any(path_ends(callee(c), b) for b in BUFFERING):
                n += 1
                flushed = False
                for c2, ps2 in walk(f.hir):
                    if c2.get("k") == "MethodCall" and c2.get("method") in ("flush", "into_inner") and ("BufWriter" in (c2.get("rty") or "") or "LineWriter" in (c2.get("rty") or "")):
                        kind, det = consumer(c2, ps2)
                        if kind in ("try", "return", "match"):
                            flushed = True
                ctx.ob("%s|%s" % (f.short(), short_path(callee(c))), flushed,
                       "%s wraps the sink in `%s`; explicit flush()/into_inner() with a propagated Result in the same function: %s%s" % (
                           f.short(), render(c)[:60], flushed,
                           "" if flushed else " — BufWriter's Drop ignores io errors, so a sink failure while flushing the tail would be reported as success"),
                       fn=f, site=c.get("sp"))
    ctx.ob("buffering-writers-in-build", True, "%d buffering writers constructed in dic::build" % n, nontrivial=False)


@rule("C06.axis", "a word's left / right connection id is validated by the compiler against the matrix dimension that bounds it at the lattice's "
                  "matrix lookups (left id < num_right, right id < num_left: see C20.axis), not merely against the homonymous one")
def axis(db, ctx):
    from .C20 import node_id_axes
    nax, sites = node_id_axes(db)
    lr = db.one("set_max_conn_sizes", "LexiconReader")
    bd = oindex(db).bindings(lr)
    stored = {}
    for n, _ in walk(lr.hir):
        if n.get("k") == "Assign" and peel(n["l"]).get("k") == "Field":
            r = peel_casts(n["r"])
            if r.get("k") == "Path" and r.get("res") == "local" and bd.get(r["lid"], ("",))[0] == "param":
                stored[peel(n["l"])["name"]] = bd[r["lid"]][1]
    dims = {}
    for cf, cn in oindex(db).callsites.get(lr.key, []):
        if "::test" in cf.key:
            continue
        args = call_args(cn)
        for fld, i in stored.items():
            if i < len(args):
                for o in origins(db, cf, args[i], depth=0):
                    if o[0] == "call":
                        nm = short_path(o[1]).split("::")[-1]
                        if nm in ("num_left", "left"):
                            dims.setdefault(fld, set()).add("num_left")
                        if nm in ("num_right", "right"):
                            dims.setdefault(fld, set()).add("num_right")
    for fld, bound in (("left_id", "max_left"), ("right_id", "max_right")):
        validated = dims.get(bound, set())
        required = nax.get(fld[:-3], set())
        ok = bool(validated) and validated == required
        ctx.ob("validate_entries|%s|axis" % fld, ok,
               "RawLexiconEntry.%s is compared with self.%s, which the builders set from %s; at the lattice's matrix lookups a word's %s is bounded "
               "by %s%s" % (fld, bound, sorted(validated), fld.replace("_", " "), sorted(required),
                            "" if ok else " — the OTHER axis: with a non-square matrix a word with an id in [%s, %s) compiles and indexes outside the matrix"
                            % tuple(sorted(validated | required)) if len(validated | required) == 2 else ""),
               sig="required=%s;validated=%s" % (sorted(required), sorted(validated)))
    ctx.floor(2)


SUB_ALLOW = {
    ("LexiconReader::write_pos_table", "self.pos.len()", "self.start_pos"):
        "start_pos is set to pos.len() by preload_pos and the POS table only grows afterwards (C12.builder|preload_pos|start_pos)",
}


@rule("C06.unsigned-sub", "no unsigned subtraction in the compiler can underflow on input data: every `A - B` in the build closure is dominated by a "
                          "rejecting comparison of the same two quantities (unreachable when B = A + 1), or subtracts an earlier value of a "
                          "monotonically growing counter, or is in the audited table")
def unsigned_sub(db, ctx):
    from ..inline import nf
    from ..flow import holds_at
    from ..db import deref_all
    g, entries, clo = build_closure(db)
    UNS = {"usize", "u32", "u16", "u8", "u64"}
    n = 0
    for k in sorted(clo):
        f = db.fns[k]
        if f.pkg != "sudachi" or not f.hir or "::test" in k or ("::dic::build::" not in k and "::dic::header::" not in k):
            continue
        for x, ps in walk(f.hir):
            if x.get("k") not in ("Binary", "AssignOp") or x.get("op") != "Sub" or x.get("mac"):
                continue
            ty = x.get("ty") if x.get("k") == "Binary" else x["l"].get("ty")
            if ty not in UNS or (lit_int(x["l"]) is not None and lit_int(x["r"]) is not None):
                continue
            a, b = nf(x["l"]), nf(x["r"])
            n += 1
            why = None
            # (1) dominated by a comparison of the same two quantities
            pcs = path_conditions(x["id"], f.hir) or []

            def ev_at(delta):
                def ev(atom):
                    c = cmp_atom(atom)
                    if not c:
                        return None
                    l_, r_ = nf(c[1]), nf(c[2])
                    if l_ == b and r_ == a:
                        return holds(c[0], delta, 0)       # B = A + delta
                    if l_ == a and r_ == b:
                        return holds(c[0], 0, delta)
                    return None
                return ev
            if holds_at(pcs, ev_at(1)) is False and holds_at(pcs, ev_at(0)) is not False:
                why = "dominated by a comparison that excludes %s > %s" % (b, a)
            # (2) literal subtrahend guarded by a comparison of A with a literal
            if why is None and lit_int(x["r"]) is not None:
                kv = lit_int(x["r"])

                def ev_lit(val):
                    def ev(atom):
                        c = cmp_atom(atom)
                        if not c:
                            return None
                        if nf(c[1]) == a and lit_int(c[2]) is not None:
                            return holds(c[0], val, lit_int(c[2]))
                        if nf(c[2]) == a and lit_int(c[1]) is not None:
                            return holds(c[0], lit_int(c[1]), val)
                        return None
                    return ev
                if holds_at(pcs, ev_lit(kv - 1)) is False:
                    why = "reached only when %s >= %d" % (a, kv)
            # (3) earlier value of a counter that only grows
            if why is None:
                la, lb = peel_casts(x["l"]), deref_all(x["r"])
                captured = isinstance(lb, dict) and lb.get("k") == "Path" and lb.get("lid") == la.get("lid") and peel_casts(x["r"]).get("lid") != la.get("lid")
                started_at = la.get("k") == "Path" and "mut_init" in la and nf(la["mut_init"]) == b        # `let mut total = start; .. total - start`
                if la.get("k") == "Path" and la.get("res") == "local" and (captured or started_at):
                    grows_only = all(y.get("op") == "Add" for y, _ in walk(f.hir) if y.get("k") == "AssignOp" and peel(y["l"]).get("lid") == la.get("lid")) and \
                        not any(y.get("k") == "Assign" and peel(y["l"]).get("lid") == la.get("lid") for y, _ in walk(f.hir))
                    if grows_only:
                        why = "`%s` is an earlier (or the initial) value of the counter `%s`, which is only ever increased" % (render(x["r"]), render(x["l"]))
            if why is None:
                for (fn_, a_, b_), reason in SUB_ALLOW.items():
                    if f.short().endswith(fn_) and a == a_ and b == b_:
                        why = "audited: " + reason
            ctx.ob("%s|%s - %s" % (f.short(), a, b), why is not None,
                   "%s: unsigned `%s` — %s" % (f.short(), render(x), why or "NOT protected: when the right operand exceeds the left one the debug build panics "
                                               "('attempt to subtract with overflow') and the release build wraps"), fn=f, site=x.get("sp"))
    ctx.floor(1)


@rule("C06.field-source", "the compiled word-info records carry, in each slot, the attribute the loader reads from it (re-evaluation of C05.field-source: a length slot filled from the wrong attribute compiles and loads, and fails only when a split is taken)")
def field_source_reeval(db, ctx):
    from . import C05
    C05.field_source(db, ctx)


@rule("C06.len-prefix", "every string length the compiler accepts is written in a form the loader reads back as the same length (re-evaluation of C05.len-prefix: "
                        "the one-byte form is used only below the loader's two-byte threshold)")
def len_prefix_reeval(db, ctx):
    from . import C05
    C05.len_prefix(db, ctx)


@rule("C06.matrix-index", "the compiler writes each connection cost to the cell the loader reads it from, for every matrix shape (re-evaluation of "
                          "C02.matrix-index: with the other dimension as the row stride a well-formed non-square matrix makes the compiler index out of "
                          "bounds — a panic — or land in cells the loader never reads)")
def matrix_index_reeval(db, ctx):
    from . import C02
    C02.matrix_index(db, ctx)


@rule("C06.refs-validated-for-every-entry", "validate_entries checks the word references (dictionary form, split A / B, word structure) of EVERY entry: the "
                                            "validate_wid calls inside the entry loop are not skipped for entries that are not indexed (left id < 0) or on "
                                            "any other ground taken from the connection ids — a hidden entry, reachable only as a split unit, with a dangling "
                                            "reference would otherwise compile and fail at load / lookup")
def refs_validated(db, ctx):
    from ..loops import iterations
    from ..db import deref_all
    f = db.view(db.one("validate_entries", "LexiconReader"), keep=("validate_wid",))
    seen = {}
    for itn in iterations(f.hir):
        if any(p.get("k") == "Match" and p.get("src") == "ForLoopDesugar" for p in itn["parents"]) or any(p.get("k") == "Closure" for p in itn["parents"]):
            continue            # the outermost loop over the entries only
        for c, _ in walk(itn["body"]):
            if is_call(c) and path_ends(callee(c) or "", "validate_wid"):
                what = peel(call_args(c)[-1])
                label = what.get("v") if what.get("k") == "Lit" else render(what)
                # scenario: a hidden entry (not indexed: left id = right id = -1, hence within the upper bounds) — the reference check
                # must still be reachable
                from ..flow import holds_at
                from ..guards import cmp_atom, holds

                def ev(atom):
                    a = peel(atom)
                    if not isinstance(a, dict):
                        return None
                    if is_call(a) and path_ends(callee(a) or "", "should_index"):
                        return False
                    cm = cmp_atom(a)
                    if cm:
                        for l_, r_, op in ((cm[1], cm[2], cm[0]), (cm[2], cm[1], {"Lt": "Gt", "Le": "Ge", "Gt": "Lt", "Ge": "Le", "Eq": "Eq", "Ne": "Ne"}[cm[0]])):
                            l2 = peel_casts(deref_all(l_)) if isinstance(l_, dict) else {}
                            if isinstance(l2, dict) and l2.get("k") == "Field" and l2.get("name") in ("left_id", "right_id"):
                                r2 = peel_casts(deref_all(r_)) if isinstance(r_, dict) else {}
                                if lit_int(r_) is not None:
                                    return holds(op, -1, lit_int(r_))
                                if isinstance(r2, dict) and r2.get("k") == "Field" and r2.get("name") in ("max_left", "max_right"):
                                    return holds(op, -1, 1)
                    return None
                r = holds_at(path_conditions(c["id"], itn["body"]) or [], ev)
                seen[label] = r
                ctx.ob("validate_entries|#%d|hidden-entries-too" % len(seen), r is not False,
                       "validate_wid(.., %r) is %s for an entry that is not indexed (left id -1)" % (label, "reachable" if r is not False else "SKIPPED"), fn=f, site=c.get("sp"))
    if not seen:
        raise AnchorMissing("validate_entries: validate_wid calls inside the entry loop")
    ctx.floor(2)
