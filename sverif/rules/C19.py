"""C19 — Python bindings and the CLI report exactly what the core library computes."""
from ..engine import rule
from ..db import (walk, peel, peel_casts, render, callee, path_ends, short_path, is_call, call_args, lit_int,
                  exit_kind, path_conditions, atoms, AnchorMissing, local_name)
from ..guards import guarded_exits, mentions, is_call_to, cmp_atom, eval3, holds
from ..origins import origins, for_loop_parts
from ..wimodel import flag_names
from .C02 import _chain, _loops

META = {
    "explanation": (
        "(delegation) each PyMorpheme accessor delegates to the homonymous core accessor per a 13-row table of public names "
        "(begin/end go to the code-point versions begin_c/end_c and to nothing else; surface/raw_surface to "
        "Morpheme::surface; the forms to WordInfo's fallback accessors; ...); split() clears the output list, calls "
        "split_into with the morpheme's own index and copies the single morpheme iff add_single && !splitted; "
        "(eol) strip_eol's guards admit a line consisting only of its terminator (evaluated at len==1); (columns) the CLI "
        "writes surface, POS joined by ',', normalised form, then with -a dictionary form, reading, dictionary id, synonym "
        "groups and the (OOV) tag, tab-separated, one line per morpheme over an un-adapted iteration, EOS per sentence; "
        "wakati writes surfaces with the word separator between and the sentence separator last; (projection-closure) the "
        "InfoSubset requested for a surface projection covers the flags of the accessors its project() reads; (pipeline) "
        "main strips the terminator before analyze; the sentence-splitting analyser analyses every yielded sentence; "
        "(py-mode) the per-call mode override is restored by a scope guard created immediately after it is applied. NOT "
        "decided: equality of values across the FFI boundary; that no Python call sequence can make the interpreter crash "
        "(the lifetime transmute in PyMorpheme::morph is inventoried under C18, its soundness is not proved)."),
    "decided": ["delegation", "eol", "columns", "projection-closure", "pipeline", "py-mode"],
    "not_decided": ["FFI value equality", "interpreter-crash freedom of arbitrary call sequences"],
}

# PyMorpheme method -> (core callees that must be called, core callees that must not be called)
DELEGATION = {
    "begin": (["Morpheme<T>::begin_c"], ["Morpheme<T>::begin", "Morpheme<T>::end", "Morpheme<T>::end_c"]),
    "end": (["Morpheme<T>::end_c"], ["Morpheme<T>::begin", "Morpheme<T>::end", "Morpheme<T>::begin_c"]),
    "raw_surface": (["Morpheme<T>::surface"], []),
    "surface": (["Morpheme<T>::surface"], []),
    "part_of_speech_id": (["Morpheme<T>::part_of_speech_id"], []),
    "dictionary_form": (["WordInfo::dictionary_form"], ["WordInfo::normalized_form", "WordInfo::reading_form", "WordInfo::surface"]),
    "normalized_form": (["WordInfo::normalized_form"], ["WordInfo::dictionary_form", "WordInfo::reading_form", "WordInfo::surface"]),
    "reading_form": (["WordInfo::reading_form"], ["WordInfo::dictionary_form", "WordInfo::normalized_form", "WordInfo::surface"]),
    "is_oov": (["Morpheme<T>::is_oov"], []),
    "word_id": (["Morpheme<T>::word_id", "WordId::as_raw"], []),
    "synonym_group_ids": (["WordInfo::synonym_group_ids"], []),
    "__len__": (["Morpheme<T>::end_c", "Morpheme<T>::begin_c"], ["Morpheme<T>::begin", "Morpheme<T>::end"]),
    "dictionary_id": (["WordId::is_oov", "WordId::dic"], []),
}


def _py_method(db, name):
    fs = [f for f in db.fns.values() if f.pkg == "sudachipy" and f.name == name and (f.self_adt or "").endswith("morpheme::PyMorpheme") and f.hir and not f.trait]
    if len(fs) != 1:
        raise AnchorMissing("PyMorpheme::" + name, "(%d candidates)" % len(fs))
    return fs[0]


def _core_calls(f):
    out = set()
    for c, _ in walk(f.hir):
        if is_call(c):
            cal = callee(c) or ""
            if cal.startswith("sudachi::") or cal.startswith("<sudachi::"):
                out.add(cal)
    return out


@rule("C19.delegation", "each PyMorpheme accessor calls the homonymous core accessor (and none of the sibling accessors it could be "
                        "confused with); PyMorpheme::split delegates to split_into with its own index")
def delegation(db, ctx):
    for name, (must, mustnot) in DELEGATION.items():
        f = _py_method(db, name)
        calls = _core_calls(f)
        have = {m: any(c.endswith(m) for c in calls) for m in must}
        bad = [m for m in mustnot if any(c.endswith(m) for c in calls)]
        ctx.ob("PyMorpheme::%s" % name, all(have.values()) and not bad,
               "PyMorpheme::%s calls core %s; required %s; forbidden siblings called: %s" % (
                   name, sorted(short_path(c) for c in calls), have, bad), fn=f)
    f = _py_method(db, "dictionary_id")
    neg1 = any(lit_int(x) == -1 for x, _ in walk(f.hir) if x.get("k") in ("Lit", "Unary"))
    core = db.one("dictionary_id", "Morpheme")
    neg1c = any(lit_int(x) == -1 for x, _ in walk(core.hir) if x.get("k") in ("Lit", "Unary"))
    ctx.ob("dictionary_id|-1-for-oov", neg1 and neg1c, "both dictionary_id implementations return -1 for OOV: python=%s core=%s" % (neg1, neg1c), fn=f)
    sp = _py_method(db, "split")
    cl = si = cs = None
    order = []
    from ..inline import nf as _nf
    from ..flow import holds_at as _holds_at
    for c, ps in walk(sp.hir):
        if c.get("k") == "MethodCall" and c.get("method") == "clear":
            order.append("clear")
        if is_call(c) and path_ends(callee(c), "MorphemeList::split_into"):
            order.append("split_into")
            a = call_args(c)
            si = _nf(a[2]) if len(a) > 2 else None
        if is_call(c) and path_ends(callee(c), "MorphemeList::copy_slice"):
            order.append("copy_slice")
            a = call_args(c)
            cs = (_nf(a[1]), _nf(a[2]))
            pcs = path_conditions(c["id"], sp.hir) or []

            def ev_split(v):
                def ev(atom):
                    from ..db import walk_x
                    a_ = peel(atom)
                    if a_.get("k") in ("Path", "Match", "MethodCall", "Call") and any(is_call(x) and path_ends(callee(x) or "", "MorphemeList::split_into") for x, _ in walk_x(a_)):
                        return v
                    return None
                return ev
            # copied over only when nothing was split: unreachable when split_into returned true, reachable when it returned false
            cl = (_holds_at(pcs, ev_split(True)) is False, _holds_at(pcs, ev_split(False)) is not False)
    ok = order[:3] == ["clear", "split_into", "copy_slice"] and si == "self.index" and cs == ("self.index", "(1 + self.index)") and cl == (True, True)
    ctx.ob("PyMorpheme::split", ok, "split: call order %s; split_into index arg `%s`; copy_slice range %s; copy skipped when split_into returned true / done when false: %s" % (order, si, cs, cl), fn=sp)
    ctx.floor(14)


@rule("C19.eol", "strip_eol strips the terminator from a line consisting only of it: each guard protecting bytes[len-1] holds at len==1")
def eol(db, ctx):
    f = db.one("strip_eol", None, pkg="sudachi-cli")
    guards = []
    from ..inline import nf

    def is_len(x):
        x = peel_casts(x)
        return isinstance(x, dict) and (local_name(x) == "len" or nf(x).endswith(".len()"))

    def len_cmp(x):
        c = cmp_atom(x) if isinstance(x, dict) and x.get("k") == "Binary" else None
        return bool(c) and ((is_len(c[1]) and lit_int(c[2]) is not None) or (is_len(c[2]) and lit_int(c[1]) is not None))
    scalar_index = [n for n, _ in walk(f.hir) if n.get("k") == "Index" and not (n["i"].get("ty") or "").startswith(("std::ops::Range", "core::ops::Range"))
                    and peel(n["i"]).get("k") != "Struct"]
    for n, ps in walk(f.hir):
        if n.get("k") == "If" and (mentions(n["cond"], lambda x: x.get("k") == "Index") or mentions(n["cond"], len_cmp)
                                   or mentions(n["cond"], lambda x: x.get("k") == "MethodCall" and x.get("method") == "is_empty")):
            guards.append(n)
    if not guards:
        # no length comparison and no raw byte indexing: the terminator is removed through total helpers / slice patterns
        # (strip_suffix, split_last, ends_with, ..), which treat a one-byte line like any other
        ctx.ob("strip_eol|idiom", not scalar_index,
               "strip_eol has no length guard; raw byte indexing without one: %s (total std helpers / slice patterns need none)" % [render(x) for x in scalar_index], fn=f)
        return
    for i, g in enumerate(guards):
        def ev(atom):
            c = cmp_atom(atom)
            if c:
                op, l, r = c
                if is_len(l) and lit_int(r) is not None:
                    return holds(op, 1, lit_int(r))
                if is_len(r) and lit_int(l) is not None:
                    return holds(op, lit_int(l), 1)
                if peel(l).get("k") == "Index" or peel(r).get("k") == "Index":
                    return True  # the byte is the terminator
            a = peel(atom)
            if a.get("k") == "MethodCall" and a.get("method") == "is_empty":
                return False
            return None
        v = eval3(g["cond"], ev)
        which = "\\n" if "10" in render(g["cond"]) or "\\n" in render(g["cond"]) else "\\r"
        ctx.ob("strip_eol|guard#%d" % i, v is True,
               "guard `%s` evaluated for a one-byte line whose byte is the terminator: %s (must be true, otherwise a blank line keeps its "
               "terminator and is analysed as text)" % (render(g["cond"]), v), fn=f, site=g.get("sp"))
    ctx.floor(2)


def _accessor_seq(f, recv_name=None):
    """ordered accessor calls on the function's Morpheme parameter (by type, whatever it is called)"""
    out = []
    from ..db import is_local
    m_lid = next((p_.get("lid") for p_ in (f.info.get("params") or []) if isinstance(p_, dict) and "Morpheme<" in (p_.get("ty") or "")), None)
    for c, _ in walk(f.hir):
        if c.get("k") == "MethodCall" and is_local(c["recv"], m_lid) and (callee(c) or "").startswith("sudachi::analysis::morpheme::Morpheme"):
            out.append(c["method"])
    return out


def _str_lits(f):
    return [x["v"] for x, _ in walk(f.hir) if x.get("k") == "Lit" and x.get("t") in ("str", "bytes")]


@rule("C19.columns", "CLI output: surface, POS (comma-joined), normalised form [, dictionary form, reading, dictionary id, synonym ids, "
                     "(OOV)], tab separated; one line per morpheme over an un-adapted iteration; EOS per sentence; wakati: surfaces with "
                     "separators")
def columns(db, ctx):
    b = db.one("write_morpheme_basic", None, pkg="sudachi-cli")
    seq = _accessor_seq(b, "morpheme")
    lits = _str_lits(b)
    ctx.ob("basic|columns", seq == ["surface", "part_of_speech", "normalized_form"] and lits.count("\t") == 2 and "," in lits,
           "write_morpheme_basic reads %s with literals %s (must be surface, part_of_speech, normalized_form; two tabs; ',' joiner)" % (seq, lits), fn=b)
    e = db.one("write_morpheme_extended", None, pkg="sudachi-cli")
    seq = _accessor_seq(e, "morpheme")
    lits = _str_lits(e)
    fmt_ok = any(l.count("\t") == 4 for l in lits) or lits.count("\t") >= 4
    ctx.ob("extended|columns", seq[:4] == ["dictionary_form", "reading_form", "dictionary_id", "synonym_group_ids"] and "is_oov" in seq and "\t(OOV)" in lits and fmt_ok,
           "write_morpheme_extended reads %s with literals %s" % (seq, lits), fn=e)
    sw = [f for f in db.impls_of("SudachiOutput::write") if "Simple" in f.key]
    ww = [f for f in db.impls_of("SudachiOutput::write") if "Wakachi" in f.key]
    if len(sw) != 1 or len(ww) != 1:
        raise AnchorMissing("SudachiOutput::write impls")
    s = sw[0]
    loops = list(_loops(s))
    ok = False
    if len(loops) == 1:
        n, (it, pat, body), ps = loops[0]
        names, base = _chain(it)
        calls = [short_path(callee(c)).split("::")[-1] for c, _ in walk(body) if is_call(c) and (callee(c) or "").startswith("sudachi_cli")]
        ext_guard = False
        for c, ps2 in walk(body):
            if is_call(c) and path_ends(callee(c), "write_morpheme_extended"):
                pcs = path_conditions(c["id"], body) or []
                ext_guard = any(isinstance(cn, dict) and pol and "print_all" in render(cn) for cn, pol in pcs)
        ok = names == ["iter"] and calls[:1] == ["write_morpheme_basic"] and ext_guard and "\n" in _str_lits_node(body)
    eos_after = "EOS\n" in _str_lits(s)
    ctx.ob("Simple::write", ok and eos_after, "Simple::write: one loop over morphemes.iter() writing basic, extended iff print_all, then newline; "
                                              "EOS line after the loop: %s / %s" % (ok, eos_after), fn=s)
    w = ww[0]
    from ..loops import iterations, chain as lchain, body_parents
    from ..inline import nf as _nf_raw, pcanon
    nf = lambda e: pcanon(w, _nf_raw(e), "writer", "morphemes")            # parameters by position
    from ..flow import holds_at
    from ..guards import holds as _holds
    its = list(iterations(w.hir))
    okw = False
    why = "no single iteration over morphemes.iter()"
    if len(its) == 1:
        itn = its[0]
        ch, base = lchain(db, w, itn["it"])
        writes = [c for c, _ in walk(itn["body"]) if c.get("k") == "MethodCall" and c.get("method") == "write_all" and c["args"]]
        first_surface = bool(writes) and mentions(writes[0]["args"][0], lambda x: x.get("k") == "MethodCall" and x.get("method") == "surface")
        # the trailer: sentence separator exactly for the morpheme whose index() equals len()-1
        trailer_ok = False
        for n_, _ in walk_x_(itn["body"]):
            if n_.get("k") == "If" and "else" in n_:
                c = cmp_atom(n_["cond"])
                if not c or c[0] not in ("Eq", "Ne"):
                    continue
                sides = [nf(c[1]), nf(c[2])]
                # a side that is the parameter of a local closure stands for what that closure is called with
                from ..origins import index as _oix
                bd_ = _oix(db).bindings(w)
                for si_, sx in enumerate((c[1], c[2])):
                    px_ = peel_casts(sx)
                    b_ = bd_.get(px_.get("lid")) if px_.get("k") == "Path" else None
                    if b_ and b_[0] == "closure-param":
                        clo_ = b_[2]
                        holder = [lid_ for lid_, bb in bd_.items() if bb[0] == "let" and bb[1] is not None and peel(bb[1]) is clo_]
                        for cc, _ in walk(w.hir):
                            if cc.get("k") == "Call" and peel(cc.get("f") or {}).get("lid") in holder and b_[1] < len(cc["args"]):
                                sides[si_] = nf(cc["args"][b_[1]])
                if not (any(s_.endswith(".index()") for s_ in sides) and "(morphemes.len() - 1)" in sides):
                    continue
                at_last, not_last = (n_["then"], n_["else"]) if c[0] == "Eq" else (n_["else"], n_["then"])
                trailer_ok = "sentence_separator" in render(at_last) and "word_separator" not in render(at_last) and \
                    "word_separator" in render(not_last) and "sentence_separator" not in render(not_last)
        def _is_trailer(e):
            if mentions_x(e, lambda x: x.get("k") == "If"):
                return True
            # ... or the result of a local closure whose body is that `if`
            for x, _ in walk_x_(e):
                if x.get("k") == "Call" and peel(x.get("f") or {}).get("k") == "Path":
                    b2 = _oix(db).bindings(w).get(peel(x["f"]).get("lid"))
                    if b2 and b2[0] == "let" and b2[1] is not None and peel(b2[1]).get("k") == "Closure" and mentions_x(peel(b2[1])["body"], lambda y: y.get("k") == "If"):
                        return True
            return False
        second_trailer = len(writes) == 2 and _is_trailer(writes[1]["args"][0])
        okw = [m for m, _ in ch] == ["iter"] and nf(base) == "morphemes" and first_surface and trailer_ok and second_trailer
        why = "iter=%s surface-first=%s trailer-by-last-index=%s trailer-written-second=%s" % ([m for m, _ in ch], first_surface, trailer_ok, second_trailer)
    # an empty list still produces a line terminator
    nl_ok = False
    for c, _ in walk(w.hir):
        if c.get("k") == "MethodCall" and c.get("method") == "write_all" and c["args"] and _str_lits_node(c["args"][0]) in (["\n"], [b"\n"], [[10]]):
            pcs = path_conditions(c["id"], w.hir) or []

            def ev(atom):
                a = peel(atom)
                if a.get("k") == "MethodCall" and a.get("method") == "is_empty" and nf(a["recv"]) == "morphemes":
                    return True
                cc = cmp_atom(a)
                if cc:
                    for x, y, op in ((cc[1], cc[2], cc[0]), (cc[2], cc[1], SWAP_[cc[0]])):
                        if nf(x) == "morphemes.len()" and lit_int(y) is not None:
                            return _holds(op, 0, lit_int(y))
                return None
            if holds_at(pcs, ev) is True:
                nl_ok = True
    okw = okw and nl_ok
    why += " newline-for-empty-list=%s" % nl_ok
    ctx.ob("Wakachi::write", okw, "Wakachi::write iterates morphemes.iter(), writes surface then word/sentence separator by last index, and a bare newline for an "
                                  "empty list: %s (%s)" % (okw, why), fn=w)


from ..db import walk_x as walk_x_, SWAP as SWAP_


def mentions_x(node, pred):
    return any(pred(x) for x, _ in walk_x_(node))


def _str_lits_node(n):
    return [x["v"] for x, _ in walk(n) if x.get("k") == "Lit" and x.get("t") in ("str", "bytes")]


ACCESSOR_FLAG = {"part_of_speech_id": "POS_ID", "part_of_speech": "POS_ID", "dictionary_form": "DIC_FORM_WORD_ID",
                 "normalized_form": "NORMALIZED_FORM", "reading_form": "READING_FORM", "synonym_group_ids": "SYNONYM_GROUP_ID"}


@rule("C19.projection-closure", "for each surface projection, SurfaceProjection::required_subset covers the InfoSubset flags of the "
                                "morpheme accessors its project() implementation reads")
def projection_closure(db, ctx):
    rs = db.one("required_subset", "SurfaceProjection")
    req = {}
    for n, _ in walk(rs.hir):
        if n.get("k") == "Match" and n.get("src") == "Normal":
            for a in n["arms"]:
                pth = (a["pat"].get("e") or {}).get("path") or a["pat"].get("path") or ""
                req[pth.split("::")[-1]] = {x for x in flag_names(a["body"]) if not x.startswith("?")}
    mp = db.one("morpheme_projection", None, pkg="sudachipy")
    n_inst = 0
    for n, _ in walk(mp.hir):
        if n.get("k") == "Match" and n.get("src") == "Normal":
            for a in n["arms"]:
                pth = (a["pat"].get("e") or {}).get("path") or a["pat"].get("path") or ""
                variant = pth.split("::")[-1]
                reads = set()
                # closure-based projections: accessors inside the arm
                for c, _ in walk(a["body"]):
                    if c.get("k") == "MethodCall" and c.get("method") in ACCESSOR_FLAG and (callee(c) or "").startswith("sudachi::analysis::morpheme"):
                        reads.add(c["method"])
                # struct-based projections: accessors inside that struct's MorphemeProjection::project
                for c, _ in walk(a["body"]):
                    if is_call(c) and (callee(c) or "").startswith("sudachipy::projection::") and callee(c).endswith("::new"):
                        st = callee(c).rsplit("::", 1)[0]
                        for pf in db.impls_of("MorphemeProjection::project"):
                            if (pf.self_adt or "") == st:
                                for c2, _ in walk(pf.hir):
                                    if c2.get("k") == "MethodCall" and c2.get("method") in ACCESSOR_FLAG and (callee(c2) or "").startswith("sudachi::analysis::morpheme"):
                                        reads.add(c2["method"])
                need = {ACCESSOR_FLAG[r] for r in reads}
                have = req.get(variant, set())
                n_inst += 1
                ctx.ob("projection|%s" % variant, need <= have,
                       "projection %s reads %s (flags %s); required_subset() requests %s%s" % (
                           variant, sorted(reads), sorted(need), sorted(have),
                           "" if need <= have else " — MISSING %s: the accessor then reports a value that was never fixed up for this subset "
                                                   "(user-dictionary POS ids are rebased only under POS_ID)" % sorted(need - have)), fn=mp)
    ctx.floor(7)


@rule("C19.pipeline", "CLI main strips the line terminator before analyze; the splitting analyser analyses every sentence the splitter "
                      "yields; the non-splitting analyser resets, tokenises, collects, writes in that order")
def pipeline(db, ctx):
    m = db.one("main", None, pkg="sudachi-cli")
    ok = False
    for c, ps in walk(m.hir):
        if c.get("k") == "MethodCall" and c.get("method") == "analyze":
            og = origins(db, m, c["args"][0], depth=0)
            ok = any(o[0] == "call" and path_ends(o[1], "strip_eol") for o in og)
    ctx.ob("main|strip-then-analyze", ok, "the text handed to analyze() is the result of strip_eol(): %s" % ok, fn=m)
    # the read loop: the line buffer is cleared on EVERY iteration (read_line appends) and every line is analysed
    loop = None
    for n, ps in walk(m.hir):
        if n.get("k") == "Loop" and "read_line" in render(n)[:400]:
            loop = n
    if loop is None:
        raise AnchorMissing("main: read_line loop")
    body = loop["body"]
    order = []
    for n, ps in walk(body):
        if n.get("k") == "MethodCall" and n.get("method") == "clear" and "data" in render(n["recv"]):
            order.append("clear")
        elif n.get("k") == "MethodCall" and n.get("method") == "analyze":
            order.append("analyze")
        elif n.get("k") == "Continue":
            order.append("continue")
        elif n.get("k") == "Break" and not (n.get("mac") and "desugar:WhileLoop" in n["mac"]):
            order.append("break")
    idx_clear = order.index("clear") if "clear" in order else None
    early = [x for x in order[:idx_clear if idx_clear is not None else len(order)] if x in ("continue",)]
    skipped_analyze = "continue" in order[:order.index("analyze")] if "analyze" in order else True
    ctx.ob("main|buffer-cleared-every-iteration", idx_clear is not None and not early,
           "read loop events in order: %s — `continue` before data.clear(): %s (read_line appends: a skipped clear glues the next line to this one)" % (order, bool(early)), fn=m)
    ctx.ob("main|every-line-analysed", not skipped_analyze, "no `continue` precedes analyze() in the read loop: %s" % (not skipped_analyze), fn=m)
    asp = [f for f in db.impls_of("Analysis::analyze") if "AnalyzeSplitted" in f.key]
    ans = [f for f in db.impls_of("Analysis::analyze") if "AnalyzeNonSplitted" in f.key]
    if len(asp) != 1 or len(ans) != 1:
        raise AnchorMissing("Analysis::analyze impls")
    from ..loops import iterations as _its, chain as _lchain
    av = db.view(asp[0])
    its_ = list(_its(av.hir))
    ok = False
    if len(its_) == 1:
        itn = its_[0]
        ch, base = _lchain(db, av, itn["it"])
        # `map` may only project the (range, text) pair; nothing may drop or reorder sentences
        ok = [m for m, _ in ch if m != "map"] == ["split"] and itn["kind"] in ("for", "for_each") and \
            mentions(itn["body"], lambda x: x.get("k") == "MethodCall" and x.get("method") == "analyze") and \
            not any(x.get("k") in ("Break", "Continue", "Ret") for x, _ in walk(itn["body"]))
    ctx.ob("AnalyzeSplitted::analyze", ok, "every sentence yielded by splitter.split(input) is analysed (no adaptor, no early exit): %s" % ok, fn=asp[0])
    order = []
    for c, _ in walk(ans[0].hir):
        if c.get("k") == "MethodCall" and c.get("method") in ("reset", "do_tokenize", "collect_results", "write"):
            order.append(c["method"])
    ctx.ob("AnalyzeNonSplitted::analyze", order == ["reset", "do_tokenize", "collect_results", "write"],
           "call order %s (must be reset, do_tokenize, collect_results, write)" % order, fn=ans[0])


@rule("C19.py-mode", "PyTokenizer::tokenize: the scope guard restoring the saved mode is created right after the override (no fallible "
                     "exit in between) and calls set_mode with the saved value; the tokenizer is borrowed mutably (exclusive)")
def py_mode(db, ctx):
    fs = [f for f in db.fns.values() if f.pkg == "sudachipy" and f.name == "tokenize" and (f.self_adt or "").endswith("PyTokenizer") and f.hir]
    if len(fs) != 1:
        raise AnchorMissing("PyTokenizer::tokenize")
    f = fs[0]
    stmts = f.hir.get("stmts", [])
    i_set = i_guard = None
    tries_between = 0
    for i, st in enumerate(stmts):
        init = st.get("init") or st.get("e") or {}
        if i_set is None and mentions(init, lambda x: x.get("k") == "MethodCall" and x.get("method") == "set_mode"):
            i_set = i
            continue
        if i_set is not None and i_guard is None:
            if mentions(init, is_call_to("scopeguard::guard")):
                i_guard = i
                g_ok = mentions(init, lambda x: x.get("k") == "MethodCall" and x.get("method") == "set_mode")
            else:
                if mentions(init, lambda x: x.get("k") == "Match" and x.get("src") == "TryDesugar"):
                    tries_between += 1
    ok = i_set is not None and i_guard is not None and tries_between == 0 and g_ok
    ctx.ob("tokenize|guard-after-override", ok, "set_mode override at statement %s, scopeguard::guard (restoring via set_mode) at statement %s, "
                                                "fallible exits in between: %d" % (i_set, i_guard, tries_between), fn=f)
    inp = f.info.get("inputs", [""])
    ctx.ob("tokenize|&mut self", inp and inp[0].startswith("&") and "mut" in inp[0], "PyTokenizer::tokenize receiver is `%s` (exclusive borrow through PyCell)" % (inp[0] if inp else None), fn=f)


# user-written unsafe blocks in the Python bindings (macro-generated pyo3 glue excluded): function -> operations
PY_UNSAFE = {
    "PyMorpheme::morph": {"transmute", "get", "internal"},
    "<PyWordInfo as From>::from": {"transmute"},
}


@rule("C19.py-unsafe", "the user-written `unsafe` blocks of the Python bindings are exactly the audited ones (a lifetime-only transmute of a "
                       "Morpheme borrowed from a list that the returned guard keeps alive; layout-identical Vec<WordId> -> Vec<u32> transmutes)")
def py_unsafe(db, ctx):
    seen = {}
    for k, f in db.fns.items():
        if f.pkg != "sudachipy" or not f.hir:
            continue
        for n, ps in walk(f.hir):
            if n.get("k") == "Block" and n.get("unsafe") and "User" in n["unsafe"] and not n.get("mac"):
                ops = {(callee(c) or "?").split("::")[-1] for c, _ in walk(n) if is_call(c)}
                seen.setdefault(f.short(), set()).update(ops)
    for fn, ops in sorted(seen.items()):
        allowed = None
        for key, aops in PY_UNSAFE.items():
            if fn.endswith(key):
                allowed = aops
        ctx.ob("%s|unsafe" % fn, allowed is not None and ops <= allowed, "%s: unsafe operations %s; audited table allows %s" % (
            fn, sorted(ops), sorted(allowed) if allowed else "NOTHING (new unsafe block in the bindings)"))
    ctx.floor(2)
    # the guard returned by morph() keeps the list borrowed for as long as the transmuted Morpheme lives
    mr = db.adt_fields("morpheme::MorphemeRef")
    ctx.ob("MorphemeRef|keeps-list-borrowed", "PyRef" in mr["list"]["ty"] and "Morpheme" in mr["morph"]["ty"],
           "MorphemeRef holds the PyRef guard (%s) next to the borrowed Morpheme" % mr["list"]["ty"][:60])
    wid = db.adt("dic::word_id::WordId")[1]
    flds = [(f["name"], f["ty"]) for v in wid["variants"] for f in v["fields"]]
    ctx.ob("WordId|layout-u32", flds == [("raw", "u32")], "WordId is a single u32 field %s (the Vec<WordId> -> Vec<u32> transmute relies on it; repr(transparent) is "
                                                           "checked by the compiler for the attribute itself)" % flds)


@rule("C19.cli-subset", "if the CLI restricts the tokenizer's field subset, every output writer's subset() covers the word-info fields the "
                        "path-rewrite plugins read (otherwise the printed segmentation differs from the library's)")
def cli_subset(db, ctx):
    from .. import cg
    g = cg.get(db)
    # fields the bundled path-rewrite plugins read from word infos
    reads = set()
    impls = [f for f in db.impls_of("PathRewritePlugin::rewrite") if f.pkg == "sudachi"]
    for k in g.closure([f.key for f in impls]):
        f = db.fns[k]
        if f.pkg != "sudachi" or not f.hir or "::plugin::path_rewrite::" not in k:
            continue
        for c, _ in walk(f.hir):
            if c.get("k") == "MethodCall" and (callee(c) or "").endswith("WordInfo::" + c["method"]) and c["method"] in ("pos_id", "normalized_form", "reading_form", "dictionary_form"):
                reads.add({"pos_id": "POS_ID", "normalized_form": "NORMALIZED_FORM", "reading_form": "READING_FORM", "dictionary_form": "DIC_FORM_WORD_ID"}[c["method"]])
    ctx.ob("plugin-reads", len(reads) >= 2, "path-rewrite plugins read word-info fields %s" % sorted(reads), nontrivial=False)
    # does the CLI hand an output-defined subset to the tokenizer?
    wired = []
    for f in db.fns.values():
        if f.pkg != "sudachi-cli" or not f.hir:
            continue
        for c, _ in walk(f.hir):
            if c.get("k") == "MethodCall" and c.get("method") == "set_subset" and c["args"]:
                if mentions(c["args"][0], lambda x: x.get("k") == "MethodCall" and x.get("method") == "subset"):
                    wired.append((f, c))
    if not wired:
        ctx.ob("cli-does-not-restrict-fields", True, "the CLI never passes an output writer's subset() to the tokenizer: the analysis uses all fields", nontrivial=True)
        return
    for outp in db.impls_of("SudachiOutput::subset"):
        flags = set()
        for n, _ in walk(outp.hir):
            if n.get("k") == "Path" and n.get("res") == "def" and "InfoSubset::" in (n.get("path") or ""):
                flags.add(n["path"].split("::")[-1])
        missing = sorted(reads - flags)
        ctx.ob("%s|covers-plugin-fields" % outp.short(), not missing,
               "%s requests %s and the CLI wires it into the tokenizer (%s); path-rewrite plugins read %s; missing: %s — numerals / katakana runs "
               "are then segmented differently from the library" % (outp.short(), sorted(flags), wired[0][0].short(), sorted(reads), missing), fn=outp)


@rule("C19.no-stale-results", "a blank line / empty text yields an empty analysis also on a reused tokenizer and output list, as the CLI and tokenize(out=..) use "
                              "them (re-evaluation of C10.scalars|reset|clears-results)")
def no_stale_results(db, ctx):
    from .C10 import reset_clears_results
    reset_clears_results(db, ctx)


@rule("C19.offset-tables", "the code-point offsets reported by begin() / end() come from the table of the ORIGINAL text, including its end sentinel "
                           "(re-evaluation of C08.b2c-source)")
def offset_tables(db, ctx):
    from . import C08
    C08.b2c_source(db, ctx)


@rule("C19.mode-override", "a per-call mode override (tokenize(mode=..), restored afterwards) analyses in the requested mode from the first call on, also on a "
                           "tokenizer with restricted fields (re-evaluation of C09.pairing: set_mode must request the split list of the mode being entered)")
def mode_override(db, ctx):
    from . import C09
    C09.pairing(db, ctx)
