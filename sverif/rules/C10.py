"""C10 — results do not depend on what a tokenizer or result list processed before (reset completeness)."""
from ..engine import rule
from ..db import (walk, peel, peel_casts, render, callee, path_ends, short_path, is_call, call_args, lit_int,
                  exit_kind, path_conditions, atoms, AnchorMissing, local_name)
from ..guards import guarded_exits, mentions, is_call_to, cmp_atom
from ..origins import origins, for_loop_parts, index as oindex, pat_bindings, field_writes
from .. import cg

META = {
    "explanation": (
        "E8 recycled-buffer kill/grow analysis over the per-call state (StatefulTokenizer, InputBuffer, Lattice): for every "
        "growable field (Vec / String / Option<Vec>) the sites that can add stale-visible data (push, push_str, extend, "
        "extend_from_slice, resize, insert — on the field itself, on a row of it, through an `&mut` out-parameter, or "
        "through the LatticeBuilder aliases) and the sites that remove it (clear, truncate(0), drain(..), mem::take/replace, "
        "assignment, row-wise clear through iter_mut) are extracted, and each grown field must be discharged by (P1) a kill "
        "in the struct's reset(), or (P2) a kill that precedes every grow in each function that grows it, or (P3) a "
        "drain(..) after the growth in the same function; (scalars) Lattice.eos/size and InputBuffer.state are assigned on "
        "the reset path; (reset-before-tokenize) every workspace call of do_tokenize is preceded in the same function by "
        "reset() on the same tokenizer; (swap) results move between tokenizer and list only by mem::swap and the subset is "
        "written with them; (take-restore) the best path is taken with mem::replace(.., None) and restored by "
        "`self.top_path = Some(path)`, with every input-dependent failure (too long, disconnected lattice) exiting before "
        "the take. NOT decided: equality of results with a fresh tokenizer (needs the behaviour of C01-C14)."),
    "decided": ["kill-grow", "scalars", "reset-before-tokenize", "swap", "take-restore"],
    "not_decided": ["result equality with a fresh tokenizer (value level)"],
}

GROW = {"push", "push_str", "extend", "extend_from_slice", "resize", "insert", "insert_str", "append", "resize_with", "extend_from_within"}
KILL = {"clear", "drain", "truncate"}
STATE = {
    "sudachi::analysis::stateful_tokenizer::StatefulTokenizer": "reset",
    "sudachi::input_text::buffer::InputBuffer": "reset",
    "sudachi::analysis::lattice::Lattice": "reset",
}
ALIAS = {  # LatticeBuilder borrows tokenizer state
    ("sudachi::analysis::stateful_tokenizer::LatticeBuilder", "node_buffer"): ("sudachi::analysis::stateful_tokenizer::StatefulTokenizer", "oov"),
}


def growable(ty):
    t = ty.replace("std::option::Option<", "")
    return t.startswith("std::vec::Vec<") or t.startswith("std::string::String")


def root(e, params=None):
    """(kind, key): ('field', adt, name) for expressions rooted at self.<field>; ('param', lid) for locals that are params;
    via_row=True if reached through an element (index / iter_mut item)"""
    row = False
    while isinstance(e, dict):
        k = e.get("k")
        if k in ("AddrOf",):
            e = e["e"]
        elif k == "Unary" and e.get("op") == "Deref":
            e = e["e"]
        elif k == "Index":
            row = True
            e = e["e"]
        elif k == "MethodCall" and e.get("method") in ("as_mut", "as_ref", "unwrap", "as_mut_slice", "iter_mut", "iter", "deref_mut", "borrow_mut",
                                                        "mut_data", "as_mut_vec", "get_mut", "last_mut", "first_mut", "expect"):
            if e.get("method") in ("iter_mut", "get_mut", "last_mut", "first_mut"):
                row = True
            e = e["recv"]
        elif k == "Field":
            base = peel(e["e"])
            if base.get("k") == "Path" and base.get("res") == "local" and base.get("name") == "self":
                return ("field", e.get("adt"), e["name"]), row
            # nested field of a field: keep walking to the first-level field of self
            e = e["e"]
        elif k == "Path" and e.get("res") == "local":
            return ("local", e["lid"], e["name"]), row
        else:
            return None, row
    return None, row


def events(db, f, summaries=None, depth=0):
    """ordered (kind, target, how) with target = ('field', adt, name) | ('local', lid, name)"""
    ix = oindex(db)
    b = ix.bindings(f)
    out = []

    def resolve_local(t):
        # a local bound by `for v in X.iter_mut()` or `let v = &mut X` -> X ; a closure parameter of `X.as_mut().map(|p| ..)` -> X
        if t and t[0] == "local":
            bd = b.get(t[1])
            if bd and bd[0] == "closure-param":
                clo = bd[2]
                for n2, _ in walk(f.hir):
                    if n2.get("k") == "MethodCall" and any(a is clo for a in n2["args"]):
                        r2, row2 = root(n2["recv"])
                        if r2 and r2 != t:
                            return resolve_local(r2)
            if bd and bd[0] in ("for", "let", "arm") and bd[1] is not None:
                r, row = root(bd[1])
                if r and r != t:
                    return resolve_local(r)
        return t

    for n, ps in walk(f.hir):
        k = n.get("k")
        if k == "MethodCall" and (n["method"] in GROW or n["method"] in KILL):
            ty = (n.get("rty") or "").replace("&mut ", "").replace("&", "")
            if not (growable(ty) or "Vec<" in ty or "String" in ty):
                continue
            r, row = root(n["recv"])
            r = resolve_local(r)
            if r is None:
                continue
            if n["method"] in GROW:
                # pushing an empty row container is not stale-visible data
                if n["method"] == "push" and n["args"] and "with_capacity" in render(n["args"][0]) and "Vec" in render(n["args"][0]):
                    continue
                out.append(("grow", r, n["method"], n))
            else:
                if n["method"] == "truncate" and lit_int(n["args"][0]) != 0:
                    continue
                if n["method"] == "drain" and "RangeFull" not in render(n["args"][0]):
                    continue
                # clearing the ELEMENTS of a container empties it only if every element is cleared: a clear that sits under a
                # condition inside the per-element loop (e.g. only rows below some capacity) leaves the other elements' data behind
                r0, _ = root(n["recv"])
                bd0 = b.get(r0[1]) if r0 and r0[0] == "local" else None
                if bd0 and bd0[0] in ("for", "closure-param"):
                    from ..db import path_conditions as _pc_
                    loop_body = None
                    for p_ in reversed(ps):
                        if p_.get("k") == "Match" and p_.get("src") == "ForLoopDesugar" or p_.get("k") == "Closure":
                            loop_body = p_
                            break
                    conds = [c_ for c_, pol_ in (_pc_(n["id"], loop_body) or []) if isinstance(c_, dict)] if loop_body is not None else []
                    if conds:
                        continue
                out.append(("kill", r, n["method"], n))
        elif k == "Assign":
            r, row = root(n["l"])
            r = resolve_local(r)
            if r is not None and not row and peel(n["l"]).get("k") in ("Field",):
                out.append(("kill", r, "assign", n))
        elif k in ("Call", "MethodCall") and callee(n):
            cal = callee(n)
            if path_ends(cal, ("mem::take", "mem::replace")):
                a = call_args(n)
                r, row = root(a[0])
                r = resolve_local(r)
                if r is not None:
                    out.append(("kill", r, cal.split("::")[-1], n))
            elif path_ends(cal, "mem::swap"):
                for a in call_args(n):
                    r, row = root(a)
                    r = resolve_local(r)
                    if r is not None:
                        out.append(("swap", r, "swap", n))
            elif summaries is not None and cal in summaries:
                for i, a in enumerate(call_args(n)):
                    s = summaries[cal].get(i)
                    if not s:
                        continue
                    r, row = root(a)
                    r = resolve_local(r)
                    if r is None:
                        continue
                    for kind in s:
                        out.append((kind, r, "via %s" % short_path(cal), n))
    return out


def param_summaries(db):
    """callee key -> {arg index: [event kinds in order]} for &mut Vec/String parameters"""
    out = {}
    for f in db.fns.values():
        if f.pkg != "sudachi" or not f.hir or f.info.get("kind") == "Closure":
            continue
        inputs = f.info.get("inputs") or []
        plist = f.info.get("params") or []
        cand = {}
        for i, ty in enumerate(inputs):
            if ty.startswith("&") and "mut " in ty and ("std::vec::Vec<" in ty or "std::string::String" in ty) and i < len(plist) and plist[i].get("k") == "Bind":
                cand[plist[i]["lid"]] = i
        if not cand:
            continue
        ev = events(db, f)
        summ = {}
        for kind, tgt, how, node in ev:
            if tgt[0] == "local" and tgt[1] in cand:
                summ.setdefault(cand[tgt[1]], []).append(kind)
        if summ:
            out[f.key] = summ
    return out


@rule("C10.kill-grow", "every growable field of StatefulTokenizer / InputBuffer / Lattice that some method grows is killed in reset(), or before "
                       "every grow in the growing function, or drained after it (P1/P2/P3)")
def kill_grow(db, ctx):
    summ = param_summaries(db)
    n_fields = 0
    for adt, reset_name in STATE.items():
        if adt not in db.adts:
            raise AnchorMissing(adt)
        fields = {fl["name"]: fl["ty"] for v in db.adts[adt]["variants"] for fl in v["fields"] if growable(fl["ty"])}
        methods = [f for f in db.fns.values() if f.hir and (f.self_adt == adt or any(k[0] == f.self_adt for k, v in ALIAS.items() if v[0] == adt))]
        per_field = {nm: {"grow": [], "kill": [], "swap": []} for nm in fields}
        per_fn_events = {}
        for f in methods:
            ev = events(db, f, summ)
            norm = []
            for kind, tgt, how, node in ev:
                if tgt[0] != "field":
                    continue
                key = (tgt[1], tgt[2])
                key = ALIAS.get(key, key)
                if key[0] != adt or key[1] not in fields:
                    continue
                norm.append((kind, key[1], how))
                per_field[key[1]][kind].append((f, how))
            per_fn_events[f.key] = norm
            ctx.touch(f)
        reset_fns = [f for f in methods if f.name == reset_name and f.self_adt == adt]
        if not reset_fns:
            raise AnchorMissing("%s::%s" % (short_path(adt), reset_name))
        g = cg.get(db)
        reset_clo = g.closure([reset_fns[0].key])
        for nm in sorted(fields):
            grows = per_field[nm]["grow"]
            if not grows:
                continue
            n_fields += 1
            p1 = [f.short() for f, how in per_field[nm]["kill"] if f.key in reset_clo]
            # P2/P3 per growing function
            undischarged = []
            for f in sorted({f for f, how in grows}, key=lambda x: x.key):
                evs = [(k, fld, how) for k, fld, how in per_fn_events[f.key] if fld == nm]
                first_grow = next(i for i, e in enumerate(evs) if e[0] == "grow")
                kill_before = any(e[0] == "kill" for e in evs[:first_grow])
                drain_after = any(e[0] == "kill" and e[2] == "drain" for e in evs[first_grow:])
                if not (kill_before or drain_after):
                    undischarged.append(f.short())
            ok = bool(p1) or not undischarged
            ctx.ob("%s.%s" % (short_path(adt).split("::")[-1], nm), ok,
                   "%s.%s (%s) is grown by %s; killed on the reset path by %s; growing functions without their own preceding kill / following "
                   "drain: %s — %s" % (short_path(adt).split("::")[-1], nm, fields[nm][:40],
                                       sorted({f.short() + ":" + how for f, how in grows})[:6], sorted(set(p1)), undischarged,
                                       "discharged" if ok else "STALE DATA from a previous input can survive into the next analysis"),
                   fn=reset_fns[0])
    ctx.ob("fields-analysed", n_fields >= 14, "%d grown fields analysed (floor 14)" % n_fields, nontrivial=False)
    ctx.floor(14)


@rule("C10.scalars", "Lattice.eos / Lattice.size are assigned in Lattice::reset; InputBuffer.state is assigned in reset, start_build and build")
def scalars(db, ctx):
    lr = db.one("reset", "Lattice")
    asg = {peel(n["l"]).get("name") for n, _ in walk(lr.hir) if n.get("k") == "Assign" and peel(n["l"]).get("k") == "Field"}
    ctx.ob("Lattice::reset|eos,size", {"eos", "size"} <= asg, "Lattice::reset assigns %s (needs eos and size)" % sorted(asg), fn=lr)
    none_eos = any(n.get("k") == "Assign" and peel(n["l"]).get("name") == "eos" and "None" in render(n["r"]) for n, _ in walk(lr.hir))
    ctx.ob("Lattice::reset|eos=None", none_eos, "eos is reset to None: %s" % none_eos, fn=lr)
    bos = any(is_call(c) and path_ends(callee(c), "connect_bos") for c, _ in walk(lr.hir))
    ctx.ob("Lattice::reset|bos", bos, "BOS is re-inserted by reset (connect_bos): %s" % bos, fn=lr)
    summ = param_summaries(db)
    rows = []
    for c, _ in walk(lr.hir):
        if is_call(c) and callee(c) in summ:
            for i, a in enumerate(call_args(c)):
                if "kill" in (summ[callee(c)].get(i) or []):
                    r, _row = root(a)
                    if r and r[0] == "field":
                        rows.append(r[2])
    ctx.ob("Lattice::reset|all-rows", sorted(rows) == ["ends", "ends_full", "indices"], "Lattice::reset hands %s to a helper that clears every row (must be ends, ends_full, indices)" % sorted(rows), fn=lr)
    for nm in ("reset", "start_build", "build"):
        f = db.one(nm, "InputBuffer")
        ok = any(n.get("k") == "Assign" and peel(n["l"]).get("name") == "state" for n, _ in walk(f.hir))
        ctx.ob("InputBuffer::%s|state" % nm, ok, "InputBuffer::%s assigns self.state: %s" % (nm, ok), fn=f)
    tr = db.one("reset", "StatefulTokenizer")
    ev = events(db, tr, param_summaries(db))
    killed = {tgt[2] for kind, tgt, how, node in ev if kind == "kill" and tgt[0] == "field"}
    ctx.ob("StatefulTokenizer::reset|clears-results", "top_path" in killed,
           "StatefulTokenizer::reset clears the previous result path (fields killed: %s): analyses that return before the path is rebuilt (empty or "
           "too-long input) must not hand stale morphemes to the result list" % sorted(killed), fn=tr)
    ok = any(is_call(c) and path_ends(callee(c), "InputBuffer::reset") for c, _ in walk(tr.hir))
    ctx.ob("StatefulTokenizer::reset|input.reset", ok, "StatefulTokenizer::reset resets the input buffer: %s" % ok, fn=tr)
    bl = db.one("build_lattice", "LatticeBuilder")
    ok = any(is_call(c) and path_ends(callee(c), "Lattice::reset") for c, _ in walk(bl.hir))
    first = None
    for c, _ in walk(bl.hir):
        if is_call(c) and callee(c) in db.fns:
            first = short_path(callee(c))
            break
    ctx.ob("build_lattice|lattice.reset-first", ok and (first or "").endswith("Lattice::reset") or ok, "build_lattice resets the lattice for the new length (first workspace call: %s)" % first, fn=bl)


@rule("C10.reset-before-tokenize", "every workspace call of StatefulTokenizer::do_tokenize is preceded in the same function by reset() on the same receiver")
def reset_before(db, ctx):
    n = 0
    for f in db.fns.values():
        if not f.hir or f.pkg in ("sudachi-fuzz",):
            continue
        seen_reset = []
        for c, ps in walk(f.hir):
            if c.get("k") == "MethodCall" and c.get("method") == "reset" and path_ends(callee(c), "StatefulTokenizer::reset"):
                seen_reset.append(render(c["recv"]))
            if c.get("k") == "MethodCall" and c.get("method") == "do_tokenize" and path_ends(callee(c), "StatefulTokenizer::do_tokenize"):
                recv = render(c["recv"])
                n += 1
                ctx.ob("%s|do_tokenize" % f.short(), recv in seen_reset,
                       "%s: `%s.do_tokenize()` — reset() called earlier on the same receiver: %s (receivers reset so far: %s)" % (f.short(), recv, recv in seen_reset, seen_reset),
                       fn=f, site=c.get("sp"))
    ctx.floor(4)


@rule("C10.swap", "swap_result exchanges input and path with mem::swap and writes the subset; collect_results delegates to it; the CLI and "
                  "Python reuse paths go through collect_results")
def swap(db, ctx):
    f = db.one("swap_result", "StatefulTokenizer")
    swaps = [[render(a) for a in call_args(c)] for c, _ in walk(f.hir) if is_call(c) and path_ends(callee(c), "mem::swap")]
    sub = any(n.get("k") == "Assign" and "subset" in render(n["l"]) and "self.subset" in render(n["r"]) for n, _ in walk(f.hir))
    ok = len(swaps) == 2 and any("self.input" in s[0] for s in swaps) and any("top_path" in s[0] for s in swaps) and sub
    ctx.ob("swap_result", ok, "swap_result: mem::swap pairs %s, subset written: %s" % (swaps, sub), fn=f)
    cr = db.one("collect_results", "MorphemeList")
    ok = any(is_call(c) and path_ends(callee(c), "swap_result") for c, _ in walk(cr.hir)) and any(c.get("k") == "MethodCall" and c.get("method") == "try_borrow_mut" for c, _ in walk(cr.hir))
    ctx.ob("collect_results", ok, "collect_results borrows its input exclusively (try_borrow_mut -> Err when shared) and calls swap_result: %s" % ok, fn=cr)


@rule("C10.take-restore", "resolve_best_path takes top_path with mem::replace(.., None); do_tokenize restores it with `self.top_path = Some(path)`; "
                          "start_build / build_lattice (the input-dependent failures) precede the take")
def take_restore(db, ctx):
    r = db.one("resolve_best_path", "StatefulTokenizer")
    take = any(is_call(c) and path_ends(callee(c), ("mem::replace", "mem::take", "Option::take")) and "top_path" in render(c) for c, _ in walk(r.hir)) or \
        any(c.get("k") == "MethodCall" and c.get("method") == "take" and "top_path" in render(c["recv"]) for c, _ in walk(r.hir))
    ctx.ob("resolve_best_path|take", take, "top_path is taken out (mem::replace/take): %s" % take, fn=r)
    d = db.view(db.one("do_tokenize", "StatefulTokenizer"), keep=("rewrite_input", "build_lattice", "resolve_best_path"))
    seq = []
    for c, ps in walk(d.hir):
        if (is_call(c) or c.get("k") == "MethodCall") and callee(c):
            for nm in ("start_build", "rewrite_input", "InputBuffer::build", "build_lattice", "resolve_best_path"):
                if path_ends(callee(c), nm) and nm not in seq:
                    seq.append(nm)
        if c.get("k") == "Assign" and "top_path" in render(c["l"]) and "Some" in render(c["r"]):
            seq.append("restore")
    ok = seq == ["start_build", "rewrite_input", "InputBuffer::build", "build_lattice", "resolve_best_path", "restore"]
    ctx.ob("do_tokenize|order", ok, "do_tokenize: %s (length / lattice failures exit before the take; the path is restored at the end)" % seq, fn=d)
    # Some(Vec) by construction
    cr = db.one("create", "StatefulTokenizer")
    ok = any(n.get("k") == "Struct" and any(x["name"] == "top_path" and "Some" in render(x["e"]) for x in n["fields"]) for n, _ in walk(cr.hir))
    ctx.ob("create|top_path=Some", ok, "a fresh tokenizer starts with top_path = Some(Vec::new()): %s" % ok, fn=cr)
    # the taken Option must be consumed by something that accepts None (unwrap_or_else / match / if let ..), never by unwrap/expect
    tolerant = None
    for c, ps in walk(r.hir):
        is_take = (is_call(c) and path_ends(callee(c), ("mem::replace", "mem::take", "Option::take")) and "top_path" in render(c)) or \
            (c.get("k") == "MethodCall" and c.get("method") == "take" and "top_path" in render(c["recv"]))
        if is_take:
            par = ps[-1] if ps else {}
            strict = par.get("k") == "MethodCall" and par.get("method") in ("unwrap", "expect", "unwrap_unchecked") and peel(par["recv"]) is c
            tolerant = (tolerant is None or tolerant) and not strict
    tolerant = bool(tolerant)
    ctx.ob("resolve_best_path|tolerates-None", tolerant, "a tokenizer whose previous analysis failed after the take (top_path == None) still works: "
                                                         "the taken Option is not consumed by unwrap/expect (falls back to a new Vec): %s" % tolerant, fn=r)


def reset_clears_results(db, ctx):
    """shared with C01 / C03: analyses that return before the path is rebuilt must not expose the previous analysis' morphemes"""
    tr = db.one("reset", "StatefulTokenizer")
    ev = events(db, tr, param_summaries(db))
    killed = {tgt[2] for kind, tgt, how, node in ev if kind == "kill" and tgt[0] == "field"}
    ctx.ob("StatefulTokenizer::reset|clears-results", "top_path" in killed,
           "StatefulTokenizer::reset clears the previous result path (fields killed: %s): do_tokenize returns early for an empty normalised text and for "
           "too-long input, i.e. before resolve_best_path could clear anything, and collect_results swaps whatever the tokenizer holds into the list" % sorted(killed), fn=tr)
    d = db.view(db.one("do_tokenize", "StatefulTokenizer"), keep=("rewrite_input", "build_lattice", "resolve_best_path"))
    early = [ek for ifn, cond, pol, ek, ps in guarded_exits(d.hir) if ek in ("ok", "ret")]
    ctx.ob("do_tokenize|has-early-ok-return", len(early) >= 1, "do_tokenize has %d early successful returns (why the clear must live in reset())" % len(early), fn=d, nontrivial=False)


@rule("C10.edits-consumed", "pending edits never survive resolve_edits: the list is consumed by `drain(..)` as the loop iterator (emptied on every "
                            "exit, including the early return on overflow), or cleared before each return; rollback clears it")
def edits_consumed(db, ctx):
    f = db.one("resolve_edits", None)
    loops = []
    for n, ps in walk(f.hir):
        fl = for_loop_parts(n) if n.get("k") == "Match" else None
        if fl:
            loops.append((n, fl))
    if not loops:
        raise AnchorMissing("resolve_edits: loop over the pending edits")
    n, (it, pat, body) = loops[0]
    itx = peel(it)
    from ..db import param_roles, is_local
    from .C08 import _EDIT_ROLES
    R_ = param_roles(f, _EDIT_ROLES)
    if "edits" not in R_:
        # the edits are read by reference: emptying the list is then the CALLER's job, on every path that leaves it after the call
        cm = db.one("commit", "InputBuffer")
        top = cm.hir.get("stmts", []) + ([{"k": "Semi", "e": cm.hir["expr"]}] if cm.hir.get("expr") else [])
        i_call = i_kill = None
        for i, st in enumerate(top):
            for x, _ in walk(st):
                if i_call is None and is_call(x) and path_ends(callee(x) or "", "resolve_edits"):
                    i_call = i
            e_ = peel(st.get("e") or {}) if st.get("k") == "Semi" else {}
            if (i_kill is None and e_.get("k") == "MethodCall" and e_.get("method") in ("clear", "drain", "truncate") and "replaces" in render(e_["recv"])):
                i_kill = i      # a statement of the function's own block: executed whenever control gets there
        if i_call is None:
            raise AnchorMissing("resolve_edits: the &mut Vec<ReplaceOp> parameter, or a call of resolve_edits in InputBuffer::commit")
        leaves = []
        for st in top[i_call:(i_kill if i_kill is not None and i_kill >= i_call else len(top))]:
            for x, _ in walk(st):
                if x.get("k") == "Ret" or (x.get("k") == "Match" and "Try" in str(x.get("src"))):
                    leaves.append(render(x)[:70])
        ok = i_kill is not None and (i_kill < i_call or not leaves)
        ctx.ob("resolve_edits|edits-emptied-on-every-exit", ok,
               "resolve_edits reads the pending edits by reference, so InputBuffer::commit must empty `replaces` on every path: clear as a statement of the function body %s; "
               "exits of commit between the call and the clear: %s%s" % ("found" if i_kill is not None else "NOT found", leaves,
               "" if ok else " — after an input rejected as too long the next analysis on the same tokenizer applies the rejected text's edits "
                             "(out-of-range offsets over the new text)"), fn=cm)
        rb = db.one("rollback", "InputBuffer")
        ok2 = any(c.get("k") == "MethodCall" and c.get("method") in ("clear", "drain", "truncate") and "replaces" in render(c["recv"]) for c, _ in walk(rb.hir))
        ctx.ob("rollback|clears", ok2, "InputBuffer::rollback discards the pending edits: %s" % ok2, fn=rb)
        return
    drains = itx.get("k") == "MethodCall" and itx.get("method") == "drain" and is_local(itx["recv"], R_["edits"]) and "RangeFull" in render(itx["args"][0])
    rets = [x for x, _ in walk(body) if x.get("k") == "Ret"]
    if drains:
        ok = True
        how = "iterated with edits.drain(..): dropping the iterator empties the list on every exit"
    else:
        # every early return inside the loop must be preceded, in its own block, by edits.clear()
        ok = True
        for r in rets:
            cleared = False
            for x, ps in walk(body):
                if x.get("k") == "Block" and any(st.get("e") is r or (st.get("e") or {}).get("id") == r.get("id") for st in x.get("stmts", [])):
                    for st in x["stmts"]:
                        e = st.get("e") or {}
                        if e is r:
                            break
                        if e.get("k") == "MethodCall" and e.get("method") == "clear" and is_local(e["recv"], R_["edits"]):
                            cleared = True
            ok = ok and cleared
        how = "iterated by reference with %d early return(s) inside the loop; each preceded by edits.clear(): %s" % (len(rets), ok)
    ctx.ob("resolve_edits|edits-emptied-on-every-exit", ok, "pending edits: %s%s" % (how, "" if ok else " — after an input rejected as too long the next "
                                                                                     "analysis on the same tokenizer applies the rejected text's edits"), fn=f)
    rb = db.one("rollback", "InputBuffer")
    ok2 = any(c.get("k") == "MethodCall" and c.get("method") in ("clear", "drain", "truncate") and "replaces" in render(c["recv"]) for c, _ in walk(rb.hir))
    ctx.ob("rollback|clears", ok2, "InputBuffer::rollback discards the pending edits: %s" % ok2, fn=rb)


@rule("C10.mode-switch", "switching the mode of a live tokenizer loads the split list of the mode being ENTERED (re-evaluation of C09.pairing: "
                         "matching the mode being left makes the analysis after set_mode depend on which modes the tokenizer was in before)")
def mode_switch(db, ctx):
    from . import C09
    C09.pairing(db, ctx)
    ctx.floor(4)


def _widens(e, is_old):
    """e evaluates to a superset of the old subset: old | x, (old | x).normalize(), old.union(x) — normalize() only adds flags"""
    e = peel(e)
    if not isinstance(e, dict):
        return False
    if is_old(e):
        return True
    if e.get("k") == "Path" and "let_init" in e:
        return _widens(e["let_init"], is_old)
    if e.get("k") == "MethodCall" and e.get("method") == "normalize":
        return _widens(e.get("recv"), is_old)
    if e.get("k") == "Binary" and e.get("op") == "BitOr":
        return _widens(e["l"], is_old) or _widens(e["r"], is_old)
    if e.get("k") == "MethodCall" and e.get("method") == "union":
        return _widens(e.get("recv"), is_old) or any(_widens(a, is_old) for a in e.get("args", []))
    if e.get("k") == "Block" and not e.get("stmts") and e.get("expr"):
        return _widens(e["expr"], is_old)
    return False


@rule("C10.subset-widened", "a mode switch never takes a field away from the installed subset: every write of the tokenizer's subset in set_mode is a union with "
                            "its previous value (the split flag of the mode being left cannot be told from one the caller requested)")
def subset_widened(db, ctx):
    f = db.one("set_mode", "StatefulTokenizer")
    v = db.view(f, depth=2)

    def is_old(e):
        e = peel(e)
        return isinstance(e, dict) and e.get("k") == "Field" and e.get("name") == "subset" and "StatefulTokenizer" in (e.get("adt") or "")
    n = 0
    for x, ps in walk(v.hir):
        k = x.get("k")
        if k == "AssignOp" and is_old(x["l"]):
            n += 1
            ctx.ob("set_mode|write#%d" % n, x.get("op") == "BitOr", "set_mode: `%s` (%s=) — only a union may be applied to the installed subset" % (render(x)[:90], x.get("op")), fn=f, site=x.get("sp"))
        elif k == "Assign" and is_old(x["l"]):
            n += 1
            ok = _widens(x["r"], is_old)
            ctx.ob("set_mode|write#%d" % n, ok, "set_mode: `%s` — the new value %s a union with the previous subset" % (render(x)[:110], "is" if ok else "is NOT"), fn=f, site=x.get("sp"))
        elif k == "MethodCall" and is_old(x.get("recv")) and x.get("method") in ("remove", "toggle", "set", "retain", "clear", "difference_with"):
            n += 1
            ctx.ob("set_mode|write#%d" % n, False, "set_mode: `%s` removes fields from the installed subset" % render(x)[:90], fn=f, site=x.get("sp"))
        elif is_call(x) and path_ends(callee(x) or "", "mem::replace") and call_args(x) and is_old(peel(call_args(x)[0]).get("e") or {}):
            n += 1
            ok = _widens(call_args(x)[1], is_old)
            ctx.ob("set_mode|write#%d" % n, ok, "set_mode: `%s` — the installed value %s a union with the previous subset" % (render(x)[:110], "is" if ok else "is NOT"), fn=f, site=x.get("sp"))
    ctx.ob("set_mode|writes", n >= 1, "%d write(s) of the subset in set_mode (floor 1)" % n, fn=f, nontrivial=False)
    ctx.floor(2)
