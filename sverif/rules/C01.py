"""C01 — morphemes partition the original text byte-for-byte (lossless surfaces)."""
from ..engine import rule
from ..db import (walk, peel, peel_casts, render, callee, path_ends, short_path, is_call, call_args, lit_int,
                  exit_kind, path_conditions, atoms, AnchorMissing, local_name)
from ..guards import guarded_exits, mentions, is_call_to, cmp_atom
from ..origins import origins, for_loop_parts, index as oindex
from ..units import Units
from .. import cg
from .C10 import events, param_summaries
from . import C09, C14

META = {
    "explanation": (
        "(units) index-space dataflow: along build_lattice -> resolve_best_path -> ResultNode -> Morpheme::{begin,end,surface}, the "
        "split iterator, the two merge helpers and the OOV providers, every seeded use-site (offset-table index, text slice, "
        "API argument, field store, comparison) receives a value of the required space (MC -> mod_c2b -> MB -> m2o -> OB; "
        "orig_slice gets Range<MB>; the original text is sliced only with OB) — only definite conflicts alarm; (edit-space) "
        "in every bundled InputTextPlugin::rewrite_impl the ranges handed to the editor come from a left-to-right "
        "non-overlapping match iterator (regex find_iter/captures_iter, Aho-Corasick find_iter / anchored find, "
        "char_indices) over InputBuffer::current(), never original(); (map-owner) the byte map and the rewritten text are "
        "written only by reset / start_build / commit, pending edits only by the editor (push) and resolve_edits / "
        "rollback (drain/clear), and resolve_edits anchors the first map entry at 0; (inherit) split units and merged nodes "
        "inherit the outer ends (C09.offsets, C14.merged-fields re-evaluated here). NOT decided: the arithmetic of "
        "add_replace / resolve_edits (which original offset a rewritten byte maps to), hence byte-for-byte losslessness "
        "itself; that split units' key lengths add up to the parent (dictionary data)."),
    "decided": ["units", "edit-space", "map-owner", "inherit"],
    "not_decided": ["offset-map arithmetic (add_replace/resolve_edits) at value level", "split unit lengths (dictionary data)"],
    "trusted": ["regex / aho-corasick iterators yield ascending, non-overlapping, char-aligned matches"],
}

C08_FNS = ("InputBuffer::to_orig_char_idx", "Morpheme::begin_c", "Morpheme::end_c", "PyMorpheme::", "pretokenizer::", "InputBuffer::fill_orig_b2c")
SCOPE = ("::analysis::", "::input_text::", "::plugin::oov", "::plugin::path_rewrite", "::plugin::input_text", "morpheme::PyMorpheme", "pretokenizer::",
         "::sentence_", "sudachi_cli::")


def units_scan(db, ctx, want_c08):
    total = 0
    nfn = 0
    for k, f in sorted(db.fns.items()):
        if f.pkg not in ("sudachi", "sudachipy", "sudachi-cli") or not f.hir:
            continue
        if not any(s in k for s in SCOPE):
            continue
        is08 = any(s in f.short() or s in k for s in C08_FNS)
        if is08 != want_c08:
            continue
        u = Units(db, f)
        conflicts, reached = u.check()
        if reached or conflicts:
            nfn += 1
            ctx.touch(f)
        total += reached
        seen = set()
        for node, msg in conflicts:
            if msg in seen:
                continue
            seen.add(msg)
            ctx.ob("%s|%s" % (f.short(), msg[:80]), False, "%s: index-space conflict — %s" % (f.short(), msg), fn=f,
                   site=node.get("sp") if isinstance(node, dict) else None)
        if reached and not conflicts:
            ctx.ob("%s|consistent" % f.short(), True, "%s: %d seeded use-sites reached with a known space, all consistent" % (f.short(), reached), fn=f)
    return total, nfn


@rule("C01.units", "index-space (MB/MC/OB/OC) consistency of every seeded use-site on the path from lattice offsets to morpheme byte ranges")
def units(db, ctx):
    total, nfn = units_scan(db, ctx, False)
    ctx.ob("reached-use-sites", total >= 75, "%d seeded use-sites reached with a known space in %d functions (floor 75: fewer means the "
                                             "analysis lost track of the offsets and would pass vacuously)" % (total, nfn), nontrivial=False)
    ctx.floor(30)


SEARCH = ("find_iter", "captures_iter", "find", "char_indices", "find_at", "captures")
MATCH_API = ("Match::range", "Match::start", "Match::end", "Match<'h>::range", "Match<'h>::start", "Match<'h>::end", "Captures::get", "Captures<'h>::get")
EDITS = ("replace_ref", "replace_char", "replace_own", "replace_char_iter")


@rule("C01.edit-space", "in each bundled InputTextPlugin::rewrite_impl, edit ranges come from a match iterator / char_indices over "
                        "InputBuffer::current() (never original()), and the general path skips matches inside the previous match")
def edit_space(db, ctx):
    impls = [f for f in db.impls_of("InputTextPlugin::rewrite_impl") if f.pkg == "sudachi"]
    if len(impls) < 3:
        raise AnchorMissing("InputTextPlugin::rewrite_impl impls", "(%d)" % len(impls))
    g = cg.get(db)
    for imp in impls:
        mod = imp.key.split(" as ")[0].lstrip("<").rsplit("::", 1)[0]
        fns = [db.fns[k] for k in g.closure([imp.key]) if k.startswith(mod) or k.startswith("<" + mod) or mod in k]
        fns = [f for f in fns if f.hir and f.pkg == "sudachi"]
        n_edit = 0
        for f in fns:
            uses_orig = [c for c, _ in walk(f.hir) if is_call(c) and path_ends(callee(c), "InputBuffer::original")]
            if uses_orig:
                ctx.ob("%s|uses-original" % f.short(), False, "%s reads InputBuffer::original(): edits must be computed on the current (already "
                                                              "rewritten) text" % f.short(), fn=f, site=uses_orig[0].get("sp"))
            for c, ps in walk(f.hir):
                if c.get("k") == "MethodCall" and c.get("method") in EDITS and "InputEditor" in (callee(c) or ""):
                    n_edit += 1
                    og = origins(db, f, c["args"][0], depth=2)
                    calls = {o[1] for o in og if o[0] == "call"}
                    from_match = any(any(path_ends(x, m) for m in MATCH_API) or (x or "").endswith("::range") or (x or "").endswith("::start") for x in calls)
                    from_chars = any(path_ends(x, ("str::char_indices", "char_indices")) or (x or "").endswith("char_indices") for x in calls)
                    ok = from_match or from_chars
                    ctx.ob("%s|%s#%d" % (f.short(), c["method"], n_edit), ok,
                           "%s: `%s` — range derives from %s: %s" % (f.short(), render(c)[:90], sorted(short_path(x) for x in calls if x)[:6],
                                                                   "a match/char iterator" if ok else "NOT a match iterator item"), fn=f, site=c.get("sp"))
            # haystacks
            for c, ps in walk(f.hir):
                if c.get("k") == "MethodCall" and c.get("method") in SEARCH:
                    rty = c.get("rty") or ""
                    hay = None
                    if "regex::Regex" in rty or "fancy_regex::Regex" in rty:
                        hay = c["args"][0] if c["args"] else None
                    elif rty.replace("&", "").startswith("str") and c["method"] == "char_indices":
                        hay = c["recv"]
                    elif "AhoCorasick" in rty:
                        hay = c["args"][0] if c["args"] else None
                    if hay is None:
                        continue
                    og = origins(db, f, hay, depth=1)
                    calls = {o[1] for o in og if o[0] == "call"}
                    cur = any(path_ends(x, "InputBuffer::current") for x in calls)
                    # aho Input::new(cur) wraps the haystack
                    if not cur:
                        for x in og:
                            if x[0] == "call" and path_ends(x[1], ("Input::new",)):
                                pass
                        cur = "current()" in render(hay) or any("cur" == local_name(a) for a in [hay])
                        if not cur:
                            for n2, _ in walk(f.hir):
                                if is_call(n2) and path_ends(callee(n2), "Input::new") and n2["args"]:
                                    og2 = origins(db, f, n2["args"][0], depth=1)
                                    cur = cur or any(o[0] == "call" and path_ends(o[1], "InputBuffer::current") for o in og2)
                    ctx.ob("%s|haystack(%s)" % (f.short(), c["method"]), cur,
                           "%s: `%s` searches %s" % (f.short(), render(c)[:70], "the current text" if cur else "something other than InputBuffer::current()"),
                           fn=f, site=c.get("sp"))
        ctx.ob("%s|edits" % imp.short(), n_edit >= 1, "%s issues %d edit calls" % (imp.short(), n_edit), fn=imp, nontrivial=False)
    ctx.floor(9)


@rule("C01.map-owner", "InputBuffer.m2o / .modified are written only by reset, start_build, commit; pending edits only by InputEditor::replace_* "
                       "(push) and resolve_edits/rollback (drain/clear); resolve_edits forces the first map entry to 0; start_build installs the identity map")
def map_owner(db, ctx):
    adt = "sudachi::input_text::buffer::InputBuffer"
    summ = param_summaries(db)
    writers = {"m2o": set(), "modified": set(), "replaces": set()}
    for f in db.fns.values():
        if f.pkg != "sudachi" or not f.hir:
            continue
        for kind, tgt, how, node in events(db, f, summ):
            if tgt[0] == "field" and tgt[1] == adt and tgt[2] in writers:
                writers[tgt[2]].add(f.short())
    allowed = {"m2o": {"InputBuffer::reset", "InputBuffer::start_build", "InputBuffer::commit"},
               "modified": {"InputBuffer::reset", "InputBuffer::start_build", "InputBuffer::commit"},
               "replaces": {"InputBuffer::commit", "InputBuffer::rollback", "InputBuffer::make_editor"}}
    for fld in ("m2o", "modified", "replaces"):
        extra = writers[fld] - allowed[fld]
        ctx.ob("InputBuffer.%s|writers" % fld, not extra and bool(writers[fld]), "InputBuffer.%s is mutated by %s; allowed %s; unexpected: %s" % (
            fld, sorted(writers[fld]), sorted(allowed[fld]), sorted(extra)))
    # editor pushes
    k_ed = [k for k in db.adts if k.endswith("edit::InputEditor")]
    pushers = set()
    for f in db.fns.values():
        if f.pkg == "sudachi" and f.hir and f.self_adt in k_ed:
            for c, _ in walk(f.hir):
                if c.get("k") == "MethodCall" and c.get("method") == "push" and "replaces" in render(c["recv"]):
                    pushers.add(f.name)
    ctx.ob("InputEditor|pushers", pushers == {"replace_ref", "replace_char", "replace_own"}, "edits are queued by %s" % sorted(pushers))
    re = db.one("resolve_edits", None)
    anchor = False
    for n, _ in walk(re.hir):
        if n.get("k") == "If" and "first_mut" in render(n["cond"]):
            anchor = any(x.get("k") == "Assign" and lit_int(x["r"]) == 0 for x, _ in walk(n["then"]))
    from ..db import param_roles, is_local
    from .C08 import _EDIT_ROLES
    R_ = param_roles(re, _EDIT_ROLES)
    drains = any(c.get("k") == "MethodCall" and c.get("method") == "drain" and is_local(c["recv"], R_.get("edits")) for c, _ in walk(re.hir))
    ctx.ob("resolve_edits|anchor-0", anchor, "resolve_edits forces target_mapping[0] = 0 on its normal exit: %s" % anchor, fn=re)
    ctx.ob("resolve_edits|drains", drains, "resolve_edits drains the pending edits: %s" % drains, fn=re)
    sb = db.one("start_build", "InputBuffer")
    from ..inline import range_bounds
    ident = any(c.get("k") == "MethodCall" and c.get("method") == "extend" and "m2o" in render(c["recv"]) and c["args"]
                and range_bounds(c["args"][0]) == ("0", "(1 + self.modified.len())")
                for c, _ in walk(sb.hir))
    ctx.ob("start_build|identity-map", ident, "start_build installs m2o = 0..=len (identity with end sentinel): %s" % ident, fn=sb)
    we = db.one("with_editor", "InputBuffer")
    # by reachability, in whatever form the decision is written: commit() is reachable exactly when the caller's closure returned
    # Ok, rollback() exactly when it returned Err
    from ..flow import result_evaluator, holds_at
    from ..db import path_conditions
    params = {p_.get("lid") for p_ in (we.info.get("params") or []) if isinstance(p_, dict)}
    is_func = lambda e: e.get("k") == "Call" and isinstance(e.get("f"), dict) and e["f"].get("res") == "local" and e["f"].get("lid") in params
    sites = {"commit": [], "rollback": []}
    for n, _ in walk(we.hir):
        if n.get("k") == "MethodCall" and n.get("method") in sites:
            sites[n["method"]].append(n)
    def reach(n, okv):
        return holds_at(path_conditions(n["id"], we.hir), result_evaluator(is_func, okv))
    ok = bool(sites["commit"]) and bool(sites["rollback"]) \
        and any(reach(n, True) is not False for n in sites["commit"]) and all(reach(n, False) is False for n in sites["commit"]) \
        and any(reach(n, False) is not False for n in sites["rollback"]) and all(reach(n, True) is False for n in sites["rollback"])
    ctx.ob("with_editor|commit-or-rollback", ok, "with_editor commits on Ok and rolls back on Err: %s" % ok, fn=we)


@rule("C01.inherit", "split units and merged nodes inherit the outer ends (re-evaluation of C09.offsets and C14.merged-fields)")
def inherit(db, ctx):
    C09.offsets(db, ctx)
    C14.merged_fields(db, ctx)
    ctx.floor(10)


@rule("C01.map-compose", "successive rewrite batches compose: every value stored into the new byte map is read from the previous map (re-evaluation "
                         "of C08.compose — a map built from positions of the current text is only right for the first batch)")
def map_compose(db, ctx):
    from . import C08
    C08.compose(db, ctx)
    ctx.floor(4)


@rule("C01.no-stale-results", "only an input whose normalised form is empty yields no morphemes: the previous result must be cleared by reset(), not where the path is rebuilt (re-evaluation of C10.scalars|reset|clears-results)")
def no_stale_results(db, ctx):
    from . import C10
    C10.reset_clears_results(db, ctx)
    ctx.floor(1)


@rule("C01.shared-input", "sub-morphemes produced by split_into read their surface / offsets from the input of the list they were split FROM: the output list adopts "
                          "that input (re-evaluation of C09.shared-input)")
def shared_input_reeval(db, ctx):
    from . import C09
    C09.shared_input(db, ctx)


@rule("C01.unit-length", "the inner boundaries of A/B split units come from the stored head-word length, which must be the byte length of the unit's index "
                         "key (what the text matched), not of its display headword: otherwise a unit overruns its parent (begin > end) — "
                         "re-evaluation of C05.field-source")
def unit_length_reeval(db, ctx):
    from . import C05
    C05.field_source(db, ctx)
