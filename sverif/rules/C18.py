"""C18 — one loaded dictionary can be shared by concurrent tokenizers."""
import re

from ..engine import rule
from ..db import (walk, peel, render, callee, path_ends, short_path, is_call, call_args, AnchorMissing)
from .. import cg
from .C03 import analysis_entries

META = {
    "explanation": (
        "The argument is Rust's own: safe code cannot race on data that is not mutably shared. What remains is audited on "
        "every run: (no-interior-mut) no interior-mutability carrier (Cell, RefCell, UnsafeCell, Mutex, RwLock, atomics, "
        "OnceCell/OnceLock/LazyLock, raw *mut) is reachable through the fields of JapaneseDictionary — through Grammar, "
        "LexiconSet, CowArray, the plugin containers and the self types of every workspace implementation of the four "
        "plugin traits — and every external type met on the way is in an audited allow-table; (no-shared-write) the library "
        "has no `unsafe impl Send/Sync`, no `static mut`, no thread_local, all its statics are lazy_static (Once-guarded) "
        "expansions, and no `&mut self` method of a dictionary type is reachable from the analysis API; (traits) the plugin "
        "traits keep `Sync + Send` supertraits and DictionaryAccess hands out `dyn ... + Sync + Send` plugin slices; "
        "(python) the bindings' only unsafe Send/Sync pair is the audited one, PyTokenizer::tokenize takes &mut self, the "
        "pre-tokenizer keeps per-thread tokenizers; (witness, thorough tier) compile-pass assertions "
        "JapaneseDictionary: Send+Sync and a compile_fail twin, plus a compile_fail witness that mutation through a shared "
        "Arc does not type-check. Assumed: soundness of rustc's auto-trait and borrow checking; that the allow-listed "
        "external types are logically immutable behind &self; determinism of analysis given immutable inputs."),
    "decided": ["no-interior-mut", "no-shared-write", "traits", "python", "witness (thorough)"],
    "not_decided": ["result equality under every interleaving (follows from immutability + determinism, not checked dynamically)"],
    "trusted": ["rustc auto traits / borrow checking", "regex::Regex, fancy_regex::Regex, aho_corasick::AhoCorasick are Sync and logically immutable behind &self",
                "memmap2::Mmap of a file nobody modifies", "libloading::Library is only kept alive, never called after load"],
}

CARRIERS = ("std::cell::Cell", "std::cell::RefCell", "std::cell::UnsafeCell", "std::cell::OnceCell", "std::sync::Mutex", "std::sync::RwLock",
            "std::sync::OnceLock", "std::sync::LazyLock", "std::sync::atomic::", "std::cell::LazyCell", "std::sync::mpsc::", "std::rc::Rc",
            "lazy_static::lazy::Lazy", "thread_local::ThreadLocal", "std::sync::Condvar", "std::sync::Once")
STD_PLAIN = ("std::vec::Vec", "std::string::String", "std::option::Option", "std::boxed::Box", "std::alloc::Global", "std::collections::HashMap",
             "std::collections::HashSet", "std::collections::hash::map::HashMap", "std::collections::hash::set::HashSet", "std::path::PathBuf",
             "std::collections::BTreeMap", "std::collections::BTreeSet", "std::ops::Range", "std::marker::PhantomData", "std::borrow::Cow",
             "std::hash::BuildHasherDefault", "std::hash::RandomState", "std::collections::hash_map::RandomState", "std::hash::random::RandomState",
             "std::result::Result", "std::time::SystemTime", "indexmap::IndexMap", "std::ptr::NonNull")
OPAQUE_OK = {
    "regex::Regex": "Sync; matching through &self uses an internal scratch pool that does not affect results",
    "fancy_regex::Regex": "wraps regex::Regex / an immutable VM program",
    "aho_corasick::AhoCorasick": "immutable automaton behind Arc",
    "aho_corasick::ahocorasick::AhoCorasick": "immutable automaton behind Arc",
    "memmap2::Mmap": "read-only mapping of the dictionary file",
    "libloading::Library": "kept only to keep the DSO loaded",
    "libloading::safe::Library": "kept only to keep the DSO loaded",
}
PLUGIN_TRAITS = ("InputTextPlugin", "OovProviderPlugin", "PathRewritePlugin", "EditConnectionCostPlugin")


def type_graph(db, root):
    """reachable ADTs through fields; `dyn Trait` edges fan out to all workspace impl self types"""
    seen = {}
    work = [(root, (short_path(root),))]
    ext = {}
    raw = []
    while work:
        k, path = work.pop()
        if k in seen:
            continue
        seen[k] = path
        if k in ("*mut",):
            raw.append(path)
            continue
        if k == "*const":
            continue
        if k.startswith("dyn "):
            tr = k[4:]
            for imp in db.impls:
                if imp.get("trait") == tr and imp.get("self_adt"):
                    work.append((imp["self_adt"], path + ("impl " + short_path(imp["self_adt"]),)))
            continue
        a = db.adts.get(k)
        if a is None:
            ext[k] = path
            continue
        for v in a["variants"]:
            for f in v["fields"]:
                for t in f.get("adts", []):
                    work.append((t, path + ("%s.%s" % (short_path(k).split("::")[-1], f["name"]),)))
    return seen, ext, raw


@rule("C18.no-interior-mut", "no interior-mutability carrier and no raw *mut is reachable through the fields of JapaneseDictionary "
                             "(including every workspace plugin implementation); every external type on the way is audited")
def no_interior_mut(db, ctx):
    root = db.adt("dic::dictionary::JapaneseDictionary")[0]
    seen, ext, raw = type_graph(db, root)
    n_ws = sum(1 for k in seen if k in db.adts)
    ctx.ob("graph-size", n_ws >= 25, "%d workspace types reachable from JapaneseDictionary (floor 25: dictionary, grammar, lexicon, "
                                     "plugin containers and every bundled plugin struct)" % n_ws, nontrivial=False)
    plug = sorted(short_path(k) for k in seen if "::plugin::" in k and k in db.adts)
    ctx.ob("plugin-impls-reached", len(plug) >= 9, "plugin types reached through the dyn-trait edges: %s" % plug, nontrivial=False)
    for k, path in sorted(ext.items()):
        if any(k.startswith(c) or k == c for c in CARRIERS):
            ctx.ob("carrier|%s" % k, False, "interior-mutability carrier %s is reachable from the shared dictionary via %s" % (k, " → ".join(path)))
        elif k in OPAQUE_OK:
            ctx.ob("external|%s" % k, True, "external type %s via %s — audited: %s" % (k, " → ".join(path[-3:]), OPAQUE_OK[k]))
        elif any(k == s or k.startswith(s) for s in STD_PLAIN) or k.startswith("dyn "):
            continue
        else:
            ctx.ob("external|%s" % k, False, "unaudited external type %s reachable from the shared dictionary via %s — add it to the audited table "
                                             "only after checking that it has no observable interior mutability" % (k, " → ".join(path)))
    for path in raw:
        ctx.ob("raw-mut|%s" % path[-1], False, "raw *mut pointer field reachable from the shared dictionary via %s" % " → ".join(path))
    for k in sorted(seen):
        if k in db.adts:
            ctx.ob("type|%s" % short_path(k), True, "%s: fields hold no interior-mutability carrier" % short_path(k), nontrivial=False)
    ctx.floor(25)


@rule("C18.no-shared-write", "library: zero `unsafe impl Send/Sync`, zero `static mut` / thread_local, every static is a lazy_static expansion; "
                             "no `&mut self` method of a dictionary type is reachable from the analysis API")
def no_shared_write(db, ctx):
    bad = [(i["self_ty"], i.get("trait")) for i in db.impls if i.get("unsafe") and i["pkg"] == "sudachi" and
           (i.get("trait") or "").split("::")[-1] in ("Send", "Sync")]
    ctx.ob("unsafe-impl-send-sync|sudachi", not bad, "unsafe impl Send/Sync in the library: %s (must be none)" % bad)
    py = sorted((i["self_ty"].split("::")[-1], (i.get("trait") or "").split("::")[-1]) for i in db.impls if i.get("unsafe") and i["pkg"] == "sudachipy" and
                (i.get("trait") or "").split("::")[-1] in ("Send", "Sync"))
    ctx.ob("unsafe-impl-send-sync|sudachipy", py == [("PyMorphemeListWrapper", "Send"), ("PyMorphemeListWrapper", "Sync")],
           "unsafe impl Send/Sync in the bindings: %s (audited: exactly PyMorphemeListWrapper, whose RefCell-holding list is only touched "
           "under the GIL)" % py)
    n = 0
    for k, s in sorted(db.statics.items()):
        if s["pkg"] != "sudachi":
            continue
        n += 1
        ok = (not s["mut"]) and (not s["thread_local"]) and "lazy_static" in (s.get("expn") or [])
        ctx.ob("static|%s" % short_path(k), ok, "static %s: mut=%s thread_local=%s expansion=%s (must be an immutable lazy_static)" % (
            short_path(k), s["mut"], s["thread_local"], (s.get("expn") or [])[-1:]))
    ctx.ob("statics-count", n >= 20, "%d statics inventoried in the library (13 lazy_static items x 2 expansions; floor 20)" % n, nontrivial=False)
    # &mut self methods of dictionary types must be unreachable from analysis
    root = db.adt("dic::dictionary::JapaneseDictionary")[0]
    seen, ext, raw = type_graph(db, root)
    copy_types = {i.get("self_adt") for i in db.impls if (i.get("trait") or "").endswith("marker::Copy")}
    dict_types = {k for k in seen if k in db.adts and k not in copy_types}   # Copy value types (bitflags) carry no shared state
    g = cg.get(db)
    clo = g.closure(analysis_entries(db))
    muts = []
    for k in clo:
        f = db.fns[k]
        if f.pkg != "sudachi" or not f.self_adt or f.self_adt not in dict_types:
            continue
        inp = f.info.get("inputs") or []
        if inp and inp[0].startswith("&") and re.match(r"^&('\w+ )?mut ", inp[0]) and (f.self_adt.split("::")[-1] in inp[0]):
            muts.append(f.short())
    ctx.ob("mutators-unreachable-from-analysis", not muts, "`&mut self` methods of dictionary types reachable from the analysis API: %s (must be none)" % sorted(muts))
    allm = sorted(f.short() for f in db.fns.values() if f.pkg == "sudachi" and f.self_adt in dict_types and (f.info.get("inputs") or [""])[0].startswith("&") and
                  re.match(r"^&('\w+ )?mut ", (f.info.get("inputs") or [""])[0]) and f.info.get("kind") == "AssocFn")
    ctx.ob("mutators-inventory", len(allm) >= 8, "dictionary mutators (all take &mut self, none reachable from analysis): %s" % allm, nontrivial=False)


@rule("C18.traits", "plugin traits keep `Sync + Send` supertraits; DictionaryAccess returns `dyn ... + Sync + Send` plugin slices")
def traits(db, ctx):
    for t in PLUGIN_TRAITS:
        ks = [k for k in db.traits if k.endswith("::" + t)]
        if len(ks) != 1:
            raise AnchorMissing("trait " + t)
        sup = " ".join(db.traits[ks[0]]["supers"])
        ctx.ob("trait|%s" % t, "marker::Sync" in sup and "marker::Send" in sup, "%s supertraits: %s" % (t, db.traits[ks[0]]["supers"]))
    n = 0
    for k, s in db.fnsigs.items():
        if "DictionaryAccess::" in k and k.split("::")[-1] in ("input_text_plugins", "oov_provider_plugins", "path_rewrite_plugins"):
            n += 1
            ctx.ob("DictionaryAccess::%s" % k.split("::")[-1], "Sync" in s["output"] and "Send" in s["output"], "%s returns %s" % (short_path(k), s["output"][:120]))
    ctx.floor(7)


@rule("C18.python", "PyTokenizer::tokenize takes &mut self; the pre-tokenizer keeps per-thread tokenizers in ThreadLocal<RefCell<..>>; "
                    "PyDicData is shared through Arc")
def python(db, ctx):
    fs = [f for f in db.fns.values() if f.pkg == "sudachipy" and f.name == "tokenize" and (f.self_adt or "").endswith("PyTokenizer") and f.hir]
    if len(fs) != 1:
        raise AnchorMissing("PyTokenizer::tokenize")
    inp = fs[0].info.get("inputs") or [""]
    ctx.ob("PyTokenizer::tokenize|&mut self", "mut" in inp[0], "receiver `%s` — PyCell hands out &mut only exclusively" % inp[0], fn=fs[0])
    at = any(c.get("k") == "MethodCall" and c.get("method") == "allow_threads" for c, _ in walk(fs[0].hir))
    ctx.ob("PyTokenizer::tokenize|allow_threads", at, "analysis runs inside py.allow_threads(..): %s" % at, fn=fs[0])
    pf = db.adt_fields("pretokenizer::PyPretokenizer")
    tl = [f for f in pf.values() if "thread_local::ThreadLocal" in f["ty"]]
    ctx.ob("PyPretokenizer|thread-local-tokenizers", bool(tl) and "RefCell" in tl[0]["ty"], "PyPretokenizer tokenizer storage: %s" % (tl[0]["ty"][:110] if tl else None))
    pt = db.adt_fields("tokenizer::PyTokenizer")
    ctx.ob("PyTokenizer|Arc<PyDicData>", "std::sync::Arc" in pt["tokenizer"]["ty"], "PyTokenizer.tokenizer: %s" % pt["tokenizer"]["ty"][:110])


@rule("C18.witness", "compile-pass / compile_fail(E0277,E0596,E0599) doctest witnesses against /repo/sudachi as an external crate: the "
                     "dictionary is Send+Sync, a tokenizer over Arc<dictionary> is Send, mutation through a shared handle does not "
                     "type-check, plugin objects are Sync (rustc decides; nothing is executed except the compiler)")
def witness(db, ctx):
    import os
    import shutil
    import subprocess
    from ..facts import VERIF
    wdir = os.path.join(VERIF, "witness")
    repo = (db.meta or {}).get("repo", "/repo")
    import uuid
    tag = "%d-%s" % (os.getpid(), uuid.uuid4().hex[:8])      # the thorough tier runs several trees concurrently in one process
    td = "/var/tmp/sverif-wit-%s" % tag
    work = "/var/tmp/sverif-witsrc-%s" % tag
    shutil.rmtree(work, ignore_errors=True)
    shutil.copytree(wdir, work, ignore=shutil.ignore_patterns("target"))
    try:
        # the witness crate path-depends on the tree under analysis and reuses its lockfile (no resolution, no network)
        with open(os.path.join(work, "Cargo.toml")) as fh:
            toml = fh.read().replace('path = "/repo/sudachi"', 'path = "%s/sudachi"' % repo)
        with open(os.path.join(work, "Cargo.toml"), "w") as fh:
            fh.write(toml)
        shutil.copy(os.path.join(repo, "Cargo.lock"), os.path.join(work, "Cargo.lock"))
        env = dict(os.environ, CARGO_TARGET_DIR=td, CARGO_NET_OFFLINE="true")
        env.pop("RUSTC_WORKSPACE_WRAPPER", None)
        r = subprocess.run(["cargo", "+nightly", "test", "--doc", "--offline"], cwd=work, env=env,
                           stdout=subprocess.PIPE, stderr=subprocess.STDOUT, text=True)
        out = r.stdout
    finally:
        shutil.rmtree(td, ignore_errors=True)
        shutil.rmtree(work, ignore_errors=True)
    tests = re.findall(r"test src/lib.rs - (\w+) \(line \d+\)( - compile fail)? \.\.\. (\w+)", out)
    for name, cf, res in tests:
        ctx.ob("witness|%s" % name, res == "ok", "witness %s (%s): %s" % (name, "must fail to compile with the stated error code" if cf else "must compile", res))
    if not tests:
        ctx.ob("witness|ran", False, "witness doctests did not run: %s" % out[-600:])
    ctx.floor(6)
