"""C14 — path-rewrite plugins only merge adjacent tokens and preserve the text."""
from ..engine import rule
from ..db import (walk, peel, peel_casts, render, callee, path_ends, short_path, is_call, call_args, lit_int,
                  exit_kind, path_conditions, atoms, AnchorMissing, local_name)
from ..guards import guarded_exits, mentions, is_call_to, cmp_atom, holds
from ..db import SWAP
from ..origins import origins, for_loop_parts
from .. import cg
from .C02 import _loops, _chain

META = {
    "explanation": (
        "(merge-only) inside the closure of both PathRewritePlugin::rewrite implementations the token vector is mutated only by "
        "concat_nodes / concat_oov_nodes, whose only mutations are `path[begin] = merged; path.drain(begin+1..end)` after "
        "rejecting begin >= end; no push/insert/remove/swap/sort/truncate/retain anywhere else; the range setters of "
        "ResultNode have no caller; (merged-fields) the merged node takes its begin (bytes and characters) from path[begin] "
        "and its end from path[end-1], concatenates surface / reading / dictionary / normalised strings in iteration order "
        "over path[begin..end], the OOV merge takes its POS from the plugin's configured id and numeral merging happens only "
        "when the first node has the numeral POS; (order) plugins run after the best path is resolved and before splitting. "
        "NOT decided: which neighbours get merged (index arithmetic of the scan loops is value level)."),
    "decided": ["merge-only", "merged-fields", "order"],
    "not_decided": ["which neighbours are merged (scan-loop arithmetic)"],
}

MUTATORS = {"push", "insert", "remove", "swap", "sort", "sort_by", "sort_by_key", "sort_unstable", "truncate", "retain", "drain", "clear", "pop",
            "extend", "append", "split_off", "swap_remove", "dedup", "dedup_by", "dedup_by_key", "reverse", "rotate_left", "rotate_right",
            "resize", "extend_from_slice", "retain_mut", "splice", "fill"}
PATH_TY = "Vec<sudachi::analysis::node::ResultNode>"


def _is_path_vec(ty):
    return ty is not None and "std::vec::Vec<" in ty and "analysis::node::ResultNode>" in ty and "Vec<std::vec::Vec" not in ty


@rule("C14.merge-only", "in the closure of the bundled PathRewritePlugin::rewrite impls the Vec<ResultNode> is mutated only by concat_nodes / "
                        "concat_oov_nodes (assignment of path[begin] and drain(begin+1..end) after rejecting begin>=end)")
def merge_only(db, ctx):
    g = cg.get(db)
    impls = [f for f in db.impls_of("PathRewritePlugin::rewrite") if f.pkg == "sudachi"]
    if len(impls) < 2:
        raise AnchorMissing("PathRewritePlugin::rewrite impls", "(%d)" % len(impls))
    clo = g.closure([f.key for f in impls])
    n = 0
    for k in sorted(clo):
        f = db.fns[k]
        if f.pkg != "sudachi" or not f.hir:
            continue
        if not ("::plugin::path_rewrite::" in k or k.endswith("node::concat_nodes") or k.endswith("node::concat_oov_nodes")):
            continue
        n += 1
        ctx.touch(f)
        is_concat = k.endswith("node::concat_nodes") or k.endswith("node::concat_oov_nodes")
        for c, ps in walk(f.hir):
            if c.get("k") == "MethodCall" and c.get("method") in MUTATORS and _is_path_vec((c.get("rty") or "").replace("&mut ", "").replace("&", "")):
                if is_concat and c["method"] == "drain":
                    rng = _canon(f, render(c["args"][0])).replace(" ", "")
                    ok = "start:(begin+1)" in rng and "end:end" in rng
                    ctx.ob("%s|drain" % f.short(), ok, "%s: path.drain(%s) (must be begin+1..end)" % (f.short(), render(c["args"][0])), fn=f, site=c.get("sp"))
                else:
                    ctx.ob("%s|%s" % (f.short(), c["method"]), False,
                           "%s: `%s` mutates the token vector outside the two merge helpers — a path-rewrite plugin may only merge" % (f.short(), render(c)[:100]),
                           fn=f, site=c.get("sp"))
            if c.get("k") == "Assign" and peel(c["l"]).get("k") == "Index" and _is_path_vec((peel(c["l"]).get("bty") or "").replace("&mut ", "").replace("&", "")):
                idx = _canon(f, render(peel(c["l"])["i"])) if is_concat else render(peel(c["l"])["i"])
                ok = is_concat and idx == "begin"
                ctx.ob("%s|path[%s]=" % (f.short(), idx), ok, "%s assigns path[%s] (allowed only as path[begin] = merged inside the merge helpers)" % (f.short(), idx), fn=f, site=c.get("sp"))
        if is_concat:
            ok = any(ek == "err" and pol and cmp_atom(cond) and cmp_atom(cond)[0] == "Ge" and _canon(f, local_name(cmp_atom(cond)[1])) == "begin" and _canon(f, local_name(cmp_atom(cond)[2])) == "end"
                     for ifn, cond, pol, ek, ps in guarded_exits(f.hir))
            ctx.ob("%s|rejects-empty-range" % f.short(), ok, "%s returns Err when begin >= end: %s" % (f.short(), ok), fn=f)
    ctx.ob("closure", n >= 6, "%d path-rewrite functions inspected (floor 6)" % n, nontrivial=False)
    # setters have no caller
    for nm in ("set_bytes_range", "set_char_range"):
        s = db.one(nm, "ResultNode")
        callers = g.callers(s.key)
        ctx.ob("ResultNode::%s|no-caller" % nm, not callers, "ResultNode::%s callers: %s (must be none: ranges are never edited in place)" % (nm, [short_path(c) for c in callers]), fn=s)
    ctx.floor(8)


def _canon(f, text):
    """rendered text with the merge helper's own parameter names replaced by the canonical (path, begin, end) — the rules below
    speak about the parameters by POSITION (nodes, first index, one-past-last index), not by what they are called"""
    import re as _re
    if text is None:
        return None
    P = [p_.get("name") for p_ in (f.info.get("params") or []) if isinstance(p_, dict)]
    if len(P) < 3 or P[:3] == ["path", "begin", "end"]:
        return text
    tmp = {P[0]: "\x00path", P[1]: "\x00begin", P[2]: "\x00end"}
    out = _re.sub(r"\b(%s)\b" % "|".join(_re.escape(x) for x in tmp), lambda m: tmp[m.group(1)], text)
    return out.replace("\x00", "")


def _arg_src(e, f=None):
    """(`begin` | `end - 1` | other, accessor) for expressions like path[begin].begin_bytes"""
    from ..db import deref_all
    e = deref_all(e)
    acc = None
    if e.get("k") == "MethodCall":
        acc = e["method"]
        e = deref_all(e["recv"])      # `let first = &path[begin]; first.begin()` is path[begin].begin()
    elif e.get("k") == "Field":
        acc = e["name"]
        e = deref_all(e["e"])
    if e.get("k") == "Index":
        t = render(e["i"], x=True).replace(" ", "")
        return (_canon(f, t) if f is not None else t), acc
    return None, acc


@rule("C14.merged-fields", "merged node: begin from path[begin], end and total cost from path[end-1]; strings concatenated in order over "
                           "path[begin..end]; OOV merge takes the plugin's POS; numeral merge requires the numeral POS on the first node")
def merged_fields(db, ctx):
    for nm in ("concat_nodes", "concat_oov_nodes"):
        f = db.one(nm, None)
        for c, _ in walk(f.hir):
            if is_call(c) and path_ends(callee(c), "inner::Node::new"):
                a = call_args(c)
                b, ba = _arg_src(a[0], f)
                e, ea = _arg_src(a[1], f)
                ctx.ob("%s|char-range" % nm, b == "begin" and ba == "begin" and e == "(end-1)" and ea == "end",
                       "%s: merged character range = (path[%s].%s(), path[%s].%s()) — must be (path[begin].begin(), path[end-1].end())" % (nm, b, ba, e, ea), fn=f, site=c.get("sp"))
            if is_call(c) and path_ends(callee(c), "ResultNode::new"):
                a = call_args(c)
                cs, ca = _arg_src(a[1], f)
                b, ba = _arg_src(a[2], f)
                e, ea = _arg_src(a[3], f)
                ctx.ob("%s|byte-range" % nm, b == "begin" and ba == "begin_bytes" and e == "(end-1)" and ea == "end_bytes" and cs == "(end-1)" and ca == "total_cost",
                       "%s: merged bytes = (path[%s].%s, path[%s].%s), cost = path[%s].%s — must be begin/begin_bytes, end-1/end_bytes, end-1/total_cost" % (nm, b, ba, e, ea, cs, ca), fn=f, site=c.get("sp"))
        # string concatenation loops
        fields = set()
        for n, (it, pat, body), ps in _loops(f):
            from ..loops import chain as lchain
            from ..inline import range_bounds
            from ..db import deref_all
            ch, base = lchain(db, f, it)
            base = deref_all(base)
            P = [p_.get("name") for p_ in (f.info.get("params") or []) if isinstance(p_, dict)] + [None] * 3      # (nodes, first, one-past-last)
            in_order = {m for m, _ in ch} <= {"iter"} and base.get("k") == "Index" and local_name(base["e"]) == P[0] and \
                range_bounds(base["i"]) == (P[1], P[2])
            for p, _ in walk(body):
                if p.get("k") == "MethodCall" and p.get("method") == "push_str":
                    tgt = local_name(p["recv"])
                    srcf = peel(p["args"][0])
                    fn_ = srcf.get("name") if srcf.get("k") == "Field" else None
                    # every part contributes: the push is not skipped for some nodes (`if part == "," { continue }` drops the
                    # separators from the merged surface / forms)
                    uncond = not [1 for cn, pol in (path_conditions(p["id"], body) or []) if isinstance(cn, (dict, tuple))]
                    fields.add((tgt, fn_, in_order and uncond))
        # the merged surface must be one of the concatenated strings, and the record must not inherit anything else from a part
        has_surface = any(tgt == "surface" and fn_ == "surface" and in_order for tgt, fn_, in_order in fields)
        ctx.ob("%s|surface-is-concatenation" % nm, has_surface,
               "%s builds the merged surface by concatenating the parts' dictionary surfaces over path[begin..end]: %s" % (nm, has_surface), fn=f)
        for n_, _ in walk(f.hir):
            if n_.get("k") == "Struct" and (n_.get("path") or "").endswith("WordInfoData"):
                base = n_.get("base")
                base_ok = base is None or (is_call(peel(base)) and path_ends(callee(peel(base)) or "", ("Default::default", "default")))
                ctx.ob("%s|record-base" % nm, base_ok,
                       "%s: the merged word info is completed from `%s` (must be Default::default(): split lists / word structure / synonym ids of a "
                       "part must not carry over — they would be applied to the merged range by A/B splitting)" % (nm, render(base) if base else "nothing"), fn=f, site=n_.get("sp"))
        for tgt, fn_, in_order in sorted(fields, key=str):
            ok = in_order and tgt is not None and fn_ is not None and (tgt == fn_ or (tgt == "norm" and fn_ == "normalized_form"))
            ctx.ob("%s|concat(%s)" % (nm, tgt), ok, "%s: `%s` is built by pushing each node's .%s in order over path[begin..end]: %s" % (nm, tgt, fn_, ok), fn=f)
    # concat_nodes: the merged word keeps the POS of the FIRST merged node (JoinNumericPlugin::concat checked exactly that node for the numeral POS)
    f = db.one("concat_nodes", None)
    got = None
    from ..inline import nf as _nf
    for n, _ in walk(f.hir):
        if n.get("k") == "Struct" and (n.get("path") or "").endswith("WordInfoData"):
            fl = {x["name"]: x["e"] for x in n["fields"] if "e" in x}
            if "pos_id" in fl:
                got = _canon(f, _nf(fl["pos_id"]))
    ctx.ob("concat_nodes|pos=first-node", got == "path[begin].word_info().pos_id()",
           "merged node takes pos_id from `%s` (must be path[begin].word_info().pos_id(): the node whose POS the numeral plugin checked)" % got, fn=f)
    f = db.one("concat_oov_nodes", None)
    ok = False
    for n, _ in walk(f.hir):
        if n.get("k") == "Struct" and (n.get("path") or "").endswith("WordInfoData"):
            fl = {x["name"]: x["e"] for x in n["fields"]}
            from ..inline import pnames
            ok = local_name(fl.get("pos_id")) == (pnames(f) + [None] * 4)[3]
    ctx.ob("concat_oov_nodes|pos=param", ok, "merged OOV node takes pos_id from the parameter (the plugin's configured id): %s" % ok, fn=f)
    jk = db.one("rewrite_gen", "JoinKatakanaOovPlugin")
    ok = any(is_call(c) and path_ends(callee(c), "concat_oov_nodes") and render(call_args(c)[3]) == "self.oov_pos_id" for c, _ in walk(jk.hir))
    ctx.ob("JoinKatakanaOovPlugin|passes-configured-pos", ok, "concat_oov_nodes(.., self.oov_pos_id): %s" % ok, fn=jk)
    jn = db.one("concat", "JoinNumericPlugin")
    from ..inline import nf, pcanon
    _jc = lambda t: pcanon(jn, t, "path", "begin", "end", "parser")      # (nodes, first, one-past-last, parser) by position

    def _pos_guard(cond, pol):
        # rejecting when the POS of path[begin] differs from the configured numeral POS: `a != b` exiting on true, or `a == b` exiting on false
        c = cmp_atom(cond)
        if not c:
            return False
        sides = {_jc(nf(c[1])), _jc(nf(c[2]))}
        return sides == {"path[begin].word_info().pos_id()", "self.numeric_pos_id"} and ((c[0] == "Ne" and pol) or (c[0] == "Eq" and not pol))
    # every concat_nodes call in `concat` is unreachable when the first node's POS is not the numeral POS (not merely: a guard exists)
    from ..flow import holds_at
    jn = db.view(jn)

    def ev_pos(equal):
        def ev(atom):
            c = cmp_atom(atom)
            if c and c[0] in ("Eq", "Ne") and {_jc(nf(c[1])), _jc(nf(c[2]))} == {"path[begin].word_info().pos_id()", "self.numeric_pos_id"}:
                return equal if c[0] == "Eq" else (not equal)
            return None
        return ev
    cn_calls = [c for c, _ in walk(jn.hir) if is_call(c) and path_ends(callee(c), "concat_nodes")]
    ok = bool(cn_calls)
    shown = []
    for c in cn_calls:
        pcs = path_conditions(c["id"], jn.hir) or []
        r_ne, r_eq = holds_at(pcs, ev_pos(False)), holds_at(pcs, ev_pos(True))
        shown.append((c.get("sp", "").split(":", 1)[-1], r_ne, r_eq))
        ok = ok and r_ne is False and r_eq is not False
    ctx.ob("JoinNumericPlugin::concat|numeral-pos-only", ok,
           "every concat_nodes call in JoinNumericPlugin::concat is unreachable unless path[begin]'s POS is the numeral POS: (site, reachable at pos!=numeral, "
           "at pos==numeral) = %s" % shown, fn=jn)
    # katakana joining: concat_oov_nodes is reached only for a run of at least two nodes, measured on the very (begin, end) it is given
    from ..flow import var_evaluator
    jk = db.view(db.one("rewrite_gen", "JoinKatakanaOovPlugin"))
    for c, ps in walk(jk.hir):
        if not (is_call(c) and path_ends(callee(c), "concat_oov_nodes")):
            continue
        a = call_args(c)
        B, E = peel_casts(a[1]), peel_casts(a[2])
        pcs = path_conditions(c["id"], jk.hir) or []

        from ..db import deref_all
        measures = []

        def ev_len(n):
            def ev(atom):
                cm = cmp_atom(atom)
                if not cm:
                    return None
                for x, y, op in ((cm[1], cm[2], cm[0]), (cm[2], cm[1], SWAP[cm[0]])):
                    px = deref_all(x)          # `let len = end - begin; if len > 1` is the same test
                    if isinstance(px, dict) and px.get("k") == "Binary" and px.get("op") == "Sub" and nf(px["l"]) == nf(E) and nf(px["r"]) == nf(B) and lit_int(y) is not None:
                        if px not in measures:
                            measures.append(px)
                        return holds(op, n, lit_int(y))
                if cm[0] in ("Eq", "Ne") and {nf(cm[1]), nf(cm[2])} == {nf(B), nf(E)}:
                    return (n == 0) if cm[0] == "Eq" else (n != 0)
                return None
            return ev
        long_only = holds_at(pcs, ev_len(1)) is False and holds_at(pcs, ev_len(2)) is not False
        # ... and neither bound is changed between the point where the length is measured and the call
        stale = []
        order = [x for x, _ in walk(jk.hir)]
        pos = {id(x): i_ for i_, x in enumerate(order)}
        if measures and id(c) in pos:
            m_at = min(pos.get(id(m_), len(order)) for m_ in measures)
            for x in order[m_at:pos[id(c)]]:
                if x.get("k") in ("Assign", "AssignOp") and peel(x["l"]).get("lid") in (B.get("lid"), E.get("lid")):
                    stale.append(render(x))
        ctx.ob("JoinKatakanaOovPlugin|merge-needs-two-nodes", long_only and not stale,
               "concat_oov_nodes(path, %s, %s, ..) is reached only when %s - %s >= 2: %s; bounds changed between the test and the call: %s (a single "
               "node passed to the merge helper is reported with the plugin's POS although nothing was merged)" % (render(a[1]), render(a[2]), render(a[2]), render(a[1]), long_only, stale),
               fn=jk, site=c.get("sp"))
    ctx.floor(10)


@rule("C14.order", "do_tokenize: resolve_best_path, then the path-rewrite plugins in configured order, then split_path")
def order(db, ctx):
    f = db.view(db.one("do_tokenize", "StatefulTokenizer"), keep=("rewrite_input", "build_lattice", "resolve_best_path"))
    seq = []
    for c, ps in walk(f.hir):
        if is_call(c) or c.get("k") == "MethodCall":
            cal = callee(c) or ""
            for nm in ("resolve_best_path", "PathRewritePlugin::rewrite", "split_path"):
                if path_ends(cal, nm) and nm.split("::")[-1] not in seq:
                    seq.append(nm.split("::")[-1])
    ctx.ob("do_tokenize|order", seq == ["resolve_best_path", "rewrite", "split_path"], "order: %s" % seq, fn=f)
    from ..loops import iterations, chain as lchain, propagates_errors, body_parents
    its = [i_ for i_ in iterations(f.hir) if mentions(i_["body"], lambda x: x.get("k") == "MethodCall" and x.get("method") == "rewrite")]
    ok = False
    if len(its) == 1:
        itn = its[0]
        ch, base = lchain(db, f, itn["it"])
        calls = [(c, pp) for c, pp in walk(itn["body"], body_parents(itn)) if c.get("k") == "MethodCall" and c.get("method") == "rewrite"]
        ok = {m for m, _ in ch} <= {"path_rewrite_plugins", "iter"} and len(calls) == 1 and propagates_errors(itn, calls[0][0], calls[0][1]) and \
            not any(x.get("k") in ("Break", "Continue") for x, _ in walk(itn["body"]))
    ctx.ob("do_tokenize|all-plugins-in-order", ok, "plugins are applied by a plain loop over path_rewrite_plugins(): %s" % ok, fn=f)
