"""C15 — joined numerals are normalised to their decimal value (partial claim: the STRUCTURAL clauses only).

The value computed by the digit-string arithmetic (StringNumber::add / normalize_scale / to_string, the comma bookkeeping of
check_comma) is a runtime-value fact and is NOT decided here.  What is decided are necessary conditions visible in the shape of
the code: the parser state is completely re-initialised between numerals, the accumulators flow tmp -> subtotal -> total ->
output in that order, a run of numeral tokens is joined only after the parser accepted it (or, for a trailing separator, without
that separator), a rejected character abandons the run, and the character table agrees with the numeral system."""
from ..engine import rule
from ..db import (walk, peel, peel_casts, render, callee, path_ends, is_call, call_args, lit_int, path_conditions, AnchorMissing,
                  deref_all, deref_let, local_name)
from ..guards import eval3, cmp_atom
from ..flow import holds_at, pure_eval
from ..inline import nf
from ..origins import origins

META = {
    "explanation": (
        "PARTIAL, structural clauses only. (reset) NumericParser::clear and StringNumber::clear bring every field to the value the "
        "constructor gives it, and the scan loop clears the parser when a run of numeral tokens starts — a numeral is parsed "
        "independently of the numerals before it; (flow) done() folds tmp into subtotal and then subtotal into total, a small unit "
        "scales tmp before folding it into subtotal, a large unit folds tmp, scales subtotal and folds it into total, and "
        "get_normalized renders `total`, which is what the join hands to concat_nodes as the normalised form; (join-guard) every "
        "join of a run is reachable only when parser.done() accepted it, or — when it was rejected — only for the COMMA/POINT error "
        "state with the last token being that separator, and then the joined range ends one token earlier; (abandon) the result of "
        "append() is tested and a rejected character resets the run start; (table) the character table maps 〇..九 and 0..9 to their "
        "digit, 十 百 千 万 億 兆 to the exponents 1 2 3 4 8 12 (by evaluating the unit classifiers and the shift argument at the "
        "table's values). NOT decided: the digit-string arithmetic itself (add / normalize_scale / to_string), the separator "
        "position rules of check_comma, which characters reach the parser (category lookup)."),
    "decided": ["reset", "flow", "join-guard", "abandon", "table"],
    "not_decided": ["value of the string arithmetic (add, normalize_scale, to_string)", "comma position rules", "category lookup of the tokens"],
}

NP = "numeric_parser::NumericParser"
SN = "string_number::StringNumber"


def _ctor_fields(f):
    """field -> initialiser expression of the struct literal a constructor returns"""
    for n, _ in walk(f.hir):
        if n.get("k") == "Struct" and n.get("fields"):
            return {fl["name"]: fl["e"] for fl in n["fields"]}
    return None


def _is_fresh(e):
    """`T::new()` / `T::default()` / `String::new()` / `Vec::new()`: a freshly constructed empty value"""
    e = peel(e)
    return isinstance(e, dict) and is_call(e) and not call_args(e) and (callee(e) or "").split("::")[-1] in ("new", "default")


def _self_field(e):
    e = deref_all(peel(e))
    while isinstance(e, dict) and e.get("k") in ("AddrOf", "Deref"):
        e = peel(e.get("e"))
    if isinstance(e, dict) and e.get("k") == "Field":
        b = peel(e.get("e"))
        while isinstance(b, dict) and b.get("k") in ("AddrOf", "Deref"):
            b = peel(b.get("e"))
        if isinstance(b, dict) and b.get("k") == "Path" and b.get("name") == "self" or (isinstance(b, dict) and b.get("res") == "local"):
            return e.get("name")
    return None


@rule("C15.reset", "clear() of NumericParser and of StringNumber re-initialises EVERY field to the constructor's value (assignment of the same "
                   "value, `.clear()` of a field the constructor creates empty, or `*self = Self::new()`); the scan loop clears the parser when "
                   "a run starts")
def reset(db, ctx):
    for adt in (NP, SN):
        new = db.one("new", adt.split("::")[-1])
        clr = db.one("clear", adt.split("::")[-1])
        ctor = _ctor_fields(new)
        if not ctor:
            raise AnchorMissing("%s::new struct literal" % adt)
        ctx.touch(new)
        whole = False
        got = {}
        for n, ps in walk(clr.hir):
            if n.get("k") == "Assign":
                l = peel(n["l"])
                if l.get("k") == "Field" and _self_field(l):
                    # an assignment under a condition does not reset the field on every call
                    pcs = path_conditions(n.get("id"), clr.hir)
                    got.setdefault(l["name"], []).append(("assign", n["r"], bool(pcs)))
                elif l.get("k") in ("Deref", "Unary") and _is_fresh(n["r"]):
                    whole = True
            if n.get("k") == "MethodCall" and n.get("method") == "clear":
                fld = _self_field(n.get("recv"))
                if fld:
                    pcs = path_conditions(n.get("id"), clr.hir)
                    got.setdefault(fld, []).append(("clear", None, bool(pcs)))
        for fld, init in sorted(ctor.items()):
            if whole:
                ctx.ob("%s|%s" % (adt.split("::")[-1], fld), True, "%s::clear replaces the whole value by a fresh one" % adt, fn=clr)
                continue
            hows = [h for h in got.get(fld, []) if not h[2]]
            ok = False
            desc = "not touched (or only conditionally)"
            for how, val, _ in hows:
                if how == "assign":
                    ok = nf(val) == nf(init)
                    desc = "assigned `%s` (constructor: `%s`)" % (render(val), render(init))
                else:
                    ok = _is_fresh(init)
                    desc = "`.clear()`-ed (constructor: `%s`)" % render(init)
            ctx.ob("%s|%s" % (adt.split("::")[-1], fld), ok,
                   "%s::clear: field `%s` %s — state left over from the previous numeral changes how the next one is parsed" % (adt.split("::")[-1], fld, desc),
                   fn=clr)
    # the scan loop clears the parser when a run starts
    scan = _scan_fn(db)
    ap = _calls(scan, NP + "::append")
    cl = _calls(scan, NP + "::clear")
    if not ap:
        raise AnchorMissing("call of NumericParser::append in the scan function")
    ok = False
    why = "no call of NumericParser::clear in %s" % scan.short()
    for c in cl:
        pc_c = _pcs_text(scan, c)
        for a in ap:
            pc_a = _pcs_text(scan, a)
            extra = [x for x in pc_c if x not in pc_a]
            before = _order(scan, c) < _order(scan, a)
            # the only additional condition is the run-not-started test: a comparison of a local with 0 that is re-assigned next to clear()
            marker_ok = len(extra) <= 1 and all(_is_marker_test(scan, c, e) for e in extra)
            if before and marker_ok:
                ok = True
            why = "clear() %s append(); additional conditions of clear(): %s" % ("precedes" if before else "does NOT precede", [t for t, _, _ in extra])
    ctx.ob("scan|clear-at-run-start", ok, "%s: the parser is cleared when a run of numeral tokens starts — %s" % (scan.short(), why), fn=scan)
    ctx.floor(13)


def _scan_fn(db):
    fs = [f for f in db.fns.values() if f.pkg == "sudachi" and f.hir and "::join_numeric::" in f.key and "numeric_parser" not in f.key
          and any(is_call(c) and path_ends(callee(c) or "", NP + "::append") for c, _ in walk(f.hir))]
    if len(fs) != 1:
        raise AnchorMissing("the function of join_numeric that feeds NumericParser::append", "(%d candidates)" % len(fs))
    return fs[0]


def _calls(f, suffix):
    return [c for c, _ in walk(f.hir) if is_call(c) and path_ends(callee(c) or "", suffix)]


def _order(f, node):
    for i, (n, _) in enumerate(walk(f.hir)):
        if n is node:
            return i
    return 1 << 30


def _pcs_text(f, node):
    out = []
    for c, pol in (path_conditions(node.get("id"), f.hir) or []):
        if isinstance(c, tuple):
            out.append((str(c[0]) + render(c[1]) + str(render(c[2]) if isinstance(c[2], dict) else c[2]), pol, c))
        else:
            out.append((nf(c), pol, c))
    return out


def _is_marker_test(f, clear_call, cond):
    text, pol, c = cond
    if isinstance(c, tuple):
        return False
    a = cmp_atom(c)
    if not a:
        return False
    op, l, r = a
    var = l if lit_int(r) is not None else (r if lit_int(l) is not None else None)
    var = peel_casts(var) if var is not None else None
    if not (isinstance(var, dict) and var.get("k") == "Path" and var.get("res") == "local"):
        return False
    # the same local is assigned in the block that holds clear()
    for n, ps in walk(f.hir):
        if n.get("k") == "Block" and any(s.get("k") == "Semi" and s.get("e") is clear_call for s in n.get("stmts", [])):
            for s in n["stmts"]:
                e = s.get("e") if s.get("k") == "Semi" else None
                if isinstance(e, dict) and e.get("k") == "Assign" and peel(e["l"]).get("lid") == var.get("lid"):
                    return True
    return False


def _recv_arg_fields(c):
    a = call_args(c)
    return tuple(_self_field(x) for x in a[:2])


@rule("C15.flow", "accumulator flow: done() folds tmp into subtotal, then subtotal into total; small unit: tmp is scaled, then folded into subtotal; "
                  "large unit: tmp folded into subtotal, subtotal scaled, then folded into total; get_normalized renders total; the join hands "
                  "the parser's rendering to concat_nodes")
def flow_rule(db, ctx):
    done = db.one("done", "NumericParser")
    v = db.view(done, depth=2)
    adds = [_recv_arg_fields(c) for c, _ in walk(v.hir) if is_call(c) and path_ends(callee(c) or "", SN + "::add")]
    ctx.ob("done|tmp->subtotal->total", adds == [("subtotal", "tmp"), ("total", "subtotal")],
           "NumericParser::done folds %s (must be subtotal+=tmp, then total+=subtotal: the pending digits reach the total)" % adds, fn=done)
    # in done(): the adds are not conditioned on anything (they are evaluated, left to right, on every call)
    ap = db.one("append", "NumericParser")
    va = db.view(ap, depth=2, keep=("is_small_unit", "is_large_unit"))
    seq = {}
    small = db.one("is_small_unit", "NumericParser")
    large = db.one("is_large_unit", "NumericParser")
    for c, _ in walk(va.hir):
        if not is_call(c):
            continue
        cal = callee(c) or ""
        if path_ends(cal, SN + "::add") or path_ends(cal, SN + "::shift_scale") or path_ends(cal, SN + "::append"):
            pcs = path_conditions(c.get("id"), va.hir) or []
            br = None
            for cond, pol in pcs:
                if isinstance(cond, tuple):
                    continue
                cc = peel(cond)
                if is_call(cc) and pol:
                    if path_ends(callee(cc) or "", "is_small_unit"):
                        br = "small"
                    elif path_ends(callee(cc) or "", "is_large_unit"):
                        br = "large"
            if br is None:
                # digit branch: both classifiers negative
                neg = [path_ends(callee(peel(cond)) or "", "unit") or (callee(peel(cond)) or "").endswith("_unit") for cond, pol in pcs
                       if not isinstance(cond, tuple) and is_call(peel(cond)) and not pol]
                br = "digit" if len(neg) >= 2 else "?"
            op = cal.split("::")[-1]
            seq.setdefault(br, []).append((op,) + tuple(x for x in _recv_arg_fields(c) if x))
    want = {
        "small": [("shift_scale", "tmp"), ("add", "subtotal", "tmp")],
        "large": [("add", "subtotal", "tmp"), ("shift_scale", "subtotal"), ("add", "total", "subtotal")],
        "digit": [("append", "tmp")],
    }
    for br, w in want.items():
        ctx.ob("append|%s" % br, seq.get(br) == w, "NumericParser::append, %s branch: %s (must be %s)" % (br, seq.get(br), w), fn=ap)
    gn = db.one("get_normalized", "NumericParser")
    rendered = [_self_field(call_args(c)[0]) for c, _ in walk(gn.hir) if is_call(c) and path_ends(callee(c) or "", SN + "::to_string")]
    ctx.ob("get_normalized|total", rendered == ["total"], "get_normalized renders %s (must be the total)" % rendered, fn=gn)
    cc = db.one("concat", "JoinNumericPlugin")
    n = 0
    for c, _ in walk(cc.hir):
        if is_call(c) and path_ends(callee(c) or "", "node::concat_nodes"):
            a = call_args(c)
            if len(a) > 3:
                os_ = origins(db, cc, a[3], depth=4)
                if any(isinstance(o, tuple) and o and o[0] == "call" and path_ends(o[1] or "", NP + "::get_normalized") for o in os_):
                    n += 1
    ctx.ob("concat|normalized-form<-parser", n >= 1,
           "JoinNumericPlugin::concat: %d concat_nodes call(s) whose normalised-form argument comes from NumericParser::get_normalized (floor 1)" % n, fn=cc)
    ctx.floor(5)


def _join_ev(done_val, sep_val):
    """atom evaluator: parser.done() = done_val; comparisons with Error::COMMA / Error::POINT or the one-character strings "," / "."
    = sep_val (None = unknown)"""
    def ev(atom):
        if isinstance(atom, tuple):
            return None
        a = deref_all(peel(atom))
        if is_call(a) and path_ends(callee(a) or "", NP + "::done"):
            return done_val
        c = cmp_atom(a)
        if c and c[0] in ("Eq", "Ne"):
            t = render(c[1]) + " " + render(c[2])
            if "Error::COMMA" in t or "Error::POINT" in t or '","' in t or '"."' in t:
                if sep_val is None:
                    return None
                return sep_val if c[0] == "Eq" else (not sep_val)
        return None
    return ev


@rule("C15.join-guard", "every join of a run (call of JoinNumericPlugin::concat in the scan function) is reachable only when parser.done() accepted "
                        "the run; or, when it rejected it, only for the COMMA / POINT error state with that separator as the last token, and "
                        "then the joined range stops one token earlier")
def join_guard(db, ctx):
    scan = _scan_fn(db)
    v = db.view(scan, depth=2, keep=("concat",))
    calls = [c for c, _ in walk(v.hir) if is_call(c) and path_ends(callee(c) or "", "JoinNumericPlugin::concat")]
    if len(calls) < 2:
        raise AnchorMissing("calls of JoinNumericPlugin::concat in the scan function", "(%d)" % len(calls))
    normal_ends = []
    classified = []
    for c in calls:
        pcs = path_conditions(c.get("id"), v.hir)
        r_acc = holds_at(pcs, _join_ev(True, None))
        r_rej = holds_at(pcs, _join_ev(False, None))
        r_rej_nosep = holds_at(pcs, _join_ev(False, False))
        r_rej_sep = holds_at(pcs, _join_ev(False, True))
        end = nf(call_args(c)[3]) if len(call_args(c)) > 3 else None
        mentions_state = any(not isinstance(cnd, tuple) and any(x.get("k") == "Field" and x.get("name") == "error_state" for x, _ in walk(cnd)) for cnd, pol in (pcs or []))
        if r_acc is not False and r_rej is False:
            kind = "accepted"
            normal_ends.append(end)
        elif r_acc is False and (mentions_state or (r_rej_nosep is False and r_rej_sep is not False)):
            # in the rejected branch, under a test of the parser's error state (written inline, in a helper, or as a match)
            kind = "trailing-separator"
        else:
            kind = "unguarded"
        classified.append((c, kind, end, (r_acc, r_rej, r_rej_nosep, r_rej_sep)))
    na = nt = 0
    for c, kind, end, sig in classified:
        if kind == "accepted":
            na += 1
            ctx.ob("join|accepted#%d" % na, True, "%s: join of `..%s` is reachable only after parser.done() returned true" % (scan.short(), end), fn=scan, site=c.get("sp"))
        elif kind == "trailing-separator":
            nt += 1
            ok = any(_minus_one(end, e) for e in normal_ends)
            ctx.ob("join|trailing-separator#%d" % nt, ok,
                   "%s: join after a rejected run needs the COMMA/POINT state with that separator last, and ends at `%s` (must be one token before the "
                   "accepted end, one of %s): %s" % (scan.short(), end, normal_ends, ok), fn=scan, site=c.get("sp"))
        else:
            ctx.ob("join|unguarded#%d" % (len(classified)), False,
                   "%s: a join of the run is reachable (done=true: %s, done=false: %s, done=false & no separator state: %s) without the parser having accepted it — "
                   "malformed numerals would be joined into a wrong value" % ((scan.short(),) + sig[:3]), fn=scan, site=c.get("sp"))
    ctx.ob("join|kinds", na >= 2 and nt >= 2, "%d accepted-run joins, %d trailing-separator joins (floor 2 + 2: inside the scan and for the last run)" % (na, nt), fn=scan, nontrivial=False)
    ctx.floor(5)


def _minus_one(end, normal):
    if end is None or normal is None:
        return False
    e = end.replace(" ", "").replace("(", "").replace(")", "")
    n = normal.replace(" ", "").replace("(", "").replace(")", "")
    return e in (n + "-1", "-1+" + n)


@rule("C15.abandon", "the result of NumericParser::append is tested, and on rejection the run start is reset (so the rejected run is never joined)")
def abandon(db, ctx):
    scan = _scan_fn(db)
    n = 0
    for c, ps in walk(scan.hir):
        if not (is_call(c) and path_ends(callee(c) or "", NP + "::append")):
            continue
        n += 1
        parent = ps[-1] if ps else None
        tested = False
        for p in reversed(ps):
            if p.get("k") == "If" and _contains(p.get("cond"), c):
                tested = True
                ifn = p
                break
            if p.get("k") in ("Semi", "Block"):
                break
        ctx.ob("append|tested", tested, "%s: the result of parser.append(..) decides a branch: %s" % (scan.short(), tested), fn=scan, site=c.get("sp"))
        if not tested:
            continue
        # under "append returned false" the run-start marker is assigned a negative value
        def ev(atom, c=c):
            if isinstance(atom, tuple):
                return None
            a = deref_all(peel(atom))
            return False if a is c or (is_call(a) and path_ends(callee(a) or "", NP + "::append")) else None
        resets = []
        for a, _ in walk(ifn):
            if a.get("k") == "Assign":
                v = lit_int(a["r"])
                if v is not None and v < 0 and peel(a["l"]).get("res") == "local":
                    r = holds_at(path_conditions(a.get("id"), scan.hir), ev)
                    if r is not False:
                        resets.append(render(a))
        ctx.ob("append|rejected-run-abandoned", bool(resets), "%s: on a rejected character the run start is reset (%s)" % (scan.short(), resets), fn=scan)
    ctx.ob("append|calls", n >= 1, "%d append call(s)" % n, nontrivial=False)
    ctx.floor(3)


def _contains(root, node):
    return any(n is node for n, _ in walk(root)) if isinstance(root, dict) else False


DIGITS = {"〇": 0, "一": 1, "二": 2, "三": 3, "四": 4, "五": 5, "六": 6, "七": 7, "八": 8, "九": 9}
UNITS = {"十": 1, "百": 2, "千": 3, "万": 4, "億": 8, "兆": 12}


@rule("C15.table", "the character table maps the kanji digits to 0..9 and, through the unit classifiers and the shift argument evaluated at the table's "
                   "values, 十 百 千 to the in-group exponents 1 2 3 and 万 億 兆 to the group exponents 4 8 12; ASCII digits are added for 0..9")
def table(db, ctx):
    mk = [f for f in db.fns.values() if f.pkg == "sudachi" and f.hir and "numeric_parser::" in f.key and "{closure" not in f.key
          and sum(1 for n, _ in walk(f.hir) if n.get("k") == "Tup" and len(n.get("elems", [])) == 2 and peel(n["elems"][0]).get("t") == "char") >= 10]
    if len(mk) != 1:
        raise AnchorMissing("the function holding the (char, value) table of numeric_parser", "(%d candidates)" % len(mk))
    mk = mk[0]
    tab = {}
    for n, _ in walk(mk.hir):
        if n.get("k") == "Tup" and len(n.get("elems", [])) == 2 and peel(n["elems"][0]).get("t") == "char":
            v = lit_int(n["elems"][1])
            tab[peel(n["elems"][0])["v"]] = v
    small = db.one("is_small_unit", "NumericParser")
    large = db.one("is_large_unit", "NumericParser")
    ap = db.one("append", "NumericParser")
    # the shift argument as a function of the looked-up value: `-n`
    shifts = []
    for c, _ in walk(db.view(ap, depth=2).hir):
        if is_call(c) and path_ends(callee(c) or "", SN + "::shift_scale"):
            shifts.append(peel_casts(deref_all(call_args(c)[1])))

    def shift_at(e, n):
        e = peel(e)
        if e.get("k") == "Unary" and e.get("op") == "Neg":
            inner = shift_at(e["e"], n)
            return None if inner is None else -inner
        if e.get("k") == "Path" and e.get("res") == "local":
            return n
        if lit_int(e) is not None:
            return lit_int(e)
        if e.get("k") == "Binary" and e.get("op") in ("Add", "Sub", "Mul"):
            a, b = shift_at(e["l"], n), shift_at(e["r"], n)
            if a is None or b is None:
                return None
            return {"Add": a + b, "Sub": a - b, "Mul": a * b}[e["op"]]
        if e.get("k") == "MethodCall" and e.get("method") in ("abs", "unsigned_abs") :
            a = shift_at(e["recv"], n)
            return None if a is None else abs(a)
        return None
    for ch, d in DIGITS.items():
        v = tab.get(ch)
        cls = (pure_eval(db, small, [v]), pure_eval(db, large, [v])) if v is not None else None
        ctx.ob("digit|%s" % ch, v == d and cls == (False, False), "'%s' -> %s, (small unit, large unit) = %s (must be %d, a digit)" % (ch, v, cls, d), fn=mk)
    for ch, e in UNITS.items():
        v = tab.get(ch)
        cls = (pure_eval(db, small, [v]), pure_eval(db, large, [v])) if v is not None else None
        want = (True, False) if e <= 3 else (False, True)
        sh = sorted({shift_at(s, v) for s in shifts}, key=str) if v is not None else None
        ctx.ob("unit|%s" % ch, cls == want and sh == [e], "'%s' -> %s, (small unit, large unit) = %s (must be %s), scale shift %s (must be [%d])" % (ch, v, cls, want, sh, e), fn=mk)
    extra = sorted(set(tab) - set(DIGITS) - set(UNITS))
    ctx.ob("table|no-extra", not extra, "table characters beyond the kanji digits and units: %s" % extra, fn=mk)
    # ASCII digits: a range 0..10 mapped to (its decimal character, itself)
    rng = [n for n, _ in walk(mk.hir) if n.get("k") in ("Struct", "Range", "Call", "MethodCall") and "0..10" in render(n).replace(" ", "")]
    asc = any("0..10" in render(n).replace(" ", "") or ("start:0" in render(n).replace(" ", "") and "end:10" in render(n).replace(" ", "")) for n, _ in walk(mk.hir))
    ctx.ob("table|ascii-digits", asc or all(str(i) in tab for i in range(10)), "ASCII digits 0..9 are added to the table: %s" % (asc or all(str(i) in tab for i in range(10))), fn=mk)
    ctx.floor(18)
