"""C11 — loading a subset of word fields never changes the fields that were requested."""
from ..engine import rule
from ..db import (walk, peel, peel_casts, render, callee, path_ends, short_path, is_call, call_args, lit_int,
                  exit_kind, path_conditions, atoms, AnchorMissing, local_name)
from ..guards import guarded_exits, mentions, is_call_to, cmp_atom
from ..origins import field_writes
from .. import wimodel
from ..wimodel import flag_names

META = {
    "explanation": (
        "(skip-width) for every heavy field the parse function and the skip function consume the same bytes: strings share "
        "utf16_string_data; arrays read a 1-byte count and items of width 4 (le_u32) on the parse side and count*4 on the "
        "skip side; (early-exit) every field instance tests flds.is_empty() first and removes exactly its own flag; "
        "(closure) every WordInfo accessor that falls back to surface() when its stored string is empty has the flag that "
        "populates it in the antecedent of the SURFACE rule of InfoSubset::normalize (dictionary_form is populated through "
        "DIC_FORM_WORD_ID); split flags pull HEAD_WORD_LENGTH; (fixups) each fix-up in LexiconSet::get_word_info_subset is "
        "guarded by contains(<flag of the field it rewrites>) as paired by the parser table; (synonym) the synonym flag is "
        "dropped when the dictionary has none. NOT decided: equality of field values for all words x 2^10 subsets "
        "(follows from skip-width only for well-formed dictionary bytes)."),
    "decided": ["skip-width", "early-exit", "closure", "fixups"],
    "not_decided": ["value equality for all words and subsets on arbitrary dictionary bytes"],
}

NOM_WIDTH = {"le_u8": 1, "le_u16": 2, "le_i16": 2, "le_u32": 4, "le_i32": 4, "le_u64": 8}


def _array_sig(db, name):
    """(count prefix parser, item width) of an array parse/skip function"""
    f = db.one(name, None)
    prefix = None
    width = None
    from ..db import is_local
    p0 = next((p_.get("lid") for p_ in (f.info.get("params") or []) if isinstance(p_, dict)), None)
    for n, _ in walk(f.hir):
        # the count prefix: the nom primitive applied to the function's own input (first parameter, whatever it is called)
        if is_call(n) and (callee(n) or "").split("::")[-1] in NOM_WIDTH and n.get("args") and is_local(n["args"][0], p0):
            prefix = (callee(n) or "").split("::")[-1]
    for n, _ in walk(f.hir):
        if is_call(n) and path_ends(callee(n), "multi::count"):
            a0 = n["args"][0]
            nm = None
            for x, _ in walk(a0):
                if x.get("k") == "Path" and (x.get("path") or "").split("::")[-1] in NOM_WIDTH:
                    nm = x["path"].split("::")[-1]
            width = NOM_WIDTH.get(nm)
        # the byte count: the product of the parsed count with a literal item width
        if n.get("k") == "Binary" and n.get("op") == "Mul" and (lit_int(n["r"]) is None) != (lit_int(n["l"]) is None):
            width = lit_int(n["r"]) if lit_int(n["r"]) is not None else lit_int(n["l"])
            MUL_TY[name] = n.get("ty")
    return f, prefix, width


MUL_TY = {}
_TYBITS = {"u8": 8, "u16": 16, "u32": 32, "u64": 64, "usize": 64, "i8": 7, "i16": 15, "i32": 31, "i64": 63, "isize": 63}


@rule("C11.skip-width", "for each heavy field the parse function and the skip function consume the same number of bytes")
def skip_width(db, ctx):
    pf, rows = wimodel.parser_table(db)
    pairs = sorted({(r["parse"], r["skip"]) for r in rows if r["heavy"]})
    for p, s in pairs:
        if p is None or s is None:
            ctx.ob("pair|%s|%s" % (p, s), False, "heavy field with unrecognised parse/skip function (%s, %s)" % (p, s), fn=pf)
            continue
        if "string" in p:
            fp, fs = db.one(p, None), db.one(s, None)
            dp = any(is_call(n) and path_ends(callee(n), "utf16_string_data") for n, _ in walk(fp.hir))
            ds = any(is_call(n) and path_ends(callee(n), "utf16_string_data") for n, _ in walk(fs.hir))
            ctx.ob("pair|%s|%s" % (p, s), dp and ds, "%s and %s both delimit the string with utf16_string_data: %s/%s" % (p, s, dp, ds), fn=fs)
        else:
            fp, pp, wp = _array_sig(db, p)
            fs, ps_, ws = _array_sig(db, s)
            ctx.ob("pair|%s|%s" % (p, s), pp == ps_ and wp == ws and wp is not None and pp is not None,
                   "%s reads count with %s and items of width %s; %s reads count with %s and skips count*%s" % (p, pp, wp, s, ps_, ws), fn=fs)
            # the byte count count*width must be computed at a width that holds it for every count the prefix can carry
            for nm, pre, w_ in ((p, pp, wp), (s, ps_, ws)):
                ty = MUL_TY.get(nm)
                if ty is not None and pre in NOM_WIDTH and w_:
                    need = (((1 << (8 * NOM_WIDTH[pre])) - 1) * w_).bit_length()
                    ctx.ob("%s|byte-count-width" % nm, _TYBITS.get(ty, 0) >= need,
                           "%s computes count*%d at type %s (%d bits); a %s count needs %d bits — narrower arithmetic overflows (debug: panic, release: "
                           "wraps and the following fields are read from the wrong place)" % (nm, w_, ty, _TYBITS.get(ty, 0), pre, need), fn=db.one(nm, None))
    sd = db.one("utf16_string_data", None)
    mul = None
    for n, _ in walk(sd.hir):
        # the byte count: the (only) product of the parsed count with a literal
        if n.get("k") == "Binary" and n.get("op") == "Mul" and (lit_int(n["r"]) is None) != (lit_int(n["l"]) is None):
            mul = lit_int(n["r"]) if lit_int(n["r"]) is not None else lit_int(n["l"])
    ctx.ob("utf16_string_data|2-bytes-per-unit", mul == 2, "utf16_string_data takes length*%s bytes (UTF-16 code units are 2 bytes)" % mul, fn=sd)
    ctx.floor(4)


@rule("C11.early-exit", "every field instance of WordInfoParser::parse tests flds.is_empty() first, tests/removes exactly its own "
                        "flag, and the skip branch assigns nothing")
def early_exit(db, ctx):
    pf, rows = wimodel.parser_table(db)
    for r in rows:
        ok = r["empty_check_first"] and r["flag"] == r["removed"] and len(r["flag"]) == 1 and not r.get("skip_assigns")
        ctx.ob("field|%s" % r["field"], ok, "field %s: empty-check first=%s, flag tested %s, flag removed %s, skip branch assigns %s" % (
            r["field"], r["empty_check_first"], sorted(r["flag"]), sorted(r["removed"]), r.get("skip_assigns")), fn=pf)
    ctx.floor(10)


def _fallback_accessors(db):
    """WordInfo accessors of the form `if self.data.X.is_empty() { self.surface() } else { &self.data.X }`"""
    out = {}
    for f in db.fns.values():
        if f.self_adt and f.self_adt.endswith("word_infos::WordInfo") and f.hir and not f.trait:
            for n, _ in walk(f.hir):
                if n.get("k") == "If" and mentions(n["then"], is_call_to("WordInfo::surface")):
                    c = peel(n["cond"])
                    if c.get("k") == "MethodCall" and c.get("method") == "is_empty":
                        r = peel(c["recv"])
                        if r.get("k") == "Field":
                            out[f.name] = (r["name"], f)
    return out


def _normalize_rules(db):
    f = db.one("normalize", "InfoSubset")
    rules = []
    from ..origins import index as oindex
    b = oindex(db).bindings(f)

    def resolve(pathnode):
        bd = b.get(pathnode.get("lid"))
        return bd[1] if bd and bd[0] == "let" else None
    for n, _ in walk(f.hir):
        if n.get("k") == "If":
            c = peel(n["cond"])
            if c.get("k") == "MethodCall" and c.get("method") in ("intersects", "contains"):
                ante = flag_names(c["args"][0], resolve)
                cons = set()
                for x, _ in walk(n["then"]):
                    if x.get("k") == "AssignOp" and x.get("op") == "BitOr":
                        cons |= flag_names(x["r"], resolve)
                    if x.get("k") == "MethodCall" and x.get("method") in ("insert", "set"):
                        cons |= flag_names(x["args"][0], resolve)
                rules.append((c["method"], ante, cons))
    return f, rules


@rule("C11.closure", "accessors that fall back to surface() have their populating flag in the antecedent of normalize()'s SURFACE "
                     "rule; split flags pull HEAD_WORD_LENGTH")
def closure(db, ctx):
    pf, rows = wimodel.parser_table(db)
    field_flag = {r["field"]: next(iter(r["flag"])) for r in rows if len(r["flag"]) == 1}
    acc = _fallback_accessors(db)
    if len(acc) < 3:
        raise AnchorMissing("WordInfo accessors falling back to surface()", "(%d found)" % len(acc))
    nf, nrules = _normalize_rules(db)
    surf_ante = set()
    for m, ante, cons in nrules:
        if "SURFACE" in cons and m == "intersects":
            surf_ante |= ante
    k, _ = db.adt("word_infos::WordInfoData")
    for name, (fld, f) in sorted(acc.items()):
        if fld in field_flag:
            need = field_flag[fld]
            how = "parsed under %s" % need
        else:
            # populated outside the parser: find the writer and the field its guard consults
            need = None
            how = "no populating flag found"
            for wf, kind, val, node in field_writes(db, k, fld):
                if wf.short().endswith("WordInfoParser::parse"):
                    continue
                pcs = path_conditions(node["id"], wf.hir) or []
                for c, pol in pcs:
                    if isinstance(c, dict):
                        for x, _ in walk(c):
                            nm = local_name(x)
                            if nm:
                                from ..origins import origins
                                for o in origins(db, wf, x, depth=0):
                                    if o[0] == "field" and o[2] in field_flag:
                                        need = field_flag[o[2]]
                                        how = "filled in %s under a test of %s, parsed under %s" % (wf.short(), o[2], need)
        ok = need is not None and need in surf_ante
        ctx.ob("accessor|%s" % name, ok,
               "WordInfo::%s() returns surface() when .%s is empty; .%s is %s; normalize() adds SURFACE when the subset intersects %s — "
               "%s" % (name, fld, fld, how, sorted(surf_ante),
                       "covered" if ok else "NOT covered: requesting only this field yields \"\" for words whose stored value is elided"),
               fn=nf)
    hw = any(m == "intersects" and {"SPLIT_A", "SPLIT_B"} <= ante and "HEAD_WORD_LENGTH" in cons for m, ante, cons in nrules)
    ctx.ob("split=>head_word_length", hw, "normalize(): SPLIT_A|SPLIT_B => HEAD_WORD_LENGTH (NodeSplitIterator reads head_word_length): %s" % hw, fn=nf)
    ctx.floor(4)


@rule("C11.fixups", "each fix-up in LexiconSet::get_word_info_subset is guarded by contains(<flag paired with the field it rewrites>); "
                    "WordInfos::get_word_info drops SYNONYM_GROUP_ID when the dictionary has none")
def fixups(db, ctx):
    pf, rows = wimodel.parser_table(db)
    field_flag = {r["field"]: next(iter(r["flag"])) for r in rows if len(r["flag"]) == 1}
    f = db.one("get_word_info_subset", "LexiconSet")
    n_fix = 0
    for n, ps in walk(f.hir):
        if n.get("k") != "If":
            continue
        c = peel(n["cond"])
        if not (c.get("k") == "MethodCall" and c.get("method") in ("contains", "intersects")):
            # a conjunction such as `dict_id > 0 && subset.contains(..)`: look inside
            inner = [a for a, pol in atoms(n["cond"], True) if peel(a).get("k") == "MethodCall" and peel(a).get("method") in ("contains", "intersects")
                     and "subset" in render(peel(a)["recv"])]
            if not inner:
                continue
            c = peel(inner[0])
        flag = flag_names(c["args"][0])
        touched = set()
        for x, _ in walk(n["then"]):
            if x.get("k") == "Field" and x.get("name") in field_flag and (x.get("adt") or "").endswith("WordInfoData"):
                touched.add(x["name"])
        want = {field_flag[t] for t in touched}
        n_fix += 1
        # requesting a field must be enough to get its fix-up: contains(F) demands ALL of F, so F must be exactly that field's flag
        implied = all(flag == {field_flag[t]} for t in touched) if c.get("method") == "contains" else all(field_flag[t] in flag for t in touched)
        ctx.ob("fixup|%s" % ",".join(sorted(touched)), bool(touched) and flag == want and implied,
               "fix-up of %s is guarded by %s(%s); the parser pairs those fields with %s; each field's own flag alone enables its fix-up: %s" % (
                   sorted(touched), c.get("method"), sorted(flag), sorted(want), implied),
               fn=f, site=n.get("sp"))
    ctx.floor(4)
    g = db.one("get_word_info", "WordInfos")
    ok = False
    from ..db import deref_all

    def _minus_syn(x):
        x = peel(x)
        return (x.get("k") in ("Binary", "AssignOp") and x.get("op") == "Sub" and flag_names(x["r"]) == {"SYNONYM_GROUP_ID"}) or \
            (x.get("k") == "MethodCall" and x.get("method") in ("difference", "remove") and x["args"] and flag_names(x["args"][0]) == {"SYNONYM_GROUP_ID"})
    is_has = lambda a: peel(a).get("k") == "Field" and peel(a).get("name") == "has_synonym_group_ids"
    for n, ps in walk(g.hir):
        # `if !self.has_synonym_group_ids { subset -= SYNONYM_GROUP_ID }`
        if n.get("k") == "If" and any(is_has(a) and p is False for a, p in atoms(n["cond"], True)):
            if any(_minus_syn(x) for x, _ in walk(n["then"])):
                ok = True
        # `let subset = if self.has_synonym_group_ids { subset } else { subset - SYNONYM_GROUP_ID }` (either polarity)
        if n.get("k") == "If" and "else" in n:
            pos = any(is_has(a) and p is True for a, p in atoms(n["cond"], True))
            neg = any(is_has(a) and p is False for a, p in atoms(n["cond"], True))
            absent_branch = n["else"] if pos else n["then"] if neg else None
            present_branch = n["then"] if pos else n["else"] if neg else None
            if absent_branch is not None and any(_minus_syn(x) for x, _ in walk(absent_branch)) and not any(_minus_syn(x) for x, _ in walk(present_branch)):
                # ... and that value is what the parser is given
                for c, _ in walk(g.hir):
                    if c.get("k") == "MethodCall" and c.get("method") == "parse_word_info" and len(c["args"]) > 1 and deref_all(c["args"][1]) is peel(n):
                        ok = True
    ctx.ob("get_word_info|drop-synonyms-if-absent", ok, "WordInfos::get_word_info removes SYNONYM_GROUP_ID when !has_synonym_group_ids: %s" % ok, fn=g)


@rule("C11.split-subset", "the units of an A/B split are loaded with the subset the tokenizer holds, unchanged: their head_word_length (which places the "
                          "unit boundaries) is stored only when the fields in front of it are requested (re-evaluation of C09.offsets|split|iterator-init)")
def split_subset(db, ctx):
    from . import C09
    C09.offsets(db, ctx)


@rule("C11.mode-flag", "the split list of the mode a tokenizer is switched to is requested whatever field subset is installed (re-evaluation of C09.pairing)")
def mode_flag_reeval(db, ctx):
    from . import C09
    C09.pairing(db, ctx)


@rule("C11.fixup-reachable", "requesting ONE reference field is enough for its fix-up to run on a user-dictionary word: each fix-up block of "
                             "LexiconSet::get_word_info_subset is reachable when the subset is exactly its own flag (no earlier exit keyed on other flags)")
def fixup_reachable(db, ctx):
    from ..flow import holds_at
    pf, rows = wimodel.parser_table(db)
    field_flag = {r["field"]: next(iter(r["flag"])) for r in rows if len(r["flag"]) == 1}
    f = db.view(db.one("get_word_info_subset", "LexiconSet"), keep=("update_dict_id",))
    n = 0
    for x, ps in walk(f.hir):
        # a fix-up site: an assignment to, or an update_dict_id call on, a reference field of the word info
        tgt = None
        if x.get("k") == "Assign" and peel(x["l"]).get("k") == "Field" and peel(x["l"]).get("name") in ("pos_id",) and (peel(x["l"]).get("adt") or "").endswith("WordInfoData"):
            tgt = "pos_id"
        if is_call(x) and path_ends(callee(x) or "", "update_dict_id"):
            for y, _ in walk(call_args(x)[0] if call_args(x) else {}):
                if y.get("k") == "Field" and y.get("name") in ("a_unit_split", "b_unit_split", "word_structure"):
                    tgt = y["name"]
        if tgt is None or tgt not in field_flag:
            continue
        flag = field_flag[tgt]
        pcs = path_conditions(x["id"], f.hir) or []

        def ev(atom, flag=flag):
            a = peel(atom)
            if a.get("k") == "MethodCall" and a.get("method") in ("contains", "intersects") and "subset" in render(a["recv"], x=True):
                fl = flag_names(a["args"][0])
                if any(s.startswith("?") for s in fl):
                    return None
                return (fl <= {flag}) if a["method"] == "contains" else (flag in fl)
            c = cmp_atom(a)
            if c and lit_int(c[2]) == 0 and "dic" in render(c[1], x=True):
                return {"Gt": True, "Eq": False, "Ne": True, "Ge": True, "Lt": False, "Le": False}.get(c[0])
            return None
        r = holds_at(pcs, ev)
        n += 1
        ctx.ob("fixup-reachable|%s" % tgt, r is not False,
               "with the subset {%s} and a user-dictionary word the fix-up of .%s is %s" % (flag, tgt, "reachable" if r is not False else
                                                                                        "UNREACHABLE: an earlier exit / guard is keyed on other flags, the field is returned un-rebased"), fn=f, site=x.get("sp"))
    ctx.floor(4)
