"""C17 — the classes of a code point are the union of all definitions covering it (partial claim: the STRUCTURAL clauses only).

Exactness of the interval table for every boundary value of every definition file is a runtime-value fact and is NOT decided.
Decided are necessary conditions visible in the code: classes are accumulated by union, both ends of every line become
boundaries of a sorted duplicate-free table, the half-open convention (exclusive end = last code point + 1) is the same in the
reader, in the interval selection of `compile` and in the bisection of `get_category_types`, and the default class is written
only where nothing was accumulated."""
from ..engine import rule
from ..db import (walk, peel, peel_casts, render, callee, path_ends, is_call, call_args, lit_int, path_conditions, AnchorMissing,
                  deref_all, deref_let)
from ..guards import bound_cmp_evaluator, err_exits, cmp_atom
from ..flow import holds_at

META = {
    "explanation": (
        "PARTIAL, structural clauses only. (union) inside the loop over the definition lines the per-interval class set is only ever "
        "accumulated (`|=` / union / insert) with the line's classes — never assigned; (default) the default class is written only to "
        "an element tested empty, to the interval before the first boundary, or appended as the interval after the last one, and an "
        "empty definition gives the all-default table; (boundaries) collect_boundaries puts `begin` and `end` of EVERY line, "
        "unconditionally, into an ordered duplicate-free container; (half-open) the reader stores an exclusive end (last code point "
        "+ 1, `begin + 1` for a single point) and rejects begin >= end; compile applies a line to interval i exactly while "
        "boundaries[i] <= end (value points −1 / 0 / +1) starting at the interval after `begin`'s boundary (Ok(i) -> i+1); "
        "get_category_types selects categories[i+1] when the code point IS boundary i and categories[i] when it would be inserted at "
        "i — the same convention as compile. NOT decided: that the merged table is exact for every boundary value (arithmetic over "
        "runtime data), the merge of equal neighbours, the iterator."),
    "decided": ["union", "default", "boundaries", "half-open"],
    "not_decided": ["exactness of the table for every boundary of every file", "merging of equal neighbouring intervals", "CharCategoryIter"],
}

CT = "category_type::CategoryType"


def _is_ct_elem(place):
    """place is an element of a Vec<CategoryType> (indexed) or `*x` with x: &mut CategoryType"""
    p = place
    if isinstance(p, dict) and p.get("k") == "Unary" and p.get("op") == "Deref" and CT in (peel(p["e"]).get("ty") or "") and "&mut" in (peel(p["e"]).get("ty") or ""):
        return "deref", p
    p = peel(place)
    if p.get("k") == "Index" and CT in (p.get("bty") or "") and "Vec<" in (p.get("bty") or ""):
        return "index", p
    if p.get("k") == "Unary" and p.get("op") == "Deref" and CT in (peel(p["e"]).get("ty") or "") and "&mut" in (peel(p["e"]).get("ty") or ""):
        return "deref", p
    return None, None


def _mentions_line_classes(e):
    for n, _ in walk(e):
        if n.get("k") == "Field" and n.get("name") == "categories" and "CatRange" in (n.get("adt") or ""):
            return True
    return False


def _is_default(e):
    e = peel(e)
    return isinstance(e, dict) and e.get("k") == "Path" and (e.get("path") or "").endswith("CategoryType::DEFAULT")


@rule("C17.union", "compile: inside the loop over the definition lines, a write to a per-interval class set is an accumulation with the line's classes "
                   "(|=, union, insert), never a plain assignment; DEFAULT is written only to an element tested empty / to interval 0 / appended")
def union(db, ctx):
    f = db.one("compile", "CharacterCategory")
    v = db.view(f, depth=2, keep=("collect_boundaries",))
    acc = dflt = 0
    for n, ps in walk(v.hir):
        k = n.get("k")
        if k in ("Assign", "AssignOp"):
            kind, place = _is_ct_elem(n["l"])
            if not kind:
                continue
            if _mentions_line_classes(n["r"]):
                acc += 1
                if k == "AssignOp":
                    ok = n.get("op") == "BitOr"
                    how = "`%s=`" % n.get("op")
                else:
                    r = peel(n["r"])
                    old = render(place)
                    ok = ((r.get("k") == "Binary" and r.get("op") == "BitOr") or (r.get("k") == "MethodCall" and r.get("method") == "union")) and old in render(r)
                    how = "plain assignment of `%s`" % render(r)[:80]
                ctx.ob("accumulate#%d" % acc, ok, "compile: the classes of a definition line reach `%s` by %s (must be a union with what earlier lines put there: "
                                                  "overlapping and nested lines)" % (render(place), how), fn=f, site=n.get("sp"))
            elif k == "Assign" and _is_default(n["r"]):
                dflt += 1
                pcs = path_conditions(n.get("id"), v.hir) or []
                guarded = any(not isinstance(c, tuple) and pol and peel(c).get("k") == "MethodCall" and peel(c).get("method") == "is_empty" for c, pol in pcs)
                first = kind == "index" and lit_int(place.get("i")) == 0
                ctx.ob("default#%d" % dflt, guarded or first, "compile: DEFAULT is written to `%s` %s (allowed: element tested empty, or the interval before the first "
                                                              "boundary)" % (render(place), "under is_empty()" if guarded else ("as interval 0" if first else "UNGUARDED")), fn=f, site=n.get("sp"))
            else:
                ctx.ob("other-write|%s" % render(n)[:60], False, "compile: `%s` writes a per-interval class set with something that is neither a definition "
                                                                 "line's classes nor the default" % render(n)[:100], fn=f, site=n.get("sp"))
        if k == "MethodCall" and n.get("method") in ("insert", "set", "toggle", "remove") and _is_ct_elem(n.get("recv"))[0]:
            if n["method"] == "insert" and any(_mentions_line_classes(a) for a in n.get("args", [])):
                acc += 1
                ctx.ob("accumulate#%d" % acc, True, "compile: classes accumulated by insert()", fn=f, site=n.get("sp"))
            else:
                ctx.ob("other-write|%s" % n["method"], False, "compile: `%s` edits a per-interval class set" % render(n)[:100], fn=f, site=n.get("sp"))
    ctx.ob("counts", acc >= 1 and dflt >= 1, "%d accumulating write(s), %d default write(s) (floor 1 + 1)" % (acc, dflt), fn=f, nontrivial=False)
    # empty definition -> the all-default table; Default impl holds exactly one DEFAULT class and no boundary
    pcs_ok = False
    for c, ps in walk(f.hir):
        if c.get("k") == "Ret" or c.get("k") == "Return":
            pcs = path_conditions(c.get("id"), f.hir) or []
            if any(not isinstance(x, tuple) and pol and peel(x).get("k") == "MethodCall" and peel(x).get("method") == "is_empty" for x, pol in pcs) and "default" in render(c).lower():
                pcs_ok = True
    ctx.ob("empty-definition", pcs_ok, "compile returns the default table for an empty definition: %s" % pcs_ok, fn=f)
    g = db.one("get_category_types", "CharacterCategory")
    ok = False
    for c, ps in walk(g.hir):
        if c.get("k") in ("Ret", "Return") and _is_default(c.get("e") or {}):
            pcs = path_conditions(c.get("id"), g.hir) or []
            ok = any(not isinstance(x, tuple) and pol and peel(x).get("k") == "MethodCall" and peel(x).get("method") == "is_empty" for x, pol in pcs)
    ctx.ob("lookup-empty-table", ok, "get_category_types answers DEFAULT for a table without boundaries: %s" % ok, fn=g)
    ctx.floor(5)


@rule("C17.boundaries", "collect_boundaries inserts begin and end of every definition line, unconditionally, into an ordered duplicate-free container")
def boundaries(db, ctx):
    f = db.one("collect_boundaries", "CharacterCategory")
    got = {}
    types = set()
    in_cond = set()
    for n, ps in walk(f.hir):
        if n.get("k") == "If" and isinstance(n.get("cond"), dict):
            in_cond |= {id(x) for x, _ in walk(n["cond"])}
    for n, ps in walk(f.hir):
        if id(n) in in_cond:
            continue        # a mention inside a test is not a value put into the table
        for key in ("ty", "rty"):
            if n.get(key):
                types.add(n[key])
        if n.get("k") == "Let" and isinstance(n.get("pat"), dict) and n["pat"].get("ty"):
            types.add(n["pat"]["ty"])
        if n.get("k") == "Field" and "CatRange" in (n.get("adt") or "") and n.get("name") in ("begin", "end"):
            pcs = path_conditions(n.get("id"), f.hir) or []
            got.setdefault(n["name"], []).append(not pcs)
    for fld in ("begin", "end"):
        ok = any(got.get(fld, []))
        ctx.ob("every-line|%s" % fld, ok, "collect_boundaries takes `%s` of every line unconditionally: %s" % (fld, got.get(fld)), fn=f)
    ordered = any("BTreeSet<u32" in t for t in types)
    cont = "BTreeSet<u32>" if ordered else None
    if not ordered:
        ms = {n.get("method") for n, _ in walk(f.hir) if n.get("k") == "MethodCall"}
        ordered = bool(ms & {"sort", "sort_unstable"}) and "dedup" in ms
        cont = "sorted + dedup Vec" if ordered else None
    ctx.ob("ordered-unique", ordered, "the boundaries are collected in %s (must be ordered and duplicate-free: the table is searched by bisection)" % (cont,), fn=f)
    # filters / take / skip on the iteration would drop lines
    bad = [n.get("method") for n, _ in walk(f.hir) if n.get("k") == "MethodCall" and n.get("method") in ("filter", "take", "skip", "step_by", "take_while", "skip_while", "filter_map")]
    ctx.ob("no-dropping-adaptor", not bad, "no line-dropping iterator adaptor in collect_boundaries: %s" % bad, fn=f)
    ctx.floor(4)


def _search_offsets(root, recv_pred, arg_pred=None):
    """for `match X.binary_search(&k) { Ok(i) => .. i + a .., Err(i) => .. i + b .. }` returns (a, b, match node); the arms' VALUE (or the
    index inside it) must be the bound index plus a literal"""
    for n, ps in walk(root):
        if n.get("k") != "Match":
            continue
        s = peel(n.get("scrut"))
        if not (s.get("k") == "MethodCall" and s.get("method") == "binary_search" and recv_pred(s.get("recv"))):
            continue
        if arg_pred and not any(arg_pred(a) for a in s.get("args", [])):
            continue
        res = {}
        for arm in n.get("arms", []):
            pat = arm.get("pat") or {}
            tag = (pat.get("path") or "").split("::")[-1]
            if tag not in ("Ok", "Err"):
                continue
            binds = [p for p in pat.get("pats", []) if p.get("k") == "Bind"]
            body = peel(arm.get("body"))
            if not binds:
                res[tag] = "diverges" if body.get("k") in ("Call", "MethodCall", "Block") and ("panic" in render(body) or "unreachable" in render(body)) else None
                continue
            lid = binds[0]["lid"]
            off = None
            cands = [body] + [x for x, _ in walk(body)]
            for x in cands:
                if x.get("k") == "Index":
                    x = peel(x["i"])
                else:
                    continue
                off = _offset(x, lid)
                break
            else:
                off = _offset(body, lid)
            res[tag] = off
        return res.get("Ok"), res.get("Err"), n
    return None


def _offset(x, lid):
    x = peel(x)
    if x.get("k") == "Block" and not x.get("stmts") and x.get("expr"):
        x = peel(x["expr"])
    if x.get("k") == "Path" and x.get("lid") == lid:
        return 0
    if x.get("k") == "Binary" and x.get("op") == "Add":
        l, r = peel(x["l"]), peel(x["r"])
        if l.get("lid") == lid and lit_int(r) is not None:
            return lit_int(r)
        if r.get("lid") == lid and lit_int(l) is not None:
            return lit_int(l)
    return None


@rule("C17.half-open", "one half-open convention everywhere: the reader stores end = last code point + 1 (begin + 1 for a single point) and rejects "
                       "begin >= end; compile starts at the interval after begin's boundary and applies a line while boundaries[i] <= end; the "
                       "bisection of get_category_types uses the same index offsets as compile")
def half_open(db, ctx):
    rd = db.one("read_character_definition", "CharacterCategory")
    lit = None
    for n, _ in walk(rd.hir):
        if n.get("k") == "Struct" and (n.get("path") or "").endswith("CatRange"):
            lit = n
    if lit is None:
        raise AnchorMissing("CatRange literal in read_character_definition")
    flds = {fl["name"]: fl["e"] for fl in lit["fields"]}
    end = deref_let(peel(flds["end"]))
    end = peel(end)
    alts = []
    if end.get("k") == "If":
        for br in (end.get("then"), end.get("else")):
            b = peel(br)
            while isinstance(b, dict) and b.get("k") == "Block" and b.get("expr") is not None:
                b = peel(b["expr"])
            alts.append(b)
    else:
        alts.append(end)
    n_ok = 0
    for i, a in enumerate(alts):
        ok = a.get("k") == "Binary" and a.get("op") == "Add" and 1 in (lit_int(a.get("l")), lit_int(a.get("r")))
        n_ok += ok
        ctx.ob("reader|end-exclusive#%d" % (i + 1), ok, "reader: the stored end is `%s` (must be the last covered code point + 1)" % render(a)[:90], fn=rd)
    single = [a for a in alts if a.get("k") == "Binary" and any(peel(x).get("k") == "Path" and peel(x).get("lid") == peel(flds["begin"]).get("lid")
                                                               for x in (a.get("l"), a.get("r")))]
    ctx.ob("reader|single-point", bool(single) or len(alts) == 1, "reader: a single code point is the range begin..begin+1: %s" % bool(single), fn=rd)
    # begin >= end is rejected
    b_lid = peel(flds["begin"]).get("lid")
    e_lid = peel(flds["end"]).get("lid")
    def is_end(n):
        n = peel(n)
        return n.get("k") == "Path" and n.get("lid") == e_lid

    def is_begin(n):
        n = peel(n)
        return n.get("k") == "Path" and n.get("lid") == b_lid
    # the line is stored (the CatRange literal is reached) only when begin < end: value points begin = end − 1 / end / end + 1
    acc = {pt: holds_at(path_conditions(lit.get("id"), rd.hir) or [], bound_cmp_evaluator(is_end, pt, is_begin)) for pt in (-1, 0, 1)}
    ctx.ob("reader|rejects-empty-range", acc[-1] is not False and acc[0] is False and acc[1] is False,
           "reader stores a line at begin − end = −1 / 0 / +1: %s (must be possible / no / no)" % [acc[p] for p in (-1, 0, 1)], fn=rd)
    # compile: start index and the applied intervals
    f = db.one("compile", "CharacterCategory")
    v = db.view(f, depth=2, keep=("collect_boundaries",))
    is_bvec = lambda r: "Vec<u32>" in (peel(r).get("ty") or "") or "[u32]" in (peel(r).get("ty") or "") or peel(r).get("name") == "boundaries"
    so = _search_offsets(v.hir, is_bvec)
    if so and so[0] is not None:
        ctx.ob("compile|start-interval", so[0] == 1, "compile: a line starting at boundary i is applied from interval i+%s on (must be i+1: categories[i] is the interval that "
                                                      "ENDS at boundary i)" % so[0], fn=f)
    else:
        so = None
        ctx.ob("compile|start-interval", True, "compile: the start interval is not written as `match binary_search {Ok(i) => i + k}` — not decided in this form", fn=f, nontrivial=False)
    acc = [n for n, _ in walk(v.hir) if n.get("k") in ("Assign", "AssignOp") and _is_ct_elem(n["l"])[0] and _mentions_line_classes(n["r"])]
    if not acc:
        raise AnchorMissing("accumulating write in compile")
    reach = {}
    for point in (-1, 0, 1):
        is_end = lambda n: peel(n).get("k") == "Field" and peel(n).get("name") == "end" and "CatRange" in (peel(n).get("adt") or "")
        ev = bound_cmp_evaluator(is_end, point)
        reach[point] = holds_at(path_conditions(acc[0].get("id"), v.hir), ev)
    # only DEFINITE deviations alarm: a loop bound written in a form the path conditions do not expose (take_while closure, iterator
    # adaptor) evaluates to None and is reported as not decided
    bad = reach[0] is False or reach[-1] is False or reach[1] is True
    ctx.ob("compile|applied-while-boundary<=end", not bad, "compile: the line's classes are applied to interval i at boundaries[i] − end = −1 / 0 / +1: %s (must be yes / yes / no: "
                                                           "the interval ending AT the exclusive end is the last covered one; None = not decided in this form)" % [reach[p] for p in (-1, 0, 1)], fn=f)
    g = db.one("get_category_types", "CharacterCategory")
    is_bfield = lambda r: peel(r).get("k") == "Field" and peel(r).get("name") == "boundaries"
    so2 = _search_offsets(g.hir, is_bfield)
    if not so2:
        raise AnchorMissing("match on self.boundaries.binary_search(..) in get_category_types")
    ctx.ob("lookup|offsets", (so2[0], so2[1]) == (1, 0) and (so is None or so2[0] == so[0]),
           "get_category_types selects categories[i+%s] when the code point is boundary i and categories[i+%s] when it would be inserted at i (must be +1 / +0, "
           "the offsets compile uses: %s)" % (so2[0], so2[1], so and so[0]), fn=g)
    ctx.floor(5)
