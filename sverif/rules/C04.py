"""C04 — dictionary lookup returns exactly the entries that prefix-match the text."""
from ..engine import rule
from ..db import (walk, peel, peel_casts, render, callee, path_ends, short_path, is_call, call_args, lit_int,
                  exit_kind, path_conditions, atoms, AnchorMissing, local_name)
from ..guards import guarded_exits, mentions, is_call_to, cmp_atom
from ..origins import origins, for_loop_parts, pat_bindings, index as oindex
from .C11 import _array_sig
from .C02 import _chain, _loops

META = {
    "explanation": (
        "(indexed-only) the index builder receives an entry only under RawLexiconEntry::should_index(), which is left_id>=0; "
        "(id-is-position) the id given to the index is the enumerate() position over LexiconReader::entries(), and the "
        "params/word-info writers iterate that same slice in order with no reordering adaptor; (record-format) the word-id "
        "table record written by write_u32_array (1-byte count, 4-byte LE items) is read with the same widths by all of its "
        "readers, and the trie value is the offset recorded before the record is written; (dic-id) LexiconSet::append stamps "
        "a lexicon with the number of lexicons present before the push, after the is_full() rejection, and Lexicon::lookup "
        "stamps every yielded id with the lexicon's own number; (all-layers) LexiconSet::lookup visits every lexicon and "
        "every trie hit (adaptor chains contain no filter/take/skip); (exact) exact-surface lookup keeps only entries whose "
        "end equals the query length. NOT decided: correctness of the double-array traversal and of yada's builder; "
        "'each exactly once' for arbitrary key sets."),
    "decided": ["indexed-only", "id-is-position", "record-format", "dic-id", "all-layers", "exact"],
    "not_decided": ["double-array traversal / yada builder correctness", "exactly-once for arbitrary key sets"],
}

REORDER = {"filter", "filter_map", "rev", "skip", "take", "step_by", "skip_while", "take_while", "dedup", "sorted", "sort", "chain", "zip"}


@rule("C04.indexed-only", "IndexBuilder::add is called only under RawLexiconEntry::should_index(), which is `left_id >= 0`")
def indexed_only(db, ctx):
    f = db.one("write_index", "DictBuilder")
    adds = [(c, ps) for c, ps in walk(f.hir) if is_call(c) and path_ends(callee(c), "IndexBuilder::add")]
    if not adds:
        raise AnchorMissing("write_index: IndexBuilder::add call")
    from ..loops import chain as lchain, filter_atoms
    is_si = lambda a, p: peel(a).get("k") == "MethodCall" and peel(a).get("method") == "should_index" and p is True
    for c, ps in adds:
        pcs = path_conditions(c["id"], f.hir) or []
        ok = any(is_si(a, p) for cn, pol in pcs if isinstance(cn, dict) for a, p in atoms(cn, pol))
        # the same condition stated as a `.filter(|(_, e)| e.should_index())` on the loop's iterator
        for p_ in ps:
            fl = for_loop_parts(p_) if p_.get("k") == "Match" else None
            if fl:
                for m, call in lchain(db, f, fl[0])[0]:
                    if m == "filter" and any(is_si(a, p) for a, p in (filter_atoms(call) or [])):
                        ok = True
        ctx.ob("write_index|add-under-should_index", ok, "IndexBuilder::add is control-dependent on e.should_index(): %s" % ok, fn=f, site=c.get("sp"))
    si = db.one("should_index", "RawLexiconEntry")
    body = peel(si.hir.get("expr") or si.hir)
    c = cmp_atom(body)
    ok = bool(c) and c[0] == "Ge" and peel(c[1]).get("name") == "left_id" and lit_int(c[2]) == 0
    ctx.ob("should_index|left_id>=0", ok, "should_index() is `%s` (must be self.left_id >= 0)" % render(body), fn=si)


@rule("C04.id-is-position", "the word id handed to the index is the enumerate() position over LexiconReader::entries(); the "
                            "params and word-info writers iterate the same slice without reordering adaptors")
def id_is_position(db, ctx):
    f = db.one("write_index", "DictBuilder")
    from ..loops import chain as lchain, filter_atoms
    for n, (it, pat, body), ps in _loops(f):
        if not mentions(body, is_call_to("IndexBuilder::add")):
            continue
        ch, base = lchain(db, f, it)
        names = [m for m, _ in ch]
        src_ok = "entries" in names or mentions(it, is_call_to("LexiconReader::entries"))
        # positions are fixed where enumerate() is applied: nothing may drop / reorder elements before it; after it only a filter
        # on should_index() (the indexed-only condition itself) may drop elements
        ei = names.index("enumerate") if "enumerate" in names else -1
        after_ok = all(m == "filter" and filter_atoms(c_) is not None and all(
            peel(a).get("k") == "MethodCall" and peel(a).get("method") == "should_index" and p for a, p in filter_atoms(c_)) for m, c_ in ch[ei + 1:])
        chain_ok = ei >= 0 and not (set(names[:ei]) & REORDER) and after_ok
        ctx.ob("write_index|loop", src_ok and chain_ok, "index loop iterates `%s` (must be entries().iter().enumerate() with no reordering "
                                                        "adaptor)" % render(it), fn=f, site=n.get("sp"))
        pb = pat_bindings(pat)
        idx_lid = pb[0][0] if pb else None
        for c, _ in walk(body):
            if is_call(c) and path_ends(callee(c), ("WordId::checked", "WordId::new")):
                a = call_args(c)
                ok = peel_casts(a[1]).get("lid") == idx_lid and lit_int(a[0]) == 0
                ctx.ob("write_index|wid=position", ok, "word id is built as `%s` (must be dictionary 0, enumerate position)" % render(c), fn=f, site=c.get("sp"))
    w = db.one("write", "LexiconWriter")
    loops = list(_loops(w))
    n_ok = 0
    for n, (it, pat, body), ps in loops:
        names, base = _chain(it)
        b = peel(base)
        plain = (b.get("k") == "Field" and b.get("name") == "entries") and not (set(names) & REORDER)
        n_ok += 1 if plain else 0
        ctx.ob("LexiconWriter::write|loop#%d" % n_ok, plain, "writer loop iterates `%s` (must be self.entries in order)" % render(it), fn=w, site=n.get("sp"))
    ctx.ob("LexiconWriter::write|two-passes", len(loops) == 2 and mentions(loops[0][1][2], is_call_to("write_params")) and mentions(loops[1][1][2], is_call_to("write_word_info")),
           "LexiconWriter::write has a params pass then a word-info pass over the same slice: %d loops" % len(loops), fn=w)
    wl = db.one("write_lexicon", "DictBuilder")
    ok = mentions(wl.hir, is_call_to("LexiconReader::entries"))
    ctx.ob("write_lexicon|same-slice", ok, "LexiconWriter is constructed over self.lexicon.entries(): %s" % ok, fn=wl)
    ctx.floor(5)


@rule("C04.record-format", "write_u32_array (1-byte count, 4-byte LE items) agrees with u32_array_parser, u32_wid_array_parser, "
                           "skip_wid_array, skip_u32_array and WordIdTable::entries/WordIdIter::next; the trie value is the offset "
                           "recorded before the record is written")
def record_format(db, ctx):
    w = db.one("write_u32_array", None)
    cnt_w = item_w = None
    for c, _ in walk(w.hir):
        if c.get("k") == "MethodCall" and c.get("method") == "write_all":
            a = peel(c["args"][0])
            if a.get("k") == "Array" and len(a["elems"]) == 1 and peel(a["elems"][0]).get("k") == "Cast":
                cnt_w = {"u8": 1, "u16": 2, "u32": 4}.get(peel(a["elems"][0]).get("ty"))
            if a.get("k") == "MethodCall" and a.get("method") == "to_le_bytes":
                item_w = {"u8": 1, "u16": 2, "u32": 4, "u64": 8}.get((a["recv"].get("ty") or "").lstrip("&"))
    ctx.ob("write_u32_array|widths", cnt_w == 1 and item_w == 4, "write_u32_array writes a %s-byte count and %s-byte items" % (cnt_w, item_w), fn=w)
    for nm in ("u32_array_parser", "u32_wid_array_parser", "skip_wid_array", "skip_u32_array"):
        f, pfx, wd = _array_sig(db, nm)
        ctx.ob("%s|widths" % nm, pfx == "le_u8" and wd == item_w, "%s: count via %s, item width %s (writer: 1, %s)" % (nm, pfx, wd, item_w), fn=f)
    e = db.one("entries", "WordIdTable")
    s = render(e.hir)
    cnt_read_u8 = any(c.get("k") == "MethodCall" and c.get("method") == "read" and "*const u8" in (c.get("rty") or "") for c, _ in walk(e.hir))
    as_u32 = any(n.get("k") == "Cast" and n.get("ty") == "*const u32" for n, _ in walk(e.hir))
    off1 = any(c.get("k") == "MethodCall" and c.get("method") == "offset" and lit_int(c["args"][0]) == 1 and "*const u8" in (c.get("rty") or "") for c, _ in walk(e.hir))
    ctx.ob("WordIdTable::entries|widths", cnt_read_u8 and as_u32 and off1,
           "WordIdTable::entries reads a u8 count (%s), skips 1 byte (%s) and views the rest as *const u32 (%s)" % (cnt_read_u8, off1, as_u32), fn=e)
    it = db.impls_of("Iterator::next")
    it = [f for f in it if "WordIdIter" in f.key]
    if it:
        f = it[0]
        ru = any(c.get("k") == "MethodCall" and c.get("method") == "read_unaligned" and "u32" in (c.get("rty") or "") for c, _ in walk(f.hir))
        adv = any(c.get("k") == "MethodCall" and c.get("method") == "offset" and lit_int(c["args"][0]) == 1 for c, _ in walk(f.hir))
        ctx.ob("WordIdIter::next|u32-step", ru and adv, "WordIdIter::next reads an unaligned u32 (%s) and advances by one element (%s)" % (ru, adv), fn=f)
    # offset recorded before the write
    b = db.one("build_word_id_table", "IndexBuilder")
    for n, (itx, pat, body), ps in _loops(b):
        stmts = body.get("stmts", [])
        i_off = i_wr = None
        for i, st in enumerate(stmts):
            e2 = st.get("e") or st.get("init") or {}
            if e2.get("k") == "Assign" and peel(e2["l"]).get("name") == "offset" and "len" in render(e2["r"]):
                i_off = i
            if mentions(e2, is_call_to("write_u32_array")) and i_wr is None:
                i_wr = i
        ctx.ob("build_word_id_table|offset-before-write", i_off is not None and i_wr is not None and i_off < i_wr,
               "entry.offset := result.len() at statement %s, write_u32_array at statement %s (offset must be taken first)" % (i_off, i_wr), fn=b)
    bt = db.one("build_trie", "IndexBuilder")
    ok = any(c.get("k") == "MethodCall" and c.get("method") == "push" and "offset" in render(c["args"][0]) for c, _ in walk(bt.hir))
    ctx.ob("build_trie|value=offset", ok, "trie entries are (key, entry.offset): %s" % ok, fn=bt)
    lk = db.one("lookup", "Lexicon")
    ok = any(is_call(c) and path_ends(callee(c), "WordIdTable::entries") and "value" in render(c) for c, _ in walk(lk.hir))
    ctx.ob("Lexicon::lookup|entries(trie value)", ok, "Lexicon::lookup passes the trie value to WordIdTable::entries: %s" % ok, fn=lk)
    ctx.floor(9)


@rule("C04.dic-id", "LexiconSet::append stamps the new lexicon with lexicons.len() taken before the push, after the is_full() "
                    "rejection; Lexicon::lookup stamps each id with self.lex_id")
def dic_id(db, ctx):
    f = db.one("append", "LexiconSet")
    stmts = f.hir.get("stmts", [])
    i_full = i_set = i_push = None
    set_arg = None
    len_taken_at = None
    for i, st in enumerate(stmts):
        if st.get("k") == "Let" and "init" in st and "lexicons.len()" in render(st["init"]) and len_taken_at is None:
            len_taken_at = (i, st["pat"].get("name"))
        e = st.get("e") or st.get("init") or {}
        if e.get("k") == "If" and mentions(e["cond"], is_call_to("is_full")) and exit_kind(e["then"]) == "err":
            i_full = i
        for c, _ in walk(e):
            if is_call(c) and path_ends(callee(c), "Lexicon::set_dic_id") and i_set is None:
                i_set = i
                set_arg = render(call_args(c)[1])
            if c.get("k") == "MethodCall" and c.get("method") == "push" and peel(c["recv"]).get("name") == "lexicons" and i_push is None:
                i_push = i
    direct = "lexicons.len()" in (set_arg or "")
    via_let = len_taken_at is not None and len_taken_at[1] is not None and len_taken_at[1] == (set_arg or "").replace(" as u8", "") and i_push is not None and len_taken_at[0] < i_push
    ok = None not in (i_full, i_set, i_push) and i_full < i_push and i_full < i_set and ((direct and i_set < i_push) or via_let)
    ctx.ob("append|order", ok, "append: is_full rejection at %s, set_dic_id(%s) at %s, push at %s (must be in this order; the id is the "
                               "length before the push)" % (i_full, set_arg, i_set, i_push), fn=f)
    lk = db.one("lookup", "Lexicon")
    ok = any(is_call(c) and path_ends(callee(c), "Lexicon::word_id") for c, _ in walk(lk.hir))
    wi = db.one("word_id", "Lexicon")
    stamp = any(is_call(c) and path_ends(callee(c), "WordId::new") and peel(call_args(c)[0]).get("name") == "lex_id" for c, _ in walk(wi.hir))
    ctx.ob("Lexicon::lookup|stamps-lex_id", ok and stamp, "every yielded id goes through self.word_id(raw) = WordId::new(self.lex_id, raw): %s/%s" % (ok, stamp), fn=lk)


@rule("C04.all-layers", "LexiconSet::lookup visits every lexicon and Lexicon::lookup every trie hit: adaptor chains are within the "
                        "allowed sets (no filter/take/skip)")
def all_layers(db, ctx):
    f = db.one("lookup", "LexiconSet")
    body = peel(f.hir.get("expr") or f.hir)
    names, base = _chain(body)
    ok = set(names) <= {"iter", "rev", "flat_map"} and "flat_map" in names and peel(base).get("name") == "lexicons"
    ctx.ob("LexiconSet::lookup|chain", ok, "LexiconSet::lookup = self.lexicons.%s (allowed: iter, rev, flat_map)" % ".".join(names), fn=f)
    g = db.one("lookup", "Lexicon")
    body = peel(g.hir.get("expr") or g.hir)
    names, base = _chain(body)
    ok = set(names) <= {"common_prefix_iterator", "flat_map", "map"} and "common_prefix_iterator" in names
    ctx.ob("Lexicon::lookup|chain", ok, "Lexicon::lookup = self.trie.%s (allowed: common_prefix_iterator, flat_map, map)" % ".".join(names), fn=g)
    inner = []
    for n, _ in walk(g.hir):
        if n.get("k") == "Closure":
            nm, b = _chain(n["body"])
            inner.append(nm)
    ok = all(set(x) <= {"entries", "map"} for x in inner if x)
    ctx.ob("Lexicon::lookup|inner-chain", ok, "closures inside Lexicon::lookup use %s (allowed: entries, map)" % inner, fn=g)


@rule("C04.exact", "MorphemeList::lookup keeps only entries whose end equals the query length")
def exact(db, ctx):
    f = db.one("lookup", "MorphemeList")
    ok = False
    for n, ps in walk(f.hir):
        if n.get("k") == "If" and exit_kind(n["then"]) == "continue":
            c = cmp_atom(n["cond"])
            if c and c[0] == "Ne" and "end" in render(c[1]) + render(c[2]) and "query.len()" in render(c[1]) + render(c[2]):
                ok = True
    ctx.ob("MorphemeList::lookup|end==len", ok, "entries with entry.end != query.len() are skipped: %s" % ok, fn=f)
