"""C04 — dictionary lookup returns exactly the entries that prefix-match the text."""
from ..engine import rule
from ..db import (walk, peel, peel_casts, render, callee, path_ends, short_path, is_call, call_args, lit_int,
                  exit_kind, path_conditions, atoms, AnchorMissing, local_name)
from ..guards import guarded_exits, mentions, is_call_to, cmp_atom
from ..origins import origins, for_loop_parts, pat_bindings, index as oindex
from .C11 import _array_sig
from .C02 import _chain, _loops

META = {
    "explanation": (
        "(indexed-only) the index builder receives an entry only under RawLexiconEntry::should_index(), which is left_id>=0; "
        "(id-is-position) the id given to the index is the enumerate() position over LexiconReader::entries(), and the "
        "params/word-info writers iterate that same slice in order with no reordering adaptor; (record-format) the word-id "
        "table record written by write_u32_array (1-byte count, 4-byte LE items) is read with the same widths by all of its "
        "readers, and the trie value is the offset recorded before the record is written; (dic-id) LexiconSet::append stamps "
        "a lexicon with the number of lexicons present before the push, after the is_full() rejection, and Lexicon::lookup "
        "stamps every yielded id with the lexicon's own number; (all-layers) LexiconSet::lookup visits every lexicon and "
        "every trie hit (adaptor chains contain no filter/take/skip); (exact) exact-surface lookup keeps only entries whose "
        "end equals the query length. NOT decided: correctness of the double-array traversal and of yada's builder; "
        "'each exactly once' for arbitrary key sets."),
    "decided": ["indexed-only", "id-is-position", "record-format", "dic-id", "all-layers", "exact", "trie-unit-format"],
    "not_decided": ["double-array traversal / yada builder correctness", "exactly-once for arbitrary key sets"],
}

REORDER = {"filter", "filter_map", "rev", "skip", "take", "step_by", "skip_while", "take_while", "dedup", "sorted", "sort", "chain", "zip"}


@rule("C04.indexed-only", "IndexBuilder::add is called only under RawLexiconEntry::should_index(), which is `left_id >= 0`")
def indexed_only(db, ctx):
    f = db.view(db.one("write_index", "DictBuilder"))
    adds = [(c, ps) for c, ps in walk(f.hir) if is_call(c) and path_ends(callee(c), "IndexBuilder::add")]
    if not adds:
        raise AnchorMissing("write_index: IndexBuilder::add call")
    from ..loops import chain as lchain, filter_atoms
    is_si = lambda a, p: peel(a).get("k") == "MethodCall" and peel(a).get("method") == "should_index" and p is True
    for c, ps in adds:
        pcs = path_conditions(c["id"], f.hir) or []
        ok = any(is_si(a, p) for cn, pol in pcs if isinstance(cn, dict) for a, p in atoms(cn, pol))
        # the same condition stated as a `.filter(|(_, e)| e.should_index())` on the loop's iterator
        for p_ in ps:
            fl = for_loop_parts(p_) if p_.get("k") == "Match" else None
            if fl:
                for m, call in lchain(db, f, fl[0])[0]:
                    if m == "filter" and any(is_si(a, p) for a, p in (filter_atoms(call) or [])):
                        ok = True
        ctx.ob("write_index|add-under-should_index", ok, "IndexBuilder::add is control-dependent on e.should_index(): %s" % ok, fn=f, site=c.get("sp"))
    si = db.one("should_index", "RawLexiconEntry")
    body = peel(si.hir.get("expr") or si.hir)
    c = cmp_atom(body)
    ok = bool(c) and c[0] == "Ge" and peel(c[1]).get("name") == "left_id" and lit_int(c[2]) == 0
    ctx.ob("should_index|left_id>=0", ok, "should_index() is `%s` (must be self.left_id >= 0)" % render(body), fn=si)


@rule("C04.id-is-position", "the word id handed to the index is the enumerate() position over LexiconReader::entries(); the "
                            "params and word-info writers iterate the same slice without reordering adaptors")
def id_is_position(db, ctx):
    f = db.view(db.one("write_index", "DictBuilder"))
    from ..loops import chain as lchain, filter_atoms, iterations
    for itn in iterations(f.hir):
        n, it, pat, body = itn["node"], itn["it"], itn["pat"], itn["body"]
        if isinstance(pat, list):      # closure form: the element is the first closure parameter
            pat = pat[0] if pat else {}
        if not mentions(body, is_call_to("IndexBuilder::add")):
            continue
        ch, base = lchain(db, f, it)
        names = [m for m, _ in ch]
        src_ok = "entries" in names or mentions(it, is_call_to("LexiconReader::entries"))
        # positions are fixed where enumerate() is applied: nothing may drop / reorder elements before it; after it only a filter
        # on should_index() (the indexed-only condition itself) may drop elements
        ei = names.index("enumerate") if "enumerate" in names else -1
        after_ok = all(m == "filter" and filter_atoms(c_) is not None and all(
            peel(a).get("k") == "MethodCall" and peel(a).get("method") == "should_index" and p for a, p in filter_atoms(c_)) for m, c_ in ch[ei + 1:])
        chain_ok = ei >= 0 and not (set(names[:ei]) & REORDER) and after_ok
        ctx.ob("write_index|loop", src_ok and chain_ok, "index loop iterates `%s` (must be entries().iter().enumerate() with no reordering "
                                                        "adaptor)" % render(it), fn=f, site=n.get("sp"))
        pb = pat_bindings(pat)
        idx_lid = pb[0][0] if pb else None
        for c, _ in walk(body):
            if is_call(c) and path_ends(callee(c), ("WordId::checked", "WordId::new")):
                a = call_args(c)
                ok = peel_casts(a[1]).get("lid") == idx_lid and lit_int(a[0]) == 0
                ctx.ob("write_index|wid=position", ok, "word id is built as `%s` (must be dictionary 0, enumerate position)" % render(c), fn=f, site=c.get("sp"))
    w = db.view(db.one("write", "LexiconWriter"))
    from ..inline import nf
    its = [i_ for i_ in iterations(w.hir) if mentions(i_["body"], is_call_to("write_params")) or mentions(i_["body"], is_call_to("write_word_info"))]
    n_ok = 0
    for i_ in its:
        ch, base = lchain(db, w, i_["it"])
        names = [m for m, _ in ch]
        plain = nf(base) == "self.entries" and not (set(names) & REORDER)
        n_ok += 1 if plain else 0
        ctx.ob("LexiconWriter::write|loop#%d" % n_ok, plain, "writer loop iterates `%s` (must be self.entries in order)" % render(i_["it"]), fn=w, site=i_["node"].get("sp"))
    ctx.ob("LexiconWriter::write|two-passes", len(its) == 2 and mentions(its[0]["body"], is_call_to("write_params")) and mentions(its[1]["body"], is_call_to("write_word_info")),
           "LexiconWriter::write has a params pass then a word-info pass over the same slice: %d passes" % len(its), fn=w)
    wl = db.one("write_lexicon", "DictBuilder")
    ok = mentions(wl.hir, is_call_to("LexiconReader::entries"))
    ctx.ob("write_lexicon|same-slice", ok, "LexiconWriter is constructed over self.lexicon.entries(): %s" % ok, fn=wl)
    ctx.floor(5)


@rule("C04.record-format", "write_u32_array (1-byte count, 4-byte LE items) agrees with u32_array_parser, u32_wid_array_parser, "
                           "skip_wid_array, skip_u32_array and WordIdTable::entries/WordIdIter::next; the trie value is the offset "
                           "recorded before the record is written")
def record_format(db, ctx):
    w = db.one("write_u32_array", None)
    cnt_w = item_w = None
    for c, _ in walk(w.hir):
        if c.get("k") == "MethodCall" and c.get("method") == "write_all":
            a = peel(c["args"][0])
            if a.get("k") == "Array" and len(a["elems"]) == 1 and peel(a["elems"][0]).get("k") == "Cast":
                cnt_w = {"u8": 1, "u16": 2, "u32": 4}.get(peel(a["elems"][0]).get("ty"))
            if a.get("k") == "MethodCall" and a.get("method") == "to_le_bytes":
                item_w = {"u8": 1, "u16": 2, "u32": 4, "u64": 8}.get((a["recv"].get("ty") or "").lstrip("&"))
    ctx.ob("write_u32_array|widths", cnt_w == 1 and item_w == 4, "write_u32_array writes a %s-byte count and %s-byte items" % (cnt_w, item_w), fn=w)
    for nm in ("u32_array_parser", "u32_wid_array_parser", "skip_wid_array", "skip_u32_array"):
        f, pfx, wd = _array_sig(db, nm)
        ctx.ob("%s|widths" % nm, pfx == "le_u8" and wd == item_w, "%s: count via %s, item width %s (writer: 1, %s)" % (nm, pfx, wd, item_w), fn=f)
    e = db.one("entries", "WordIdTable")
    s = render(e.hir)
    cnt_read_u8 = any(c.get("k") == "MethodCall" and c.get("method") == "read" and "*const u8" in (c.get("rty") or "") for c, _ in walk(e.hir))
    as_u32 = any(n.get("k") == "Cast" and n.get("ty") == "*const u32" for n, _ in walk(e.hir))
    off1 = any(c.get("k") == "MethodCall" and c.get("method") == "offset" and lit_int(c["args"][0]) == 1 and "*const u8" in (c.get("rty") or "") for c, _ in walk(e.hir))
    ctx.ob("WordIdTable::entries|widths", cnt_read_u8 and as_u32 and off1,
           "WordIdTable::entries reads a u8 count (%s), skips 1 byte (%s) and views the rest as *const u32 (%s)" % (cnt_read_u8, off1, as_u32), fn=e)
    it = db.impls_of("Iterator::next")
    it = [f for f in it if "WordIdIter" in f.key]
    if it:
        f = it[0]
        ru = any(c.get("k") == "MethodCall" and c.get("method") == "read_unaligned" and "u32" in (c.get("rty") or "") for c, _ in walk(f.hir))
        adv = any(c.get("k") == "MethodCall" and c.get("method") == "offset" and lit_int(c["args"][0]) == 1 for c, _ in walk(f.hir))
        ctx.ob("WordIdIter::next|u32-step", ru and adv, "WordIdIter::next reads an unaligned u32 (%s) and advances by one element (%s)" % (ru, adv), fn=f)
    # offset recorded before the write
    b = db.view(db.one("build_word_id_table", "IndexBuilder"))
    from ..loops import iterations
    from ..guards import mentions as _m
    for itn in iterations(b.hir):
        body = peel(itn["body"])
        if not _m(body, is_call_to("write_u32_array")):
            continue
        stmts = list(body.get("stmts", [])) + ([{"k": "Expr", "e": body["expr"]}] if "expr" in body else [])
        i_off = i_wr = None
        for i, st in enumerate(stmts):
            e2 = st.get("e") or st.get("init") or {}
            if e2.get("k") == "Assign" and peel(e2["l"]).get("k") == "Field" and peel(e2["l"]).get("name") == "offset" and \
                    peel(e2["r"]).get("k") == "MethodCall" and peel(e2["r"]).get("method") == "len":
                i_off = i
            if _m(e2, is_call_to("write_u32_array")) and i_wr is None:
                i_wr = i
        ctx.ob("build_word_id_table|offset-before-write", i_off is not None and i_wr is not None and i_off < i_wr,
               "entry.offset := result.len() at statement %s, write_u32_array at statement %s (offset must be taken first)" % (i_off, i_wr), fn=b)
    bt = db.view(db.one("build_trie", "IndexBuilder"))
    from ..db import walk_x
    ok = any(c.get("k") == "MethodCall" and c.get("method") == "push" and c["args"]
             and any(x.get("k") == "Field" and x.get("name") == "offset" and (x.get("adt") or "").endswith("IndexEntry") for x, _ in walk_x(c["args"][0]))
             for c, _ in walk(bt.hir))
    ctx.ob("build_trie|value=offset", ok, "trie entries are (key, entry.offset): %s" % ok, fn=bt)
    lk = db.one("lookup", "Lexicon")
    ok = any(is_call(c) and path_ends(callee(c), "WordIdTable::entries") and "value" in render(c) for c, _ in walk(lk.hir))
    ctx.ob("Lexicon::lookup|entries(trie value)", ok, "Lexicon::lookup passes the trie value to WordIdTable::entries: %s" % ok, fn=lk)
    ctx.floor(9)


@rule("C04.dic-id", "LexiconSet::append stamps the new lexicon with lexicons.len() taken before the push, after the is_full() "
                    "rejection; Lexicon::lookup stamps each id with self.lex_id")
def dic_id(db, ctx):
    f = db.one("append", "LexiconSet")
    stmts = f.hir.get("stmts", [])
    i_full = i_set = i_push = None
    set_arg = None
    len_taken_at = None
    for i, st in enumerate(stmts):
        if st.get("k") == "Let" and "init" in st and "lexicons.len()" in render(st["init"]) and len_taken_at is None:
            len_taken_at = (i, st["pat"].get("name"))
        e = st.get("e") or st.get("init") or {}
        if e.get("k") == "If" and mentions(e["cond"], is_call_to("is_full")) and exit_kind(e["then"]) == "err":
            i_full = i
        for c, _ in walk(e):
            if is_call(c) and path_ends(callee(c), "Lexicon::set_dic_id") and i_set is None:
                i_set = i
                set_arg = render(call_args(c)[1])
            if c.get("k") == "MethodCall" and c.get("method") == "push" and peel(c["recv"]).get("name") == "lexicons" and i_push is None:
                i_push = i
    direct = "lexicons.len()" in (set_arg or "")
    via_let = len_taken_at is not None and len_taken_at[1] is not None and len_taken_at[1] == (set_arg or "").replace(" as u8", "") and i_push is not None and len_taken_at[0] < i_push
    ok = None not in (i_full, i_set, i_push) and i_full < i_push and i_full < i_set and ((direct and i_set < i_push) or via_let)
    ctx.ob("append|order", ok, "append: is_full rejection at %s, set_dic_id(%s) at %s, push at %s (must be in this order; the id is the "
                               "length before the push)" % (i_full, set_arg, i_set, i_push), fn=f)
    lk = db.one("lookup", "Lexicon")
    ok = any(is_call(c) and path_ends(callee(c), "Lexicon::word_id") for c, _ in walk(lk.hir))
    wi = db.one("word_id", "Lexicon")
    stamp = any(is_call(c) and path_ends(callee(c), "WordId::new") and peel(call_args(c)[0]).get("name") == "lex_id" for c, _ in walk(wi.hir))
    ctx.ob("Lexicon::lookup|stamps-lex_id", ok and stamp, "every yielded id goes through self.word_id(raw) = WordId::new(self.lex_id, raw): %s/%s" % (ok, stamp), fn=lk)


@rule("C04.all-layers", "LexiconSet::lookup visits every lexicon and Lexicon::lookup every trie hit: adaptor chains are within the "
                        "allowed sets (no filter/take/skip)")
def all_layers(db, ctx):
    f = db.one("lookup", "LexiconSet")
    body = peel(f.hir.get("expr") or f.hir)
    names, base = _chain(body)
    ok = set(names) <= {"iter", "rev", "flat_map"} and "flat_map" in names and peel(base).get("name") == "lexicons"
    ctx.ob("LexiconSet::lookup|chain", ok, "LexiconSet::lookup = self.lexicons.%s (allowed: iter, rev, flat_map)" % ".".join(names), fn=f)
    g = db.one("lookup", "Lexicon")
    body = peel(g.hir.get("expr") or g.hir)
    names, base = _chain(body)
    ok = set(names) <= {"common_prefix_iterator", "flat_map", "map"} and "common_prefix_iterator" in names
    ctx.ob("Lexicon::lookup|chain", ok, "Lexicon::lookup = self.trie.%s (allowed: common_prefix_iterator, flat_map, map)" % ".".join(names), fn=g)
    inner = []
    for n, _ in walk(g.hir):
        if n.get("k") == "Closure":
            nm, b = _chain(n["body"])
            inner.append(nm)
    ok = all(set(x) <= {"entries", "map"} for x in inner if x)
    ctx.ob("Lexicon::lookup|inner-chain", ok, "closures inside Lexicon::lookup use %s (allowed: entries, map)" % inner, fn=g)


@rule("C04.exact", "MorphemeList::lookup keeps only entries whose end equals the query length")
def exact(db, ctx):
    # by reachability: the push of a result node is reachable when the looked-up entry ends exactly at the end of the query, and is
    # not reachable when it ends elsewhere — `if end != len {continue}`, `if end == len {push}`, `.filter(|e| e.end == len)` alike
    from ..loops import iterations, chain, filter_atoms
    from ..flow import holds_at
    from ..db import is_local, deref_all
    f = db.view(db.one("lookup", "MorphemeList"))
    q_lid = next((p_.get("lid") for p_ in (f.info.get("params") or []) if isinstance(p_, dict) and (p_.get("ty") or "") == "&str"), None)

    def is_qlen(e):
        d = peel_casts(deref_all(e)) if isinstance(e, dict) else None
        while isinstance(d, dict) and d.get("k") == "MethodCall" and d.get("method") in ("len", "as_bytes"):
            if d["method"] == "len":
                r = peel(deref_all(d["recv"]))
                while isinstance(r, dict) and r.get("k") == "MethodCall" and r.get("method") == "as_bytes":
                    r = peel(deref_all(r["recv"]))
                return is_local(r, q_lid)
            d = peel(d["recv"])
        return False

    def is_end(e):
        d = peel_casts(deref_all(e)) if isinstance(e, dict) else None
        return isinstance(d, dict) and d.get("k") == "Field" and d.get("name") == "end"

    def ev_eq(equal):
        def ev(atom):
            c = cmp_atom(atom)
            if c and c[0] in ("Eq", "Ne") and ((is_end(c[1]) and is_qlen(c[2])) or (is_end(c[2]) and is_qlen(c[1]))):
                return equal if c[0] == "Eq" else (not equal)
            return None
        return ev
    ok = False
    sites = 0
    for itn in iterations(f.hir):
        names, base = chain(db, f, itn["it"])
        if not any(is_call(c_) and path_ends(callee(c_) or "", ("LexiconSet::lookup", "Lexicon::lookup")) for _, c_ in names):
            continue
        extra = []
        for m, call in names:
            if m == "filter":
                extra += filter_atoms(call) or []
        for c, _ in walk(itn["body"]):
            if c.get("k") == "MethodCall" and c.get("method") == "push" and mentions(c, is_call_to("ResultNode::new")):
                sites += 1
                pcs = (path_conditions(c["id"], itn["body"]) or []) + extra
                ok = holds_at(pcs, ev_eq(False)) is False and holds_at(pcs, ev_eq(True)) is not False
    if not sites:
        raise AnchorMissing("MorphemeList::lookup: push of the result node inside the look-up loop")
    ctx.ob("MorphemeList::lookup|end==len", ok, "entries with entry.end != query.len() are skipped: %s" % ok, fn=f)


@rule("C04.trie-unit-format", "the double-array unit accessors of the reader (label / has_leaf / value / offset) implement the 32-bit unit layout the "
                              "index is written in (yada 0.5 `Unit`: LABEL bits 0-7, HAS_LEAF bit 8, EXTEND bit 9, OFFSET bits 10-30, IS_LEAF bit 31; leaf: "
                              "VALUE bits 0-30) — constant folding of each accessor at probe units (every single bit, every bit with bit 9 / bit 31, 256 mixed words)")
def trie_unit_format(db, ctx):
    from ..flow import pure_eval
    ref = {
        "label": lambda u: u & ((1 << 31) | 0xFF),       # a leaf unit never compares equal to a text byte
        "has_leaf": lambda u: ((u >> 8) & 1) == 1,
        "value": lambda u: u & 0x7FFFFFFF,
        "offset": lambda u: ((u >> 10) << ((u & (1 << 9)) >> 6)),
    }
    probes = [0, 0xFFFFFFFF, 0x7FFFFFFF, 0x80000000, 0xFF, 0x100, 0x200, 0x3FF, 0x400]
    for b in range(32):
        probes += [1 << b, (1 << b) | (1 << 9), (1 << b) | (1 << 31), (1 << b) | 0x61, (1 << b) | (1 << 31) | 0x61, (1 << b) | (1 << 8)]
    x = 0x2545F491
    for _ in range(256):
        x = (x * 1103515245 + 12345) & 0xFFFFFFFF
        probes.append(x)
    for nm, rf in ref.items():
        f = db.one(nm, "Trie")
        bad = []
        unknown = False
        for u in probes:
            got = pure_eval(db, f, [u])
            if got is None:
                unknown = True
                break
            want = rf(u)
            if isinstance(want, int) and not isinstance(want, bool):
                want &= (1 << 64) - 1
            if got != want:
                bad.append((hex(u), got, want))
        ctx.ob("Trie::%s|unit-layout" % nm, not unknown and not bad,
               "Trie::%s %s" % (nm, "is not a pure bit expression the folder understands (fail-closed)" if unknown else
                                ("agrees with the unit layout on %d probe units" % len(probes) if not bad else
                                 "differs from the unit layout, e.g. unit %s -> %s, layout says %s (%d of %d probes): a leaf unit whose low byte equals the "
                                 "next text byte would be followed as a transition / a wrong child is visited" % (bad[0][0], bad[0][1], bad[0][2], len(bad), len(probes)))),
               fn=f)
    ctx.floor(4)


@rule("C04.homographs-accumulate", "IndexBuilder::add appends the id to the entry of its key wherever earlier ids of that key came from: the entry is "
                                   "obtained through entry(key) (or get_mut with an insert only for a missing key); a plain insert(key, ..) replaces the "
                                   "ids collected so far when the same surface appears in non-adjacent rows")
def homographs_accumulate(db, ctx):
    f = db.view(db.one("add", "IndexBuilder"))
    pushes = [c for c, _ in walk(f.hir) if c.get("k") == "MethodCall" and c.get("method") == "push"]
    via_entry = any(c.get("k") == "MethodCall" and c.get("method") == "entry" for c, _ in walk(f.hir))
    inserts = [(c, ps) for c, ps in walk(f.hir) if c.get("k") == "MethodCall" and c.get("method") in ("insert", "insert_full", "insert_sorted") and "IndexMap" in (c.get("rty") or "")]
    bad = []
    for c, ps in inserts:
        # an insert is fine only where the key is known to be absent: under a `get`/`get_mut`/`contains_key` miss for this key
        pcs = path_conditions(c["id"], f.hir) or []
        absent = False
        for cn, pol in pcs:
            if isinstance(cn, tuple) and cn[0] == "arm":
                pk = ((cn[2] or {}).get("path") or ((cn[2] or {}).get("e") or {}).get("path") or "")
                if pk.endswith("None") and mentions(cn[1], lambda x: x.get("k") == "MethodCall" and x.get("method") in ("get", "get_mut", "get_full_mut", "get_index_of")):
                    absent = True
            elif isinstance(cn, dict):
                for a, p in atoms(cn, pol):
                    pa = peel(a)
                    if pa.get("k") == "MethodCall" and pa.get("method") == "contains_key" and p is False:
                        absent = True
        if not absent:
            bad.append(render(c)[:60])
    ctx.ob("IndexBuilder::add|accumulates", bool(pushes) and (via_entry or bool(inserts)) and not bad,
           "IndexBuilder::add pushes the id into the key's entry (entry API used: %s); overwriting inserts not guarded by a lookup miss of the key: %s" % (via_entry, bad), fn=f)


@rule("C04.reader-count-limit", "every count the compiler can write into a word-id table record (write_u32_array: up to 127 items) is accepted by the "
                                "reader: a rejecting comparison on the record's count in WordIdTable::entries does not fire at 127")
def reader_count_limit(db, ctx):
    from ..flow import var_evaluator, holds_at
    from ..db import deref_all
    w = db.one("write_u32_array", None)
    limit = None
    for ifn, cond, pol, ek, ps in guarded_exits(w.hir):
        c = cmp_atom(cond)
        if c and ek == "err" and any(lit_int(x) is not None or (peel_casts(x).get("val") is not None) for x in (c[1], c[2])):
            for cand in (127, 128, 255, 256):
                from ..guards import eval3
                v_lo = eval3(cond, var_evaluator(lambda e: ".len()" in render(e, x=True), cand))
                v_hi = eval3(cond, var_evaluator(lambda e: ".len()" in render(e, x=True), cand + 1))
                if v_lo is not None and v_hi is not None and (v_lo == pol) is False and (v_hi == pol) is True:
                    limit = cand
    ctx.ob("write_u32_array|max-items", limit == 127, "write_u32_array accepts at most %s items (1-byte count, sign bit unused)" % limit, fn=w)
    e = db.view(db.one("entries", "WordIdTable"))

    def is_cnt(x):
        d = deref_all(x)
        return isinstance(d, dict) and (d.get("k") == "MethodCall" and d.get("method") == "read") or render(x) in ("cnt", "count")
    rej = []
    for ifn, cond, pol, ek, ps in guarded_exits(e.hir):
        from ..guards import eval3
        v = eval3(cond, var_evaluator(is_cnt, limit or 127))
        if v is not None and v == pol:
            rej.append(render(cond)[:80])
    ctx.ob("WordIdTable::entries|accepts-max-count", not rej, "guards of WordIdTable::entries that reject a record of %s ids (the maximum the compiler writes): %s" % (limit or 127, rej), fn=e)


@rule("C04.csv-rows", "word ids are row positions of the source CSV: the reader is configured so that no row is swallowed (re-evaluation of C05.csv-rows)")
def csv_rows_reeval(db, ctx):
    from . import C05
    C05.csv_rows(db, ctx)
