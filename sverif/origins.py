"""E4 on typed HIR: where does the value of an expression come from?  Follows let-bindings,
for-loop patterns, match-arm patterns and — through parameters — the arguments at every
workspace call site (bounded depth)."""
from .db import walk, peel, peel_casts, callee, path_ends, is_call, call_args, short_path

_IDX = {}


def index(db):
    ix = _IDX.get(id(db))
    if ix is None:
        ix = Index(db)
        _IDX.clear()
        _IDX[id(db)] = ix
    return ix


class Index:
    def __init__(self, db):
        self.db = db
        self.callsites = {}   # callee key -> [(fn, call node)]
        self.bind = {}        # fn key -> {lid: (kind, source expr, pat)}
        for f in db.fns.values():
            h = f.hir
            if not h:
                continue
            for n, _ in walk(h):
                if is_call(n):
                    for c in {n.get("resolved"), n.get("callee")}:
                        if c:
                            self.callsites.setdefault(c, []).append((f, n))

    def bindings(self, f):
        ck = getattr(f, "cache_key", f.key)
        b = self.bind.get(ck)
        if b is None:
            b = {}
            for i, p in enumerate(f.info.get("params", [])):
                for lid, name in pat_bindings(p):
                    b[lid] = ("param", i, p)
            _collect_bindings(f.hir, b)
            self.bind[ck] = b
        return b


def pat_bindings(p):
    out = []
    if not isinstance(p, dict):
        return out
    if p.get("k") == "Bind":
        out.append((p["lid"], p["name"]))
        if "sub" in p:
            out += pat_bindings(p["sub"])
    for key in ("pats", "before", "after"):
        for x in p.get(key, []) or []:
            out += pat_bindings(x)
    for x in p.get("fields", []) or []:
        out += pat_bindings(x.get("pat"))
    for key in ("pat", "mid"):
        if isinstance(p.get(key), dict):
            out += pat_bindings(p[key])
    return out


def for_loop_parts(n):
    """Match(ForLoopDesugar) -> (iterated expr, element pattern, body) or None"""
    if n.get("k") != "Match" or n.get("src") != "ForLoopDesugar":
        return None
    it = n["scrut"]["args"][0] if n["scrut"].get("args") else n["scrut"]
    try:
        loop = n["arms"][0]["body"]
        inner = loop["body"]["stmts"][0]["e"]
        for a in inner["arms"]:
            p = a["pat"]
            if p.get("k") == "TupleStruct" and path_ends(p.get("path"), ("Option::Some", "Some")):
                return it, p["pats"][0], a["body"]
            if p.get("k") == "Struct" and path_ends(p.get("path"), ("Option::Some", "Some")) and p.get("fields"):
                return it, p["fields"][0]["pat"], a["body"]
    except Exception:
        return None
    return None


def _collect_bindings(root, b):
    for n, _ in walk(root):
        k = n.get("k")
        if k == "Block":
            for st in n.get("stmts", []):
                if st["k"] == "Let":
                    for lid, name in pat_bindings(st["pat"]):
                        b.setdefault(lid, ("let", st.get("init"), st["pat"]))
        elif k == "Match":
            fl = for_loop_parts(n)
            if fl:
                it, pat, body = fl
                for lid, name in pat_bindings(pat):
                    b[lid] = ("for", it, pat)
            else:
                for a in n["arms"]:
                    for lid, name in pat_bindings(a["pat"]):
                        b.setdefault(lid, ("arm", n["scrut"], a["pat"]))
        elif k == "LetExpr":
            for lid, name in pat_bindings(n["pat"]):
                b.setdefault(lid, ("let", n["init"], n["pat"]))
        elif k == "Closure":
            for i, p in enumerate(n.get("params", [])):
                for lid, name in pat_bindings(p):
                    b.setdefault(lid, ("closure-param", i, n))


_ELEM_ADAPTORS = ("for_each", "try_for_each", "map", "filter", "filter_map", "flat_map", "all", "any", "find", "find_map", "position",
                  "inspect", "take_while", "skip_while", "map_while", "min_by_key", "max_by_key", "partition", "retain")


_CLO_HOSTS = {}


def _closure_host(f, clo):
    """the method call one of whose arguments is the closure node `clo`"""
    cache = _CLO_HOSTS.setdefault(id(f), {})
    if not cache and f.hir:
        for n, _ in walk(f.hir):
            if n.get("k") == "MethodCall":
                for a in n["args"]:
                    a = peel(a)
                    if isinstance(a, dict) and a.get("k") == "Closure":
                        cache[id(a)] = n
        cache[None] = None
    return cache.get(id(peel(clo)))


def unwrap_try(n):
    """`e?` -> e ; `e.unwrap()` etc -> e"""
    n = peel(n)
    while isinstance(n, dict):
        if n.get("k") == "Match" and n.get("src") == "TryDesugar":
            sc = n["scrut"]
            n = peel(sc["args"][0]) if sc.get("args") else sc
        else:
            break
    return n


def origins(db, f, expr, depth=3, _seen=None):
    """set of origin descriptors:
       ('field', adt, name, via_elem) ('const', v) ('call', callee, node) ('param', fnkey, i)
       ('closure-param',) ('unknown', kind)"""
    ix = index(db)
    if _seen is None:
        _seen = set()
    out = set()
    e = unwrap_try(peel_casts(expr))
    e = unwrap_try(e)
    if not isinstance(e, dict):
        return out
    k = e.get("k")
    if k == "Field":
        adt = e.get("adt")
        if adt is not None:
            out.add(("field", adt, e["name"], False))
        else:  # tuple field: follow the base
            out |= origins(db, f, e["e"], depth, _seen)
        return out
    if k == "Lit":
        out.add(("const", e.get("v")))
        return out
    if k == "Path":
        if e.get("res") == "local":
            key = (f.key, e["lid"])
            if key in _seen:
                return out
            _seen.add(key)
            b = ix.bindings(f).get(e["lid"])
            if b is None:
                out.add(("unknown", "unbound-local"))
                return out
            kind = b[0]
            if kind == "let":
                if b[1] is None:
                    out.add(("unknown", "uninit-let"))
                else:
                    out |= origins(db, f, b[1], depth, _seen)
            elif kind in ("for", "arm"):
                sub = origins(db, f, b[1], depth, _seen)
                for o in sub:
                    if o[0] == "field":
                        out.add(("field", o[1], o[2], True))
                    else:
                        out.add(o)
            elif kind == "param":
                out.add(("param", f.key, b[1]))
                if depth > 0:
                    for (cf, cn) in ix.callsites.get(f.key, []):
                        args = call_args(cn)
                        if b[1] < len(args):
                            out |= origins(db, cf, args[b[1]], depth - 1, _seen)
            else:
                out.add(("closure-param",))
                host = _closure_host(f, b[2])
                # the closure of an iterator adaptor receives the elements of the receiver
                if host is not None and (b[1] == 0 and host["method"] in _ELEM_ADAPTORS or b[1] == 1 and host["method"] in ("fold", "try_fold")):
                    for o in origins(db, f, host["recv"], depth, _seen):
                        out.add(("field", o[1], o[2], True) if o[0] == "field" else o)
            return out
        if e.get("val") is not None:
            out.add(("const", e["val"]))
        else:
            out.add(("def", e.get("path")))
        return out
    if k == "Call" and path_ends(e.get("callee") or "", ("Option::Some", "Some", "Result::Ok", "Ok")) and e.get("args"):
        return origins(db, f, e["args"][0], depth, _seen)      # the wrapped value
    if k in ("Call", "MethodCall"):
        c = callee(e)
        out.add(("call", c, e.get("id")))
        # the value returned by a private helper of the same file: the origins of its result expressions, with the helper's
        # parameters traced to this call's arguments
        g = None
        for kk in (e.get("resolved"), e.get("callee"), c):
            if kk and kk in db.fns:
                g = db.fns[kk]
                break
        if g is not None and g.hir and not g.trait and g.info.get("vis") != "Public" and g.info.get("kind") in ("Fn", "AssocFn") \
                and (g.info.get("span") or "").split(":")[0] == (f.info.get("span") or "").split(":")[0] and (g.key, "ret") not in _seen and len(_seen) < 400:
            _seen.add((g.key, "ret"))
            args = call_args(e)
            for r in _result_exprs(g.hir):
                for o in origins(db, g, r, 0, _seen):
                    if o[0] == "param" and o[1] == g.key and o[2] < len(args):
                        out |= origins(db, f, args[o[2]], depth, _seen)
                    elif o[0] not in ("unknown",):
                        out.add(o)
        # transparent adaptors: follow the receiver
        if k == "MethodCall" and e["method"] in ("iter", "iter_mut", "into_iter", "get", "get_mut", "as_slice",
                                                  "as_ref", "as_mut", "unwrap", "expect", "copied", "cloned",
                                                  "to_owned", "clone", "deref", "borrow", "enumerate", "rev",
                                                  "unwrap_or", "unwrap_or_default", "first", "last", "as_str", "as_bytes", "as_deref", "as_path", "len"):
            out |= origins(db, f, e["recv"], depth, _seen)
        return out
    if k == "Index":
        sub = origins(db, f, e["e"], depth, _seen)
        for o in sub:
            if o[0] == "field":
                out.add(("field", o[1], o[2], True))
            else:
                out.add(o)
        return out
    if k == "Binary":
        out |= origins(db, f, e["l"], depth, _seen)
        out |= origins(db, f, e["r"], depth, _seen)
        return out
    if k == "Tup":
        for x in e["elems"]:
            out |= origins(db, f, x, depth, _seen)
        return out
    if k == "Struct":
        out.add(("struct", e.get("path")))
        for fl in e.get("fields", []):
            if "e" in fl:
                out |= origins(db, f, fl["e"], depth, _seen)
        return out
    if k in ("If", "Match", "Block"):
        # the value is one of the tails (and, for an inlined helper body, one of its helper-returns)
        rs = _result_exprs(e, top=False)
        if not rs:
            out.add(("unknown", k))
        for r in rs:
            out |= origins(db, f, r, depth, _seen)
        return out
    out.add(("unknown", k))
    return out


def _result_exprs(root, top=True):
    """the expressions whose value a body / block / if / match can evaluate to: its tails, plus (for a function body or an inlined
    helper block) the operands of `return` / helper-return"""
    out = []

    def tails(n):
        n = peel(n)
        if not isinstance(n, dict):
            return
        k = n.get("k")
        if k == "Block":
            if "expr" in n:
                tails(n["expr"])
        elif k == "If":
            tails(n["then"])
            if "else" in n:
                tails(n["else"])
        elif k == "Match" and n.get("src") not in ("TryDesugar", "ForLoopDesugar"):
            for a in n["arms"]:
                tails(a["body"])
        elif k in ("Ret", "BreakValue", "Break", "Continue"):
            pass
        else:
            out.append(n)
    tails(root)
    if top or (isinstance(root, dict) and root.get("inl")):
        for n, ps in walk(root):
            if n.get("k") in (("Ret", "BreakValue") if top else ("BreakValue",)) and "e" in n and not any(p.get("k") == "Closure" for p in ps) \
                    and not (n.get("mac") and "desugar:QuestionMark" in n["mac"]):
                tails(n["e"])
    return out


def field_writes(db, adt_key, field):
    """every non-derived write of field `field` of ADT `adt_key`:
    yields (fn, kind, value expr, node)   kind in {'assign','struct'}"""
    derived = derived_fns(db)
    for f in db.fns.values():
        if f.key in derived or not f.hir:
            continue
        for n, ps in walk(f.hir):
            k = n.get("k")
            if k in ("Assign", "AssignOp"):
                l = peel(n["l"])
                if l.get("k") == "Field" and l.get("name") == field and l.get("adt") == adt_key:
                    yield f, "assign", n["r"], n
            elif k == "Struct" and n.get("path") == adt_key:
                for fl in n["fields"]:
                    if fl["name"] == field:
                        yield f, "struct", fl["e"], n


_DERIVED = {}


def derived_fns(db):
    d = _DERIVED.get(id(db))
    if d is None:
        d = set()
        for imp in db.impls:
            if imp.get("automatically_derived"):
                for it in imp.get("items", []):
                    d.add(it)
                    # closures / nested
        # nested items of derived fns (serde visitors etc.)
        for k in list(db.fns):
            for dk in list(d):
                pass
        _DERIVED.clear()
        _DERIVED[id(db)] = d
    return d


def with_let_inits(db, f, expr, depth=4, _seen=None):
    """nodes of `expr` plus, transitively, the initialisers of the let-bound locals it mentions"""
    ix = index(db)
    if _seen is None:
        _seen = set()
    for n, _ in walk(expr):
        yield n
        if n.get("k") == "Path" and n.get("res") == "local" and depth > 0 and n["lid"] not in _seen:
            _seen.add(n["lid"])
            b = ix.bindings(f).get(n["lid"])
            if b and b[0] == "let" and b[1] is not None:
                yield from with_let_inits(db, f, b[1], depth - 1, _seen)


def resolve_let(db, f, expr, depth=4):
    """follow `let x = <init>` chains: the expression a local stands for (peeled), or the expression itself"""
    ix = index(db)
    e = peel(expr)
    while depth > 0 and isinstance(e, dict) and e.get("k") == "Path" and e.get("res") == "local":
        b = ix.bindings(f).get(e["lid"])
        if b and b[0] == "let" and b[1] is not None and b[2].get("k") == "Bind":
            e = peel(b[1])
            depth -= 1
        else:
            break
    return e


def owners(db, f, depth=2):
    """f itself plus every function f was (apparently) extracted from: f is private, not a trait method, and every one of its call
    sites lies in one single function of the same file (transitively).  A table entry naming the original function then also
    covers code that was moved into a private helper of it."""
    out = [f]
    ix = index(db)
    cur = f
    # a closure belongs to the function it is written in
    while cur.info.get("kind") == "Closure" and cur.info.get("parent") in db.fns:
        cur = db.fns[cur.info["parent"]]
        out.append(cur)
    for _ in range(depth):
        if cur.trait or cur.info.get("vis") == "Public":
            break
        cs = {cf.key for cf, _ in ix.callsites.get(cur.key, [])}
        if len(cs) != 1:
            break
        nxt = db.fns[cs.pop()]
        if (nxt.info.get("span") or "").split(":")[0] != (cur.info.get("span") or "").split(":")[0] or nxt in out:
            break
        out.append(nxt)
        cur = nxt
    return out
