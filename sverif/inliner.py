"""Inlined view of a function: calls to private helpers of the same source file are replaced by the helper's body, so that a
rule anchored on function F sees the same tree whether a piece of F's logic is written inline or was extracted into a private
helper (the commonest behaviour-preserving refactoring, in both directions).

    h(a, b)?            ==>   Block(inl=h){ let p0 = a; let p1 = b; <body of h> }

inside the copied body
  * local ids and node ids are renamed apart (`<call id>/<id>`), so path conditions / bindings stay unambiguous;
  * when the call is consumed by `?`:   `return Err(e)` stays a function-level return, `return Ok(v)` becomes
    BreakValue(v) (leaves the inlined block with value v), a tail `Ok(v)` becomes `v`, a tail `Err(e)` becomes `return Err(e)`,
    any other tail `t` becomes `t?`;  the `?` wrapper itself disappears (the block has the unwrapped type);
  * otherwise every `return e` becomes BreakValue(e).
BreakValue diverges inside the inlined block (what follows an `if c { return .. }` in the helper runs under !c) but is not an
exit of the enclosing function (`db.exit_kind` reports it as 'helper-ret').

The view is a deep copy: the facts of the original function are untouched, and rules opt in with `db.view(f)`."""
import copy
from .db import walk, peel, is_call, callee, call_args, path_ends, canonicalise, annotate_lets

MAX_NODES = 1500


def _count(n):
    c = 0
    for _ in walk(n):
        c += 1
        if c > MAX_NODES:
            break
    return c


def eligible(db, f, g):
    return (g is not None and g is not f and g.hir and not g.trait and g.info.get("vis") != "Public"
            and g.info.get("kind") in ("Fn", "AssocFn")
            and (g.info.get("span") or "").split(":")[0] == (f.info.get("span") or "").split(":")[0]
            and "::__" not in g.key and _count(g.hir) <= MAX_NODES)


def _resolve(db, n):
    for k in (n.get("resolved"), n.get("callee"), callee(n)):
        if k and k in db.fns:
            return db.fns[k]
    return None


def _rename(n, tag):
    """rename node ids / local ids apart, drop let annotations (recomputed afterwards)"""
    stack = [n]
    while stack:
        x = stack.pop()
        if isinstance(x, list):
            stack.extend(x)
            continue
        if not isinstance(x, dict):
            continue
        x.pop("let_init", None)
        x.pop("mut_init", None)
        if "id" in x:
            x["id"] = "%s/%s" % (tag, x["id"])
        if "lid" in x:
            x["lid"] = "%s/%s" % (tag, x["lid"])
        stack.extend(v for v in x.values() if isinstance(v, (dict, list)))


def _is(e, names):
    e = peel(e)
    return isinstance(e, dict) and e.get("k") == "Call" and path_ends(e.get("callee") or "", names)


_ERR_FNS = {}


def err_like(db, e):
    """e is `Err(..)` or a call to a workspace function that can only return Err (its body is a single Err(..) tail, e.g.
    DicCompilationCtx::err)"""
    if _is(e, ("Result::Err", "Err")):
        return True
    e = peel(e)
    if isinstance(e, dict) and is_call(e):
        g = _resolve(db, e)
        if g is not None and g.hir:
            if g.key not in _ERR_FNS:
                body = peel(g.info.get("hir_orig") or g.hir)
                while isinstance(body, dict) and body.get("k") == "Block" and not body.get("stmts") and "expr" in body:
                    body = peel(body["expr"])
                _ERR_FNS[g.key] = _is(body, ("Result::Err", "Err")) and not any(x.get("k") == "Ret" for x, _ in walk(g.hir))
            return _ERR_FNS[g.key]
    return False


def _try_wrap(e, proto):
    """`e?` built from the call site's own `?` node (prototype), with e as the operand"""
    w = {k: v for k, v in proto.items() if k not in ("scrut",)}
    sc = dict(proto["scrut"])
    sc["args"] = [e]
    w["scrut"] = sc
    w["id"] = "%s/try" % e.get("id", "?")
    return w


def _rewrite_returns(body, try_proto, db=None, fn_tail=False):
    """see module docstring; closures keep their own returns"""
    def tail(n):
        """rewrite the value position of n; returns the replacement node"""
        p = peel(n)
        if not isinstance(p, dict):
            return n
        k = p.get("k")
        if k == "Block":
            if "expr" in p:
                p["expr"] = tail(p["expr"])
            return n
        if k == "If":
            p["then"] = tail(p["then"])
            if "else" in p:
                p["else"] = tail(p["else"])
            return n
        if k == "Match" and p.get("src") not in ("TryDesugar", "ForLoopDesugar"):
            for a in p["arms"]:
                a["body"] = tail(a["body"])
            return n
        if try_proto is None:
            return n
        if k in ("Ret", "BreakValue", "Break", "Continue") or p.get("ty") == "!":
            return n
        if _is(p, ("Result::Ok", "Ok")) and p.get("args"):
            return p["args"][0]
        if err_like(db, p):
            return {"k": "Ret", "id": "%s/ret" % p.get("id"), "ty": "!", "sp": p.get("sp"), "e": p}
        return _try_wrap(n, try_proto)

    def rets(n):
        if isinstance(n, list):
            for x in n:
                rets(x)
            return
        if not isinstance(n, dict):
            return
        if n.get("k") == "Closure":
            return
        if n.get("k") == "Ret" and not (n.get("mac") and "desugar:QuestionMark" in n["mac"]):
            e = n.get("e")
            if try_proto is not None and e is not None and err_like(db, e):
                pass                                    # a real exit of the enclosing function
            elif try_proto is not None and e is not None and _is(e, ("Result::Ok", "Ok")) and peel(e).get("args"):
                n["k"] = "BreakValue"
                n["e"] = peel(e)["args"][0]
            elif try_proto is not None and e is not None:
                n["k"] = "BreakValue"
                n["e"] = _try_wrap(e, try_proto)
            else:
                n["k"] = "BreakValue"
        for v in list(n.values()):
            if isinstance(v, (dict, list)):
                rets(v)
    if fn_tail and try_proto is None:
        return body          # the helper's result IS the caller's result: its `return`s are the caller's returns
    rets(body)
    return tail(body)


def _fn_tails(root):
    out = set()

    def go(n):
        n = peel(n)
        if not isinstance(n, dict):
            return
        out.add(id(n))
        k = n.get("k")
        if k == "Block" and "expr" in n:
            go(n["expr"])
        elif k == "If":
            go(n["then"])
            if "else" in n:
                go(n["else"])
        elif k == "Match" and n.get("src") not in ("TryDesugar", "ForLoopDesugar"):
            for a in n["arms"]:
                go(a["body"])
    go(root)
    for n, ps in walk(root):
        if n.get("k") == "Ret" and "e" in n and not any(p.get("k") == "Closure" for p in ps):
            go(n["e"])
    return out


def _expand(db, f, root, depth, stack, counter, keep=(), tails=None):
    """replace eligible calls under root (in place); returns root (possibly replaced)"""
    if tails is None:
        tails = _fn_tails(root)
    def visit(n, parent, key, idx, try_parent):
        if isinstance(n, list):
            for i, x in enumerate(n):
                visit(x, n, None, i, None)
            return
        if not isinstance(n, dict):
            return
        # a `?` directly over a call: remember it so the call can be inlined in Result-unwrapped form
        if n.get("k") == "Match" and n.get("src") == "TryDesugar" and isinstance(n.get("scrut"), dict) and n["scrut"].get("args"):
            inner = n["scrut"]["args"][0]
            if isinstance(inner, dict) and is_call(inner) and _try_inline(inner, n, parent, key, idx):
                return
        if is_call(n) and _try_inline(n, None, parent, key, idx):
            return
        for k2, v in list(n.items()):
            if k2 in ("let_init", "mut_init"):
                continue
            if isinstance(v, dict):
                visit(v, n, k2, None, None)
            elif isinstance(v, list):
                visit(v, n, k2, None, None)

    def _try_inline(call, try_node, parent, key, idx):
        g = _resolve(db, call)
        if depth <= 0 or g is None or g.key in stack or not eligible(db, f, g) or any(g.key.endswith(s) for s in keep):
            return False
        params = g.info.get("params") or []
        args = call_args(call)
        if len(params) != len(args) or any((p or {}).get("k") != "Bind" for p in params):
            return False
        counter[0] += 1
        tag = "i%d" % counter[0]
        body = copy.deepcopy(g.info.get("hir_orig") or g.hir)
        _rename(body, tag)
        body = _rewrite_returns(body, try_node, db, fn_tail=(try_node is None and id(call) in tails))
        stmts = []
        for p, a in zip(params, args):
            pp = copy.deepcopy(p)
            _rename(pp, tag)
            # `self` / by-reference parameters are aliases of the argument
            stmts.append({"k": "Let", "id": "%s/p%s" % (tag, pp.get("lid")), "pat": pp, "init": a, "param_of": g.key})
        blk = {"k": "Block", "id": "%s/blk" % tag, "ty": (try_node or call).get("ty"), "sp": call.get("sp"), "inl": g.key,
               "stmts": stmts, "expr": body}
        # arguments may themselves contain calls to expand; so may the copied body (one level less)
        for s_ in stmts:
            visit(s_["init"], s_, "init", None, None)
        nb = _expand(db, g, body, depth - 1, stack | {g.key}, counter, keep, tails=(_fn_tails(body) if (try_node is None and id(call) in tails) else set()))
        blk["expr"] = nb
        target = try_node if try_node is not None else call
        if isinstance(parent, list):
            parent[idx] = blk
        elif parent is not None:
            parent[key] = blk
        else:
            root_holder[0] = blk
        return True

    root_holder = [root]
    visit(root, None, None, None, None)
    return root_holder[0]


def inlined(db, f, depth=2, keep=()):
    """deep-copied HIR of f with private same-file helpers expanded (depth levels)"""
    root = copy.deepcopy(f.info.get("hir_orig") or f.hir)
    for n, _ in walk(root):
        n.pop("let_init", None)
        n.pop("mut_init", None)
    counter = [0]
    root = _expand(db, f, root, depth, {f.key}, counter, keep)
    canonicalise(root)
    annotate_lets(root)
    return root, counter[0]
