"""E5 — guard extraction and acceptance intervals (three-valued evaluation of one-variable
comparisons at boundary points; constant folding, not path solving)."""
from .db import (walk, walk_x, deref_let, peel, peel_casts, render, diverges, exit_kind, callee, path_ends, lit_int,
                 CMP_OPS, NEG, SWAP, children)


def cmp_atom(n):
    """n is a Binary comparison -> (op, lhs, rhs) else None"""
    n = deref_let(n) if isinstance(n, dict) and n.get("ty") == "bool" else peel(n)
    if isinstance(n, dict) and n.get("k") == "Binary" and n.get("op") in CMP_OPS:
        return n["op"], n["l"], n["r"]
    return None


def holds(op, a, b):
    return {"Lt": a < b, "Le": a <= b, "Gt": a > b, "Ge": a >= b, "Eq": a == b, "Ne": a != b}[op]


def eval3(cond, atom_val):
    """three-valued evaluation; atom_val(node) -> True/False/None for atomic conditions"""
    cond = peel(cond)
    if not isinstance(cond, dict):
        return None
    k = cond.get("k")
    if k == "Path" and cond.get("res") == "local" and "let_init" in cond and cond.get("ty") == "bool":
        return eval3(cond["let_init"], atom_val)
    if k == "Unary" and cond.get("op") == "Not":
        v = eval3(cond["e"], atom_val)
        return None if v is None else (not v)
    if k == "Binary" and cond.get("op") == "And":
        a, b = eval3(cond["l"], atom_val), eval3(cond["r"], atom_val)
        if a is False or b is False:
            return False
        if a is True and b is True:
            return True
        return None
    if k == "Binary" and cond.get("op") == "Or":
        a, b = eval3(cond["l"], atom_val), eval3(cond["r"], atom_val)
        if a is True or b is True:
            return True
        if a is False and b is False:
            return False
        return None
    if k == "Lit" and cond.get("t") == "bool":
        return bool(cond["v"])
    return atom_val(cond)


def bound_cmp_evaluator(is_bound, point, var_pred=None):
    """atom evaluator for comparisons `x OP bound` / `bound OP x` where `is_bound(node)` recognises the
    bound side; x takes the value bound+point (point in {-1,0,1}).  `(a..bound).contains(&x)` is
    understood as a<=x<bound with a assumed <= every point."""
    def ev(atom):
        c = cmp_atom(atom)
        if c:
            op, l, r = c
            if (is_bound(peel_casts(r)) or is_bound(peel_casts(deref_let(peel_casts(r))))) and (var_pred is None or var_pred(l)):
                return holds(op, point, 0)
            if (is_bound(peel_casts(l)) or is_bound(peel_casts(deref_let(peel_casts(l))))) and (var_pred is None or var_pred(r)):
                return holds(SWAP[op], point, 0)
            return None
        a = peel(atom)
        if a.get("k") == "MethodCall" and a.get("method") == "contains":
            rng = peel(a["recv"])
            if rng.get("k") == "Struct" and path_ends(rng.get("path"), ("Range", "ops::Range")):
                fl = {f["name"]: f["e"] for f in rng["fields"]}
                if "end" in fl and is_bound(peel_casts(fl["end"])):
                    return point < 0
            if rng.get("k") == "Struct" and path_ends(rng.get("path"), ("RangeInclusive",)):
                return None
        return None
    return ev


def _tail_ids(n, out):
    """ids of the nodes whose value is the value of `n` (block tails, both arms of a tail if / match)"""
    n = peel(n)
    if not isinstance(n, dict):
        return
    out.add(id(n))
    k = n.get("k")
    if k == "Block" and "expr" in n:
        _tail_ids(n["expr"], out)
    elif k == "If":
        _tail_ids(n["then"], out)
        if "else" in n:
            _tail_ids(n["else"], out)
    elif k == "Match" and n.get("src") not in ("TryDesugar", "ForLoopDesugar"):
        for a in n["arms"]:
            _tail_ids(a["body"], out)
    elif k == "Ret" and "e" in n:
        _tail_ids(n["e"], out)


def _value_kind(n):
    """'err' / 'ok' / 'none' when the value of this (non-diverging) branch is syntactically Err(..) / Ok(..) / None on every tail"""
    n = peel(n)
    if not isinstance(n, dict):
        return None
    k = n.get("k")
    if k == "Block":
        return _value_kind(n["expr"]) if "expr" in n else None
    if k == "Call" and path_ends(n.get("callee"), ("Result::Err", "Err")):
        return "err"
    if k == "Call" and path_ends(n.get("callee"), ("Result::Ok", "Ok")):
        return "ok"
    if k == "Path" and path_ends(n.get("path"), ("Option::None", "None")):
        return "none"
    if k == "If" and "else" in n:
        a, b = _value_kind(n["then"]), _value_kind(n["else"])
        return a if a == b else None
    return None


def guarded_exits(root):
    """yield (if_node, cond, polarity_that_exits, exit_kind, parents) for every `if` one of whose
    branches diverges (closures are entered: a guard inside a closure body counts for the
    closure's own control flow).  An `if` in value position of the function result (tail expression or `return` operand) one of
    whose branches IS the Err(..) / None result counts the same: `if ok { Ok(v) } else { Err(e) }` rejects when !ok."""
    tails = set()
    _tail_ids(root, tails)
    for n, ps in walk(root):
        if n.get("k") == "Ret" and "e" in n:
            _tail_ids(n["e"], tails)
        if n.get("k") == "Closure":
            _tail_ids(n.get("body"), tails)
    for n, ps in walk(root):
        if n.get("k") != "If":
            continue
        if diverges(n["then"]):
            yield n, n["cond"], True, exit_kind(n["then"]), ps
        elif "else" in n and diverges(n["else"]):
            yield n, n["cond"], False, exit_kind(n["else"]), ps
        elif "else" in n and id(n) in tails:
            a, b = _value_kind(n["then"]), _value_kind(n["else"])
            if a in ("err", "none") and b != a:
                yield n, n["cond"], True, a, ps
            elif b in ("err", "none") and a != b:
                yield n, n["cond"], False, b, ps


def mentions(node, pred):
    for x, _ in walk_x(node):
        if pred(x):
            return True
    return False


def is_call_to(suffix):
    def p(x):
        return isinstance(x, dict) and x.get("k") in ("Call", "MethodCall") and (
            path_ends(callee(x), suffix) or path_ends(x.get("callee"), suffix))
    return p


def is_const_path(suffix):
    def p(x):
        return isinstance(x, dict) and x.get("k") == "Path" and x.get("res") == "def" and path_ends(x.get("path"), suffix)
    return p


def err_exits(root):
    """(node, path conditions) of every point where the function (or an inlined helper under `?`) leaves with an error of its own
    making: `return Err(..)` and an `Err(..)` in result position.  A rule that asks "for which values is the input rejected" evaluates
    the reachability of these points — independent of whether the code says `if bad { return Err }` or `if good { return Ok }; Err`."""
    from .db import path_conditions
    tails = set()
    _tail_ids(root, tails)
    for n, ps in walk(root):
        if any(p.get("k") == "Closure" for p in ps):
            continue
        is_err = lambda e: isinstance(peel(e), dict) and peel(e).get("k") in ("Call", "MethodCall") and (
            path_ends(peel(e).get("callee") or "", ("Result::Err", "Err", "DicCompilationCtx::err")) or path_ends(peel(e).get("resolved") or "", ("DicCompilationCtx::err",)))
        if n.get("k") == "Ret" and "e" in n and not (n.get("mac") and "desugar:QuestionMark" in n["mac"]) and is_err(n["e"]):
            yield n, path_conditions(n["id"], root) or []
        elif id(n) in tails and n.get("k") == "Call" and is_err(n) and not any(p.get("k") == "Ret" for p in ps[-2:]):
            yield n, path_conditions(n["id"], root) or []
