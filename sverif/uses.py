"""How is the value of a HIR expression consumed?  (error-discipline rules)"""
from .db import walk, peel, callee, path_ends, is_call

TRANSPARENT = {"map", "map_err", "and_then", "or_else", "with_context", "context", "inspect_err", "into",
               "as_ref", "as_mut", "transform", "apply"}
DISCARDING = {"ok", "unwrap_or", "unwrap_or_default", "unwrap_or_else", "is_ok", "is_err", "err", "iter", "into_iter"}
PANICKING = {"unwrap", "expect", "unwrap_err", "expect_err"}


def is_result_ty(ty):
    return ty.startswith("std::result::Result<") or ty.startswith("core::result::Result<")


def consumer(node, parents):
    """classify what happens to the value of `node` (a Result-typed expression).
    returns (kind, detail): kind in
      'try'       e?            'return'   returned / tail of fn or closure
      'match'     scrutinised   'bound'    bound to a named local
      'arg'       passed to a function   'discard-stmt'   expression statement
      'discard-let' `let _ =`   'discard-method'  .ok() etc.   'panic' .unwrap()/.expect()
    """
    cur = node
    for p in reversed(parents):
        k = p.get("k")
        if k == "Call":
            if path_ends(p.get("callee"), ("Try::branch", "ops::Try::branch", "branch")) and p.get("callee", "").endswith("branch"):
                return "try", None
            if cur is p.get("f"):
                return "called", None
            return "arg", p.get("callee")
        if k == "MethodCall":
            if cur is p["recv"]:
                m = p["method"]
                if m in TRANSPARENT:
                    cur = p
                    continue
                if m in DISCARDING:
                    return "discard-method", m
                if m in PANICKING:
                    return "panic", m
                return "method", m
            return "arg", p.get("callee")
        if k == "Match":
            if p.get("src") == "TryDesugar":
                return "try", None
            if cur is p.get("scrut"):
                return "match", None
            cur = p  # value of an arm
            continue
        if k == "If":
            if cur is p.get("cond"):
                return "match", None
            cur = p
            continue
        if k == "LetExpr":
            return "match", None
        if k in ("Semi", "Expr"):       # statement wrappers produced by the block walker
            return "discard-stmt", None
        if k == "Let":
            if p.get("init") is cur:
                if p["pat"].get("k") == "Wild":
                    return "discard-let", None
                return "bound", p["pat"].get("name")
            return "unknown", "let-else"
        if k == "Block":
            if p.get("expr") is cur:
                cur = p
                continue
            return "unknown", "block"
        if k == "Ret":
            return "return", None
        if k == "Closure":
            return "return", "closure"
        if k in ("AddrOf", "Cast", "Unary"):
            cur = p
            continue
        if k in ("Assign",):
            return "bound", "assign"
        if k in ("Tup", "Struct", "Array"):
            return "bound", k
        return "unknown", k
    return "return", "fn-tail"
