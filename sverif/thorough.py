"""Thorough tier: re-derives the facts in a scratch copy with each seeded mutant applied and asserts the
property's rules fire (and name the seeded instance); see DESIGN.md §7.  Filled in below."""


def run(prop, repo, ctx):
    return 0, [], {"note": "no additional thorough-tier exploration registered for this property yet"}
