"""Thorough tier: checker self-validation on seeded variants of the tree under analysis.

For the property being checked, every mutant in /verif/mutants (self-test corpus, one defect each: the reversals of the
repaired defects plus hand-seeded breakages) and every kept sub-agent change in /verif/seeded is applied to a scratch copy of
/repo's current working tree (under /var/tmp, removed afterwards); the facts are re-derived with the driver and the
property's rules must report a violation whose key starts with the expected prefix.  Nothing is executed except the
compiler.  A mutant whose patch no longer applies to the tree under analysis is reported as skipped (the tree was edited
there), not as a failure."""
import concurrent.futures
import glob
import json
import os
import re
import shutil
import subprocess
import time

from . import facts, engine
from .db import DB

VERIF = facts.VERIF
WORKERS = 5


def _mutants_for(prop):
    out = []
    for p in sorted(glob.glob(os.path.join(VERIF, "mutants", "*.diff"))):
        head = open(p).read(600)
        m = re.search(r"# property: (\w+)", head)
        e = re.search(r"# expect: (.*)", head)
        if m and m.group(1) == prop:
            out.append({"id": os.path.basename(p)[:-5], "patch": p, "expect": e.group(1).strip() if e else "", "kind": "self-test"})
    for d in sorted(glob.glob(os.path.join(VERIF, "seeded", "*"))):
        mp = os.path.join(d, "meta.json")
        pp = os.path.join(d, "patch.diff")
        if os.path.exists(mp) and os.path.exists(pp):
            meta = json.load(open(mp))
            if meta.get("property") == prop and meta.get("detected_by"):
                out.append({"id": os.path.basename(d), "patch": pp, "expect": meta.get("expect_key_prefix", ""), "kind": "seeded"})
    return out


def _refactors_for(prop):
    out = []
    for p in sorted(glob.glob(os.path.join(VERIF, "refactors", "*.diff"))):
        head = open(p).read(400)
        m = re.search(r"# properties: ([\w,]+)", head)
        if m and prop in m.group(1).split(","):
            out.append({"id": os.path.basename(p)[:-5], "patch": p, "expect": None, "kind": "refactor"})
    return out


def _copy_tree(repo, dst):
    shutil.rmtree(dst, ignore_errors=True)
    subprocess.check_call(["rsync", "-a", "--exclude", "target", "--exclude", ".git", repo.rstrip("/") + "/", dst + "/"])


def _run_one(prop, repo, mut, idx):
    dst = "/var/tmp/sverif-mut-%d-%d" % (os.getpid(), idx)
    out = dst + "-facts"
    t0 = time.time()
    try:
        _copy_tree(repo, dst)
        r = subprocess.run(["patch", "-p1", "-s", "-f", "--no-backup-if-mismatch", "-i", mut["patch"]], cwd=dst,
                           stdout=subprocess.PIPE, stderr=subprocess.STDOUT, text=True)
        if r.returncode != 0:
            return dict(mut, status="skipped", why="patch does not apply to the tree under analysis", wall_s=round(time.time() - t0, 1))
        try:
            facts.run_driver(dst, out)
        except facts.FactsError as e:
            return dict(mut, status="broken", why="variant does not build: %s" % str(e)[-300:], wall_s=round(time.time() - t0, 1))
        crates = facts.load_dir(out)
        # normalise file names recorded under the scratch dir
        code, ev, lines, ctx = engine.run_property(prop, dst, "quick", crates, {"tree_hash": "mutant:" + mut["id"]})
        bad = [o for o in ctx.obs if not o.ok]
        known, fixed = engine.load_known()
        fresh = [o for o in bad if not (o.key in known and (known[o.key].get("sig") is None or known[o.key].get("sig") == o.sig))]
        if mut["kind"] == "refactor":   # behaviour-preserving variant: every rule must stay silent
            return dict(mut, status="silent" if not fresh else "FALSE-ALARM", reported=[o.key for o in fresh][:6],
                        wall_s=round(time.time() - t0, 1))
        hit = [o for o in fresh if o.key.startswith(mut["expect"])] if mut["expect"] else fresh
        return dict(mut, status="detected" if hit else "MISSED", reported=[o.key for o in fresh][:6],
                    named_instance=bool(hit), wall_s=round(time.time() - t0, 1))
    finally:
        shutil.rmtree(dst, ignore_errors=True)
        shutil.rmtree(out, ignore_errors=True)


def run(prop, repo, ctx):
    muts = _mutants_for(prop) + _refactors_for(prop)
    results = []
    facts.build_driver()
    with concurrent.futures.ThreadPoolExecutor(max_workers=WORKERS) as ex:
        futs = [ex.submit(_run_one, prop, repo, m, i) for i, m in enumerate(muts)]
        for f in futs:
            try:
                results.append(f.result())
            except Exception as e:  # never let the self-test hide behind an exception
                results.append({"id": "?", "status": "broken", "why": repr(e)})
    detected = [r for r in results if r["status"] == "detected"]
    missed = [r for r in results if r["status"] in ("MISSED", "FALSE-ALARM")]
    silent = [r for r in results if r["status"] == "silent"]
    skipped = [r for r in results if r["status"] in ("skipped", "broken")]
    lines = []
    for r in results:
        lines.append("SELFTEST %s %s %s%s" % (prop, r.get("id"), r["status"], (" (" + r.get("why", "") + ")") if r.get("why") else ""))
    cov = {
        "what": "checker self-validation: each seeded variant of the analysed tree must make this property's rules report the seeded instance",
        "variants": len(results), "detected": len(detected), "refactors_silent": len(silent),
        "missed_or_false_alarm": [r["id"] + ":" + r["status"] for r in missed],
        "skipped": [{"id": r.get("id"), "why": r.get("why")} for r in skipped],
        "results": [{k: v for k, v in r.items() if k != "patch"} for r in results],
    }
    if missed:
        lines.append("CHECKER-SELFTEST-FAILED property=%s: %s" % (prop, [r["id"] + ":" + r["status"] for r in missed]))
        return 2, lines, cov
    return 0, lines, cov
