"""Program database over the sfacts fact files + HIR/MIR query helpers."""
import re


class AnchorMissing(Exception):
    def __init__(self, anchor, why=""):
        super().__init__("anchor missing: %s %s" % (anchor, why))
        self.anchor = anchor
        self.why = why


class Fn:
    __slots__ = ("key", "info", "pkg", "crate", "_mir")

    def __init__(self, key, info, pkg, crate):
        self.key = key
        self.info = info
        self.pkg = pkg
        self.crate = crate
        self._mir = None

    @property
    def name(self):
        return self.info.get("name") or self.key.rsplit("::", 1)[-1]

    @property
    def hir(self):
        return self.info.get("hir")

    @property
    def mir(self):
        if self._mir is None and self.info.get("mir"):
            from .mirq import Mir
            self._mir = Mir(self.info["mir"], self)
        return self._mir

    @property
    def span(self):
        return self.info.get("span", "?")

    @property
    def self_adt(self):
        return self.info.get("self_adt")

    @property
    def trait(self):
        return self.info.get("trait")

    @property
    def trait_item(self):
        return self.info.get("trait_item")

    def short(self):
        return short_path(self.key)

    def __repr__(self):
        return "Fn(%s)" % self.key


_GEN = re.compile(r"<[A-Z][A-Za-z0-9_]*(,[A-Z][A-Za-z0-9_]*)*>")


def short_path(k):
    """`sudachi::analysis::lattice::Lattice::connect_node` -> `Lattice::connect_node`;
    `<a::B as c::D>::f` -> `<B as D>::f`"""
    def last2(p):
        p = _GEN.sub("", p)
        parts = p.split("::")
        return "::".join(parts[-2:]) if len(parts) >= 2 else p
    m = re.match(r"^<(.+) as (.+)>::(.+)$", k)
    if m:
        a = _GEN.sub("", m.group(1)).split("::")[-1]
        b = re.sub(r"<.*>", "", m.group(2)).split("::")[-1]
        return "<%s as %s>::%s" % (a, b, m.group(3))
    return last2(k)


class FnView:
    """a function seen through the inliner: same identity (key, info, names), different tree"""
    def __init__(self, f, hir, n_inlined):
        self._f = f
        self._hir = hir
        self.n_inlined = n_inlined
        self.cache_key = f.key + "#view"

    def __getattr__(self, a):
        return getattr(self._f, a)

    @property
    def hir(self):
        return self._hir

    def short(self):
        return self._f.short()

    def __repr__(self):
        return "FnView(%s)" % self._f.key


class DB:
    def view(self, f, depth=2, keep=()):
        """f with its private same-file helpers expanded in place (see inliner.py); f itself when there is nothing to expand.
        `keep`: name suffixes of helpers that stay calls (the rule is anchored on them by name)"""
        if isinstance(f, FnView):
            return f
        c = self.__dict__.setdefault("_views", {})
        ck = (f.key, depth, tuple(keep))
        if ck not in c:
            from .inliner import inlined
            hir, n = inlined(self, f, depth, keep)
            v = FnView(f, hir, n) if n else f
            if n:
                v.cache_key = "%s#view%d%s" % (f.key, depth, "|".join(keep))
            c[ck] = v
        return c[ck]

    def __init__(self, crates, meta=None):
        self.meta = meta or {}
        self.fns = {}
        self.adts = {}
        self.traits = {}
        self.impls = []
        self.statics = {}
        self.consts = {}
        DB.current = self
        self.fnsigs = {}
        self.crates = []
        from .rename import reconcile, reconcile_fields
        self.renamed_fields = reconcile_fields(crates)       # first: the body features used to pair renamed functions mention field names
        self.renamed = reconcile(crates)            # {key in the analysed tree: key in the pinned tree} for renamed functions
        for c in crates:
            pkg = c["pkg"]
            self.crates.append({"pkg": pkg, "crate": c["crate"], "types": c["crate_types"],
                                "nbodies": c["nbodies"]})
            for k, v in c["fns"].items():
                self.fns[k] = Fn(k, v, pkg, c["crate"])
            for k, v in c["adts"].items():
                v["pkg"] = pkg
                self.adts[k] = v
            for k, v in c["traits"].items():
                v["pkg"] = pkg
                self.traits[k] = v
            for v in c["impls"]:
                v["pkg"] = pkg
                self.impls.append(v)
            for k, v in c["statics"].items():
                v["pkg"] = pkg
                self.statics[k] = v
            for k, v in c["consts"].items():
                v["pkg"] = pkg
                self.consts[k] = v
            for k, v in c["fnsigs"].items():
                v["pkg"] = pkg
                self.fnsigs[k] = v
        self._by_name = {}
        for k, f in self.fns.items():
            self._by_name.setdefault(f.name, []).append(f)
            if f.hir:
                canonicalise(f.hir)
                annotate_lets(f.hir)
        self._closures_of = {}
        for k, f in self.fns.items():
            if f.info.get("kind") == "Closure":
                self._closures_of.setdefault(f.info.get("parent"), []).append(f)

    # ---- lookup -------------------------------------------------------------------
    def fn(self, key):
        f = self.fns.get(key)
        if f is None:
            raise AnchorMissing(key)
        return f

    def find(self, name, self_adt=None, trait=None, pkg=None):
        """functions called `name`, optionally restricted by the last path segment of the
        self type / trait."""
        out = []
        for f in self._by_name.get(name, []):
            if self_adt is not None:
                sa = f.self_adt or f.info.get("self_ty") or ""
                if _GEN.sub("", sa).split("::")[-1].split("<")[0] != self_adt:
                    continue
            if trait is not None:
                if trait == "":  # inherent only
                    if f.trait:
                        continue
                elif (f.trait or "").split("::")[-1] != trait:
                    continue
            if pkg is not None and f.pkg != pkg:
                continue
            out.append(f)
        return out

    def one(self, name, self_adt=None, trait=None, pkg=None):
        r = self.find(name, self_adt, trait, pkg)
        if len(r) != 1:
            raise AnchorMissing("%s::%s%s" % (self_adt or "*", name, (" as " + trait) if trait else ""),
                                "(%d candidates)" % len(r))
        return r[0]

    def impls_of(self, trait_method_suffix):
        """all workspace fns implementing the trait method whose path ends with the suffix,
        e.g. 'OovProviderPlugin::provide_oov'"""
        out = []
        for f in self.fns.values():
            ti = f.trait_item
            if ti and ti.endswith(trait_method_suffix):
                out.append(f)
        return sorted(out, key=lambda f: f.key)

    def closures_of(self, f):
        """transitively nested closure bodies (MIR) of a fn"""
        out = []
        stack = [f.key]
        while stack:
            k = stack.pop()
            for c in self._closures_of.get(k, []):
                out.append(c)
                stack.append(c.key)
        return out

    def private_helpers(self, f, depth=2, _seen=None):
        """workspace functions that `f` calls and that are private plumbing of the same file (extracted helpers): non-public,
        not a trait-impl method, defined in the same source file; transitively to `depth`"""
        out = []
        _seen = _seen if _seen is not None else {f.key}
        if not f.hir or depth <= 0:
            return out
        ffile = (f.info.get("span") or "").split(":")[0]
        for n, ps in walk(f.hir):
            if is_call(n):
                for c in (n.get("resolved"), n.get("callee")):
                    g = self.fns.get(c) if c else None
                    if g is not None and g.key not in _seen and g.hir and not g.trait and g.info.get("vis") != "Public" \
                            and (g.info.get("span") or "").split(":")[0] == ffile:
                        _seen.add(g.key)
                        out.append((n, ps, g))
                        out.extend(self.private_helpers(g, depth - 1, _seen))
                        break
        return out

    def walk_deep(self, f, depth=2):
        """walk f's HIR and the HIR of its private same-file helpers (the call node and its parents are kept as the parent chain)"""
        yield from walk(f.hir)
        for call, ps, g in self.private_helpers(f, depth):
            yield from walk(g.hir, ps + (call,))

    def const(self, suffix):
        r = [(k, v) for k, v in self.consts.items() if k.endswith(suffix)]
        if len(r) != 1:
            raise AnchorMissing("const " + suffix, "(%d candidates)" % len(r))
        return r[0][1].get("val")

    def adt(self, suffix):
        r = [(k, v) for k, v in self.adts.items() if k == suffix or k.endswith("::" + suffix)]
        if len(r) != 1:
            raise AnchorMissing("adt " + suffix, "(%d candidates)" % len(r))
        return r[0]

    def adt_fields(self, suffix):
        k, a = self.adt(suffix)
        return {f["name"]: f for v in a["variants"] for f in v["fields"]}


# ======================================================================================
# HIR helpers
# ======================================================================================
def canonicalise(root):
    """rewrite equivalent surface forms into one, in place, before any rule looks at the tree:
       `match b { true => X, false => Y }` (b: bool, arms in either order, `_` for the second)  ->  `if b { X } else { Y }`"""
    stack = [root]
    while stack:
        n = stack.pop()
        if isinstance(n, list):
            stack.extend(n)
            continue
        if not isinstance(n, dict):
            continue
        if n.get("k") == "Match" and n.get("src") == "Normal" and (n.get("scrut") or {}).get("ty") == "bool" and len(n.get("arms", [])) == 2 \
                and not any("guard" in a for a in n["arms"]):
            def lit(a):
                p = a.get("pat") or {}
                e = p.get("e") or {}
                if p.get("k") == "Expr" and e.get("k") == "Lit" and e.get("t") == "bool":
                    return bool(e.get("v"))
                return "_" if p.get("k") == "Wild" else None
            v0, v1 = lit(n["arms"][0]), lit(n["arms"][1])
            if v0 in (True, False) and (v1 == (not v0) or v1 == "_"):
                then, els = (n["arms"][0]["body"], n["arms"][1]["body"]) if v0 else (n["arms"][1]["body"], n["arms"][0]["body"])
                scrut = n["scrut"]
                keep = {k: n[k] for k in ("id", "ty", "sp", "mac") if k in n}
                n.clear()
                n.update(keep)
                n.update({"k": "If", "cond": scrut, "then": then, "else": els, "canon": "bool-match"})
        stack.extend(v for v in n.values() if isinstance(v, (dict, list)))


def annotate_lets(root):
    """give every use of an immutable, initialised `let x = e` binding a reference (`init`) to `e`: named booleans and hoisted
    sub-expressions can then be looked through by atoms()/eval3()/cmp_atom()/lit_int()/mentions() (never by walk(), so counts and
    statement order are unaffected)"""
    inits = {}
    minits = {}
    assigned = set()
    stack = [root]
    nodes_ = []
    while stack:
        n = stack.pop()
        if not isinstance(n, dict):
            continue
        nodes_.append(n)
        for v in n.values():
            if isinstance(v, dict):
                stack.append(v)
            elif isinstance(v, list):
                stack.extend(x for x in v if isinstance(x, dict))
    for n in nodes_:
        if n.get("k") == "Let" and "init" in n and "els" not in n:
            p = n.get("pat") or {}
            if p.get("k") == "Bind" and "Mut" not in (p.get("mode") or "") and "sub" not in p:
                inits[p["lid"]] = n["init"]
            elif p.get("k") == "Bind" and "sub" not in p:
                minits[p["lid"]] = n["init"]
            elif p.get("k") == "Tuple":
                # `let (a, b) = (x, y);` / `= { ..; (x, y) }`: element-wise
                src = peel(n["init"])
                while isinstance(src, dict) and src.get("k") == "Block" and "expr" in src:
                    src = peel(src["expr"])
                if isinstance(src, dict) and src.get("k") == "Tup" and len(src["elems"]) == len(p["pats"]):
                    for sub, el in zip(p["pats"], src["elems"]):
                        if sub.get("k") == "Bind" and "sub" not in sub:
                            if "Mut" not in (sub.get("mode") or ""):
                                inits[sub["lid"]] = el
                            else:
                                minits[sub["lid"]] = el
        if n.get("k") in ("Assign", "AssignOp"):
            l = n.get("l") or {}
            if l.get("k") == "Path" and l.get("res") == "local":
                assigned.add(l["lid"])
    for n in nodes_:
        if n.get("k") == "Path" and n.get("res") == "local" and n.get("lid") in inits and n["lid"] not in assigned:
            n["let_init"] = inits[n["lid"]]
        elif n.get("k") == "Path" and n.get("res") == "local" and n.get("lid") in minits:
            n["mut_init"] = minits[n["lid"]]       # initial value of a `let mut` (never looked through implicitly)


def deref_let(n, depth=6):
    """the initialiser an immutable let-bound local stands for (transitively), else the node itself"""
    n = peel(n)
    while depth > 0 and isinstance(n, dict) and n.get("k") == "Path" and n.get("res") == "local" and "let_init" in n:
        n = peel(n["let_init"])
        depth -= 1
    return n


def deref_all(n, depth=8):
    """look through casts / refs and immutable lets alternately until neither applies: the value expression a name stands for"""
    for _ in range(depth):
        n2 = deref_let(peel_casts(n))
        if n2 is n:
            break
        n = n2
    return peel_casts(n)


def walk_x(n, parents=(), _depth=0):
    """like walk(), but also descends into the initialiser of let-bound locals at their use sites (for `does this condition
    mention X` questions only)"""
    if not isinstance(n, dict):
        return
    yield n, parents
    p2 = parents + (n,)
    if n.get("k") == "Path" and "let_init" in n and _depth < 5:
        yield from walk_x(n["let_init"], p2, _depth + 1)
        return
    for c in children(n):
        yield from walk_x(c, p2, _depth)

CHILD_KEYS = ("f", "recv", "e", "l", "r", "cond", "then", "else", "scrut", "init", "body", "i",
              "base", "expr", "els", "guard", "sub", "pat")
LIST_KEYS = ("args", "elems", "stmts", "arms", "fields", "pats", "params", "before", "after")


def children(n):
    """child nodes of a HIR node in source order (statements, arms and fields included)"""
    if not isinstance(n, dict):
        return
    k = n.get("k")
    if k == "MethodCall":
        yield n["recv"]
        for a in n["args"]:
            yield a
        return
    if k == "Call":
        yield n["f"]
        for a in n["args"]:
            yield a
        return
    if k == "If":
        yield n["cond"]
        yield n["then"]
        if "else" in n:
            yield n["else"]
        return
    if k == "Index":
        yield n["e"]
        yield n["i"]
        return
    for key in ("scrut", "init", "pat", "cond", "e", "l", "r", "base"):
        v = n.get(key)
        if isinstance(v, dict):
            yield v
    for key in LIST_KEYS:
        v = n.get(key)
        if isinstance(v, list):
            for x in v:
                if isinstance(x, dict):
                    if "k" in x:
                        yield x
                    else:  # arm / field record
                        for kk in ("pat", "guard", "body", "e"):
                            if isinstance(x.get(kk), dict):
                                yield x[kk]
    for key in ("body", "expr", "els", "guard", "sub", "then", "else"):
        v = n.get(key)
        if isinstance(v, dict):
            yield v


def walk(n, parents=()):
    """pre-order traversal yielding (node, parents)"""
    if not isinstance(n, dict):
        return
    yield n, parents
    p2 = parents + (n,)
    for c in children(n):
        yield from walk(c, p2)


def nodes(n, kind=None):
    for x, _ in walk(n):
        if kind is None or x.get("k") == kind:
            yield x


def callee(n):
    """resolved callee path of a Call / MethodCall / overloaded operator node"""
    return n.get("resolved") or n.get("callee")


def declared_callee(n):
    return n.get("callee")


def is_call(n):
    return n.get("k") in ("Call", "MethodCall") and n.get("callee") is not None


def call_args(n):
    """receiver first for method calls"""
    if n.get("k") == "MethodCall":
        return [n["recv"]] + n["args"]
    return n.get("args", [])


def calls(n, suffix=None):
    for x, ps in walk(n):
        if is_call(x):
            if suffix is None or path_ends(callee(x), suffix) or path_ends(x.get("callee"), suffix):
                yield x, ps


def path_ends(p, suffix):
    if not p:
        return False
    if isinstance(suffix, (tuple, list, set, frozenset)):
        return any(path_ends(p, s) for s in suffix)
    p2 = _strip_generics(p)
    m = _QUAL.match(p2)
    if m:  # `<X as T>::m` also answers to `T::m` and `X::m`
        if path_ends(m.group(2) + "::" + m.group(3), suffix) or path_ends(m.group(1) + "::" + m.group(3), suffix):
            return True
    return p2 == suffix or p2.endswith("::" + suffix) or p2.endswith(" " + suffix) or p2.endswith("<" + suffix)


_QUAL = re.compile(r"^<(.+) as ([^<>]+)>::([^<>]+)$")


def _strip_generics(p):
    """drop generic argument lists (`Vec<T>`, `::<T>`), keep qualified selfs (`<X as Y>::f`)"""
    out = []
    stack = []
    for i, c in enumerate(p):
        if c == "<":
            prev = p[i - 1] if i > 0 else ""
            if i == 0 or prev in " (<,&":
                stack.append("Q")
                if "G" not in stack:
                    out.append(c)
            else:
                stack.append("G")
        elif c == ">" and stack and not (i > 0 and p[i - 1] == "-"):
            kind = stack.pop()
            if kind == "Q" and "G" not in stack:
                out.append(c)
        elif "G" not in stack:
            out.append(c)
    s = "".join(out)
    return s.replace("::::", "::")


def peel(n):
    """strip reference-taking, derefs, casts-to-same, single-expression blocks, parens"""
    while isinstance(n, dict):
        k = n.get("k")
        if k == "AddrOf":
            n = n["e"]
        elif k == "Unary" and n.get("op") == "Deref":
            n = n["e"]
        elif k == "Block" and not n.get("stmts") and "expr" in n:
            n = n["expr"]
        elif k == "MethodCall" and n.get("method") in ("clone", "borrow", "as_ref", "deref", "into", "to_owned") and not n["args"]:
            n = n["recv"]
        else:
            return n
    return n


def peel_casts(n):
    n = peel(n)
    while isinstance(n, dict) and n.get("k") == "Cast":
        n = peel(n["e"])
    while isinstance(n, dict) and n.get("k") == "MethodCall" and n.get("method") in ("into", "try_into", "unwrap") and not n["args"]:
        n = peel(n["recv"])
    return n


def local_name(n):
    n = peel(n)
    if isinstance(n, dict) and n.get("k") == "Path" and n.get("res") == "local":
        return n["name"]
    return None


def param_roles(f, spec):
    """role -> local id of the parameter of f whose type matches, independent of the parameter's NAME.  spec: {role: type test},
    a type test being a string (equality after dropping lifetimes / whitespace), or a callable(ty).  With several candidates the
    first unclaimed one in declaration order is taken; a role without candidate is absent from the result."""
    import re as _re
    norm = lambda t: _re.sub(r"'[a-z_]+ ?", "", (t or "").replace(" ", ""))
    out, used = {}, set()
    for role, test in spec.items():
        for p_ in (f.info.get("params") or []):
            if not isinstance(p_, dict) or p_.get("lid") in used:
                continue
            ty = p_.get("ty") or ""
            hit = test(ty) if callable(test) else norm(ty) == norm(test)
            if hit:
                out[role] = p_.get("lid")
                used.add(p_.get("lid"))
                break
    return out


def is_local(e, lid):
    """e is (a reference to / dereference of / let-alias of) the local with id lid"""
    seen = 0
    e = peel(e)
    while isinstance(e, dict) and seen < 8:
        if e.get("k") == "Path" and e.get("res") == "local":
            if e.get("lid") == lid:
                return True
            if "let_init" in e:
                e = peel(e["let_init"])
                seen += 1
                continue
            return False
        if e.get("k") in ("AddrOf", "Deref", "Unary") and "e" in e:
            e = peel(e["e"])
        else:
            return False
        seen += 1
    return False


def lit_int(n):
    """integer value of a literal / negated literal / evaluated const path, else None"""
    n = peel_casts(n)
    if not isinstance(n, dict):
        return None
    if n.get("k") == "Lit" and n.get("t") == "int":
        return int(n["v"])
    if n.get("k") == "Unary" and n.get("op") == "Neg":
        v = lit_int(n["e"])
        return -v if v is not None else None
    if n.get("k") == "Path" and n.get("res") == "def" and n.get("val") is not None:
        try:
            return int(n["val"])
        except Exception:
            return None
    if n.get("k") == "Path" and n.get("res") == "local" and "let_init" in n:
        return lit_int(n["let_init"])
    return None


def render(n, depth=0, x=False, subst=None, canon=False):
    """compact pseudo-source rendering for evidence and diagnostics; with x=True immutable let-bound locals are replaced by
    their initialisers (shape comparisons are then insensitive to hoisting a sub-expression into a `let`)"""
    if not isinstance(n, dict):
        return "?"
    if depth > (40 if (x or canon) else 14):
        return "…"
    k = n.get("k")
    r = lambda y: render(y, depth + 1, x, subst, canon)
    if canon:
        if k in ("AddrOf",) or (k == "Unary" and n.get("op") == "Deref") or k == "Cast" or k == "DropTemps":
            return r(n["e"])
        if k == "Binary" and n.get("op") in ("Add", "Mul", "And", "Or", "Eq", "Ne", "BitOr", "BitAnd"):
            a, b = sorted((r(n["l"]), r(n["r"])))
            return "(%s %s %s)" % (a, {"Add": "+", "Mul": "*", "And": "&&", "Or": "||", "Eq": "==", "Ne": "!=", "BitOr": "|", "BitAnd": "&"}[n["op"]], b)
        if k == "Block" and not n.get("stmts") and "expr" in n:
            return r(n["expr"])
        if k == "MethodCall" and n.get("method") == "len" and not n.get("args"):
            # the byte length of a string is the length of its bytes
            inner = peel(n["recv"])
            while isinstance(inner, dict) and inner.get("k") == "Path" and "let_init" in inner and x:
                inner = peel(inner["let_init"])
            if isinstance(inner, dict) and inner.get("k") == "MethodCall" and inner.get("method") in ("as_bytes", "as_str", "as_ref") and not inner.get("args"):
                return "%s.len()" % r(inner["recv"])
    if k == "Path":
        if n.get("res") == "local":
            if subst is not None and n.get("lid") in subst:
                return subst[n["lid"]]
            if x and "let_init" in n:
                return r(n["let_init"])
            return n["name"]
        p = n.get("path") or n.get("res")
        return short_path(p) if p else "?"
    if k == "Lit":
        v = n.get("v")
        return repr(v) if n.get("t") in ("str", "char") else str(v).lower() if n.get("t") == "bool" else str(v)
    if k == "Call":
        return "%s(%s)" % (short_path(n["callee"]) if n.get("callee") else r(n["f"]), ", ".join(r(a) for a in n["args"]))
    if k == "MethodCall":
        return "%s.%s(%s)" % (r(n["recv"]), n["method"], ", ".join(r(a) for a in n["args"]))
    if k == "Binary":
        ops = {"Add": "+", "Sub": "-", "Mul": "*", "Div": "/", "Rem": "%", "And": "&&", "Or": "||",
               "BitXor": "^", "BitAnd": "&", "BitOr": "|", "Shl": "<<", "Shr": ">>", "Eq": "==",
               "Lt": "<", "Le": "<=", "Ne": "!=", "Ge": ">=", "Gt": ">"}
        return "(%s %s %s)" % (r(n["l"]), ops.get(n["op"], n["op"]), r(n["r"]))
    if k == "Unary":
        return {"Deref": "*", "Not": "!", "Neg": "-"}.get(n["op"], n["op"]) + r(n["e"])
    if k == "Cast":
        return "%s as %s" % (r(n["e"]), n["ty"])
    if k == "Field":
        return "%s.%s" % (r(n["e"]), n["name"])
    if k == "Index":
        return "%s[%s]" % (r(n["e"]), r(n["i"]))
    if k == "AddrOf":
        return ("&mut " if n.get("mut") else "&") + r(n["e"])
    if k == "If":
        s = "if %s {%s}" % (r(n["cond"]), r(n["then"]))
        if "else" in n:
            s += " else {%s}" % r(n["else"])
        return s
    if k == "Block":
        parts = []
        for st in n.get("stmts", []):
            if st["k"] == "Let":
                parts.append("let %s%s" % (render_pat(st["pat"]), (" = " + r(st["init"])) if "init" in st else ""))
            else:
                parts.append(r(st["e"]))
        if "expr" in n:
            parts.append(r(n["expr"]))
        return "; ".join(parts)
    if k == "Ret":
        return "return " + (r(n["e"]) if "e" in n else "")
    if k == "Assign":
        return "%s = %s" % (r(n["l"]), r(n["r"]))
    if k == "AssignOp":
        return "%s %s= %s" % (r(n["l"]), n["op"], r(n["r"]))
    if k == "Match":
        if n.get("src") == "TryDesugar":
            sc = n["scrut"]
            if sc.get("k") == "Call" and sc["args"]:
                return r(sc["args"][0]) + "?"
        if n.get("src") == "ForLoopDesugar":
            return "for … in %s {…}" % r(n["scrut"]["args"][0] if n["scrut"].get("args") else n["scrut"])
        return "match %s {%s}" % (r(n["scrut"]), " | ".join(render_pat(a["pat"]) + " => " + r(a["body"]) for a in n["arms"]))
    if k == "Closure":
        return "|%s| %s" % (", ".join(render_pat(p) for p in n.get("params", [])), r(n["body"]))
    if k == "Struct":
        return "%s{%s}" % (short_path(n.get("path", "?")), ", ".join(
            "%s: %s" % (f["name"], r(f["e"]) if "e" in f else render_pat(f.get("pat", {}))) for f in n["fields"]))
    if k == "Tup":
        return "(%s)" % ", ".join(r(x) for x in n["elems"])
    if k == "Array":
        return "[%s]" % ", ".join(r(x) for x in n["elems"])
    if k == "Loop":
        return "loop {%s}" % r(n["body"])
    if k == "LetExpr":
        return "let %s = %s" % (render_pat(n["pat"]), r(n["init"]))
    if k in ("Break", "Continue"):
        return k.lower()
    if k == "BreakValue":
        return "helper-return " + (r(n["e"]) if "e" in n else "")
    return k or "?"


def render_pat(p):
    k = p.get("k")
    if k == "Bind":
        return p["name"]
    if k == "Wild":
        return "_"
    if k == "TupleStruct":
        return "%s(%s)" % (short_path(p.get("path", "?")).split("::")[-1], ", ".join(render_pat(x) for x in p["pats"]))
    if k == "Tuple":
        return "(%s)" % ", ".join(render_pat(x) for x in p["pats"])
    if k == "Struct":
        return "%s{..}" % short_path(p.get("path", "?")).split("::")[-1]
    if k == "Ref":
        return "&" + render_pat(p["pat"])
    if k == "Expr":
        return render(p["e"])
    if k == "Or":
        return " | ".join(render_pat(x) for x in p["pats"])
    return k or "?"


# ---- divergence / guards ---------------------------------------------------------------

PANIC_MACROS = {"panic", "todo", "unimplemented", "unreachable", "assert", "assert_eq", "assert_ne"}


def diverges(n):
    """does control never fall out of the bottom of this node"""
    if not isinstance(n, dict):
        return False
    k = n.get("k")
    if k in ("Ret", "Break", "Continue", "BreakValue"):
        return True
    if k == "Block" and n.get("inl"):
        # an inlined helper body: leaving it with its value (BreakValue) is not leaving the enclosing function
        return _diverges_real(n)
    if n.get("ty") == "!":
        return True
    if k == "Block":
        for st in n.get("stmts", []):
            if st["k"] in ("Expr", "Semi") and diverges(st["e"]):
                return True
            if st["k"] == "Let" and "init" in st and "els" not in st and diverges(st["init"]):
                return True
        return "expr" in n and diverges(n["expr"])
    if k == "If":
        return "else" in n and diverges(n["then"]) and diverges(n["else"])
    if k == "Match":
        if n.get("src") in ("TryDesugar", "ForLoopDesugar"):
            return False
        return bool(n["arms"]) and all(diverges(a["body"]) for a in n["arms"])
    return False


def _diverges_real(n):
    """control never falls out of the bottom of n AND never leaves it through a BreakValue (helper `return`)"""
    if not isinstance(n, dict):
        return False
    if any(x.get("k") == "BreakValue" for x, _ in walk(n)):
        return False
    k = n.get("k")
    if k == "Block":
        for st in n.get("stmts", []):
            if st["k"] in ("Expr", "Semi") and diverges(st["e"]):
                return True
            if st["k"] == "Let" and "init" in st and "els" not in st and diverges(st["init"]):
                return True
        return "expr" in n and diverges(n["expr"])
    return diverges(n)


def exit_kind(n):
    """how a diverging branch leaves: 'err' (return Err / ?-style), 'ok' (return Ok),
    'ret' (other return), 'continue', 'break', 'panic'"""
    kinds = []
    for x, _ in walk(n):
        k = x.get("k")
        if k == "Closure":
            continue
        if k == "Ret":
            e = peel(x.get("e")) if "e" in x else None
            if e and e.get("k") == "Call" and path_ends(e.get("callee"), ("Result::Err", "Err")):
                kinds.append("err")
            elif e and e.get("k") in ("Call", "MethodCall") and path_ends(e.get("callee") or e.get("resolved") or "", ("DicCompilationCtx::err",)):
                kinds.append("err")
            elif e and e.get("k") == "Call" and path_ends(e.get("callee"), ("Result::Ok", "Ok")):
                kinds.append("ok")
            elif e and e.get("k") == "Path" and path_ends(e.get("path"), ("Option::None", "None")):
                kinds.append("none")
            else:
                kinds.append("ret")
        elif k == "BreakValue":
            kinds.append("helper-ret")
        elif k == "Continue":
            kinds.append("continue")
        elif k == "Break":
            kinds.append("break")
        elif x.get("ty") == "!" and k in ("Call", "MethodCall"):
            kinds.append("panic")
    return kinds[0] if kinds else None


CMP_OPS = {"Lt", "Le", "Gt", "Ge", "Eq", "Ne"}
NEG = {"Lt": "Ge", "Le": "Gt", "Gt": "Le", "Ge": "Lt", "Eq": "Ne", "Ne": "Eq"}
SWAP = {"Lt": "Gt", "Le": "Ge", "Gt": "Lt", "Ge": "Le", "Eq": "Eq", "Ne": "Ne"}


def atoms(cond, positive=True):
    """decompose a boolean condition into (atom, polarity) conjuncts that are *implied*
    when `cond` evaluates to `positive`.  a && b true => both; a || b false => both false."""
    cond = peel(cond)
    if not isinstance(cond, dict):
        return []
    k = cond.get("k")
    if k == "Path" and cond.get("res") == "local" and "let_init" in cond and cond.get("ty") == "bool":
        return atoms(cond["let_init"], positive)
    if k == "Unary" and cond.get("op") == "Not":
        return atoms(cond["e"], not positive)
    if k == "Binary" and cond.get("op") == "And" and positive:
        return atoms(cond["l"], True) + atoms(cond["r"], True)
    if k == "Binary" and cond.get("op") == "Or" and not positive:
        return atoms(cond["l"], False) + atoms(cond["r"], False)
    return [(cond, positive)]


def path_conditions(target_id, root):
    """conditions known to hold when control reaches the node with hir id `target_id` inside
    `root`: enclosing if/else polarity, match-arm patterns (reported as ('arm', scrut, pat)),
    and earlier sibling statements of the form `if c { diverge }` (c is false afterwards).
    Returns list of (cond_node, polarity) or None if the node is not found."""
    res = _pc(root, target_id, [])
    return res


def _pc(n, tid, acc):
    if not isinstance(n, dict):
        return None
    if n.get("id") == tid:
        return list(acc)
    k = n.get("k")
    if k == "If":
        r = _pc(n["cond"], tid, acc)
        if r is not None:
            return r
        r = _pc(n["then"], tid, acc + [(n["cond"], True)])
        if r is not None:
            return r
        if "else" in n:
            r = _pc(n["else"], tid, acc + [(n["cond"], False)])
            if r is not None:
                return r
        return None
    if k == "Block":
        cur = list(acc)
        for st in n.get("stmts", []):
            if st["k"] == "Let":
                if "init" in st:
                    r = _pc(st["init"], tid, cur)
                    if r is not None:
                        return r
                if "els" in st:
                    r = _pc(st["els"], tid, cur)
                    if r is not None:
                        return r
                if "init" in st:
                    cur = cur + _survive(st["init"], False)
                continue
            e = st["e"]
            r = _pc(e, tid, cur)
            if r is not None:
                return r
            # `if c { diverge }` => !c afterwards ; `if c {..} else { diverge }` => c afterwards
            cur = cur + _survive(e, False)
        if "expr" in n:
            return _pc(n["expr"], tid, cur)
        return None
    if k == "Match" and n.get("src") == "ForLoopDesugar":
        # the body runs only for elements that pass the `.filter(pred)` adaptors of the iterated expression
        r = _pc(n["scrut"], tid, acc)
        if r is not None:
            return r
        it = n["scrut"]["args"][0] if n["scrut"].get("args") else n["scrut"]
        extra = _filter_conds(it)
        for a in n["arms"]:
            r = _pc(a["body"], tid, acc + extra)
            if r is not None:
                return r
        return None
    if k == "MethodCall" and n.get("method") in ("for_each", "try_for_each", "fold", "try_fold", "map", "all", "any", "find", "position", "filter_map", "find_map"):
        r = _pc(n["recv"], tid, acc)
        if r is not None:
            return r
        extra = _filter_conds(n["recv"])
        for a in n["args"]:
            r = _pc(a, tid, acc + extra)
            if r is not None:
                return r
        return None
    if k == "Match":
        r = _pc(n["scrut"], tid, acc)
        if r is not None:
            return r
        for a in n["arms"]:
            extra = [(("arm", n["scrut"], a["pat"]), True)]
            if "guard" in a:
                r = _pc(a["guard"], tid, acc + extra)
                if r is not None:
                    return r
                extra.append((a["guard"], True))
            r = _pc(a["body"], tid, acc + extra)
            if r is not None:
                return r
        return None
    if k == "Binary" and n.get("op") in ("And", "Or"):
        r = _pc(n["l"], tid, acc)
        if r is not None:
            return r
        return _pc(n["r"], tid, acc + [(n["l"], n["op"] == "And")])
    for c in children(n):
        r = _pc(c, tid, acc)
        if r is not None:
            return r
    return None


def _survive(e, inl, depth=0):
    """conditions that hold once control has passed expression `e` (a statement, or the initialiser of a let): the negation of
    every guard in it that leaves the enclosing code.  Inside an inlined helper block (inl=True) only guards that leave the
    FUNCTION count — a helper `return` (BreakValue) hands control back to the code after the block."""
    e = peel(e)
    if not isinstance(e, dict) or depth > 6:
        return []
    k = e.get("k")
    div = _diverges_real if inl else diverges
    if k == "If":
        if div(e["then"]) and not ("else" in e and div(e["else"])):
            return [(e["cond"], False)]
        if "else" in e and div(e["else"]):
            return [(e["cond"], True)]
        if "else" not in e:
            # `if A { if B { leave } }`: afterwards !(A && B)  (one nested guard only; expressed as a synthetic conjunction)
            inner = _survive(e["then"], inl, depth + 1)
            if len(inner) == 1 and isinstance(inner[0][0], dict):
                b_, pol_ = inner[0]
                rhs = b_ if pol_ is False else {"k": "Unary", "op": "Not", "e": b_, "ty": "bool"}
                return [({"k": "Binary", "op": "And", "l": e["cond"], "r": rhs, "ty": "bool", "synthetic": True}, False)]
        return []
    if k == "Block" and (e.get("inl") or inl or depth == 0 or True):
        inl2 = inl or bool(e.get("inl"))
        out = []
        for st in e.get("stmts", []):
            if st["k"] == "Let":
                if "init" in st and "els" not in st:
                    out += _survive(st["init"], inl2, depth + 1)
            elif isinstance(st.get("e"), dict):
                out += _survive(st["e"], inl2, depth + 1)
        if "expr" in e:
            out += _survive(e["expr"], inl2, depth + 1)
        return out
    if k == "Match" and e.get("src") == "TryDesugar":
        sc = e["scrut"]
        return _survive(sc["args"][0], inl, depth + 1) if isinstance(sc, dict) and sc.get("args") else []
    return []


def _filter_conds(it):
    """[(predicate body, True)] for every `.filter(|x| pred)` in the adaptor chain of iterator expression `it` (through hoisted lets)"""
    out = []
    e = deref_let(it)
    d = 0
    while isinstance(e, dict) and e.get("k") == "MethodCall" and d < 12:
        if e.get("method") == "filter" and e.get("args"):
            clo = peel(e["args"][0])
            if isinstance(clo, dict) and clo.get("k") == "Closure":
                out.append((clo["body"], True))
        e = deref_let(e["recv"])
        d += 1
    return out


def find_by_id(root, tid):
    for x, ps in walk(root):
        if x.get("id") == tid:
            return x, ps
    return None, None


def stmts_before(root, tid):
    """statements (expr nodes) that execute before node `tid` in the enclosing blocks, outermost
    first; used for 'X is called before Y' ordering rules at HIR level"""
    x, ps = find_by_id(root, tid)
    if x is None:
        return None
    out = []
    chain = list(ps) + [x]
    for i, p in enumerate(chain[:-1]):
        if p.get("k") == "Block":
            nxt = chain[i + 1]
            for st in p.get("stmts", []):
                inner = st.get("e") or st.get("init")
                if inner is nxt or (st.get("k") == "Let" and (st.get("init") is nxt or st.get("els") is nxt)):
                    break
                out.append(st)
    return out
