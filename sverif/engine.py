"""Rule engine: obligations, floors, known findings, evidence, replay files."""
import hashlib
import importlib
import json
import os
import sys
import time
import traceback

from .db import DB, AnchorMissing, short_path
from . import facts

VERIF = facts.VERIF

CLAIMED = ["C01", "C02", "C03", "C04", "C05", "C06", "C07", "C08", "C09", "C10", "C11", "C12",
           "C13", "C14", "C15", "C16", "C17", "C18", "C19", "C20"]


class Ob:
    __slots__ = ("rule", "inst", "ok", "what", "fn", "site", "detail", "nontrivial", "kind", "sig")

    def __init__(self, rule, inst, ok, what, fn=None, site=None, detail=None, nontrivial=True, kind="rule", sig=None):
        self.sig = sig
        self.rule = rule
        self.inst = inst
        self.ok = ok
        self.what = what
        self.fn = fn
        self.site = site
        self.detail = detail
        self.nontrivial = nontrivial
        self.kind = kind

    @property
    def key(self):
        return "%s|%s" % (self.rule, self.inst)

    def to_json(self):
        d = {"rule": self.rule, "key": self.key, "ok": self.ok, "what": self.what}
        if self.fn:
            d["fn"] = self.fn
        if self.site:
            d["site"] = self.site
        if self.detail is not None:
            d["detail"] = self.detail
        if self.kind != "rule":
            d["kind"] = self.kind
        if self.sig is not None:
            d["sig"] = self.sig
        return d


class Ctx:
    def __init__(self, db, prop, tier="quick"):
        self.db = db
        self.prop = prop
        self.tier = tier
        self.obs = []
        self.floors = {}
        self.rule_docs = {}
        self.analysed_fns = set()
        self._cur = None

    def ob(self, inst, ok, what, fn=None, site=None, detail=None, nontrivial=True, rule=None, sig=None):
        r = rule or self._cur
        fk = None
        if fn is not None:
            fk = fn.key if hasattr(fn, "key") else str(fn)
            self.analysed_fns.add(fk)
            if site is None and hasattr(fn, "span"):
                site = fn.span
        self.obs.append(Ob(r, inst, bool(ok), what, fk, site, detail, nontrivial, sig=sig))
        return bool(ok)

    def touch(self, fn):
        self.analysed_fns.add(fn.key)

    def floor(self, n, rule=None):
        self.floors[rule or self._cur] = n

    def run_rule(self, name, doc, func):
        self._cur = name
        self.rule_docs[name] = doc
        try:
            func(self.db, self)
        except AnchorMissing as e:
            self.obs.append(Ob(name, "anchor-missing|%s" % e.anchor, False,
                               "rule %s: anchor %s not found %s — the rule fails closed" % (name, e.anchor, e.why),
                               kind="anchor-missing"))
        except Exception as e:  # unrecognised shape: fail closed, with the trace for triage
            tb = traceback.format_exc()
            self.obs.append(Ob(name, "checker-exception|%s" % type(e).__name__, False,
                               "rule %s raised %s: %s" % (name, type(e).__name__, e), detail=tb[-1500:],
                               kind="checker-exception"))
        finally:
            self._cur = None

    def finish_floors(self):
        counts = {}
        for o in self.obs:
            if o.kind == "rule":
                counts[o.rule] = counts.get(o.rule, 0) + 1
        for r, n in self.floors.items():
            if counts.get(r, 0) < n:
                self.obs.append(Ob(r, "floor", False,
                                   "rule %s matched %d instances, floor is %d (confirmed by hand on the pinned tree): "
                                   "the rule would pass vacuously" % (r, counts.get(r, 0), n), kind="floor"))


RULES = {}


def rule(name, doc):
    prop = name.split(".")[0]

    def deco(f):
        RULES.setdefault(prop, []).append((name, doc, f))
        return f
    return deco


def load_known():
    p = os.path.join(VERIF, "known_findings.jsonl")
    known, fixed = {}, {}
    if os.path.exists(p):
        for line in open(p):
            line = line.strip()
            if not line or line.startswith("#"):
                continue
            e = json.loads(line)
            if e.get("status") == "known":
                known[e["key"]] = e
            else:
                fixed[e["key"]] = e
    return known, fixed


PROP_META = {}


def run_property(prop, repo="/repo", tier="quick", crates=None, meta=None, quiet=False):
    """returns (exit_code, evidence dict, violations list)"""
    t0 = time.time()
    if crates is None:
        crates, meta = facts.get_facts(repo)
    meta = dict(meta or {}, repo=repo)
    db = DB(crates, meta)
    mod = importlib.import_module("sverif.rules." + prop)
    ctx = Ctx(db, prop, tier)
    for (name, doc, f) in RULES.get(prop, []):
        ctx.run_rule(name, doc, f)
    ctx.finish_floors()
    known, fixed = load_known()
    violations, known_hits = [], []
    for o in ctx.obs:
        if not o.ok:
            # a known finding suppresses exactly one failure: same key AND same failure signature
            if o.key in known and (known[o.key].get("sig") is None or known[o.key].get("sig") == o.sig):
                known_hits.append((o, known[o.key]))
            else:
                violations.append(o)
    out = []
    for o, e in known_hits:
        out.append("KNOWN-FINDING: property=%s %s [%s]" % (prop, e.get("what", o.what), o.key))
    replay_dir = os.path.join(VERIF, "replays")
    if violations:
        os.makedirs(replay_dir, exist_ok=True)
    for o in violations:
        hk = hashlib.sha1(o.key.encode()).hexdigest()[:10]
        rp = os.path.join(replay_dir, "%s-%s.json" % (prop, hk))
        with open(rp, "w") as fh:
            json.dump({"property": prop, "repo": repo, **o.to_json()}, fh, indent=1)
        out.append("VIOLATION property=%s replay=%s" % (prop, rp))
        out.append("  rule=%s fn=%s site=%s" % (o.rule, o.fn or "-", o.site or "-"))
        out.append("  %s" % o.what)
    pm = getattr(mod, "META", {})
    rule_obs = [o for o in ctx.obs if o.kind == "rule"]
    distinct = {o.key for o in rule_obs if o.nontrivial}
    per_rule = {}
    for o in rule_obs:
        d = per_rule.setdefault(o.rule, {"instances": 0, "ok": 0, "floor": ctx.floors.get(o.rule)})
        d["instances"] += 1
        d["ok"] += 1 if o.ok else 0
    samples = []
    seen_rules = set()
    for o in rule_obs:  # one sample per rule first, then failures
        if o.rule not in seen_rules:
            seen_rules.add(o.rule)
            samples.append(o.to_json())
    for o in ctx.obs:
        if not o.ok:
            samples.append(o.to_json())
    ev = {
        "property_id": prop,
        "tier": tier,
        "seed": int(os.environ.get("VERIF_SEED", "0") or 0),
        "level": "other",
        "coverage": {
            "explanation": pm.get("explanation", ""),
            "decided_clauses": pm.get("decided", []),
            "not_decided": pm.get("not_decided", []),
            "evaluations": len(rule_obs),
            "distinct_nontrivial": len(distinct),
            "rule": "one evaluation = one rule instance (a call site, guard, field, function or sibling pair "
                    "selected by role from the type-checked program); it is non-trivial when at least one slot was "
                    "filled from a program fact (resolved callee, operator, constant value, field, dominator); "
                    "distinct = distinct line-free instance keys",
            "obligations": len(rule_obs),
            "discharged": sum(1 for o in rule_obs if o.ok),
            "known_findings_reported": [o.key for o, _ in known_hits],
            "checker_cmd": "./check %s%s" % (prop, " --thorough" if tier == "thorough" else ""),
            "trusted_base": pm.get("trusted", []) + [
                "rustc nightly type checking / MIR construction (facts come from the compiler's own HIR+typeck and MIR)",
                "the sfacts driver's serialisation", "the frozen seed/idiom tables inside the rule"],
            "rules": {r: dict(doc=ctx.rule_docs.get(r, ""), **per_rule.get(r, {"instances": 0, "ok": 0}))
                      for r in ctx.rule_docs},
            "analysed": {
                "tree_hash": (meta or {}).get("tree_hash"),
                "source_files_hashed": (meta or {}).get("source_files_hashed"),
                "bodies_per_package": (meta or {}).get("bodies_per_package"),
                "functions_inspected_by_rules": len(ctx.analysed_fns),
                "renamed_functions": {k: v for k, v in sorted((getattr(db, "renamed", None) or {}).items())},
                "renamed_fields": getattr(db, "renamed_fields", None) or {},
                "functions": sorted(short_path(k) for k in ctx.analysed_fns)[:80],
            },
            "samples": samples[:60],
            "exhaustive": False,
        },
        "assumptions": pm.get("assumptions", []),
        "wall_s": round(time.time() - t0, 3),
        "violations": len(violations),
    }
    code = 1 if violations else 0
    return code, ev, out, ctx


def write_evidence(prop, ev):
    d = os.path.join(VERIF, "evidence")
    os.makedirs(d, exist_ok=True)
    p = os.path.join(d, prop + ".json")
    tmp = p + ".%d" % os.getpid()
    with open(tmp, "w") as fh:
        json.dump(ev, fh, indent=1, ensure_ascii=False)
    os.replace(tmp, p)
    return p
