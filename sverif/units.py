"""E3 — index-space inference (units of measure) over typed HIR.

Spaces:  MB byte offset in the normalised (modified) text      MC code-point offset in the normalised text (lattice positions)
         OB byte offset in the original text                   OC code-point offset in the original text
A seed table assigns spaces to API signatures, struct fields and offset tables; expressions inherit spaces through casts,
let-bindings, for/enumerate patterns, +/- (offset +/- length keeps the space) and Range construction.  Only DEFINITE conflicts
are reported: a value of known space X used where a seed requires Y != X, or +,-,comparison of two different known spaces.
Unknown never alarms."""
from .db import walk, peel, peel_casts, render, callee, path_ends, short_path, is_call, call_args, lit_int, local_name
from .origins import index as oindex, for_loop_parts, pat_bindings, unwrap_try

MB, MC, OB, OC = "MB", "MC", "OB", "OC"

# callee suffix -> (return space, {arg index (receiver = 0): required space}); Range-typed values carry the space of their ends
CALLS = {
    "InputBuffer::to_orig_byte_idx": (OB, {1: MC}),
    "InputBuffer::to_orig_char_idx": (OC, {1: MC}),
    "InputBuffer::to_curr_byte_idx": (MB, {1: MC}),
    "InputBuffer::ch_idx": (MC, {1: MB}),
    "InputBuffer::get_original_index": (OB, {1: MB}),
    "InputBuffer::can_bow": (None, {1: MB}),
    "InputBuffer::curr_slice_c": (None, {1: MC}),
    "InputBuffer::orig_slice_c": (None, {1: MC}),
    "InputBuffer::get_word_candidate_length": (MC, {1: MC}),
    "InputTextIndex::orig_slice": (None, {1: MB}),
    "InputTextIndex::curr_slice": (None, {1: MB}),
    "InputTextIndex::to_orig": (OB, {1: MB}),
    "InputTextIndex::cat_of_range": (None, {1: MC}),
    "InputTextIndex::cat_at_char": (None, {1: MC}),
    "InputTextIndex::cat_continuous_len": (MC, {1: MC}),
    "InputTextIndex::char_distance": (MC, {1: MC}),
    "LatticeNode::begin": (MC, {}),
    "LatticeNode::end": (MC, {}),
    "LatticeNode::char_range": (MC, {}),
    "LatticeNode::num_codepts": (MC, {}),
    "ResultNode::begin_bytes": (MB, {}),
    "ResultNode::end_bytes": (MB, {}),
    "ResultNode::bytes_range": (MB, {}),
    "ResultNode::set_bytes_range": (None, {1: MB, 2: MB}),
    "ResultNode::set_char_range": (None, {1: MC, 2: MC}),
    "inner::Node::new": (None, {0: MC, 1: MC}),
    "ResultNode::new": (None, {2: MB, 3: MB}),
    "analysis::morpheme::Morpheme::begin": (OB, {}),
    "analysis::morpheme::Morpheme::end": (OB, {}),
    "analysis::morpheme::Morpheme::begin_c": (OC, {}),
    "analysis::morpheme::Morpheme::end_c": (OC, {}),
    # Python boundary: begin()/end() are code points of the original text
    "morpheme::PyMorpheme::begin": (OC, {}),
    "morpheme::PyMorpheme::end": (OC, {}),
    "OovProviderPlugin::provide_oov": (None, {2: MC}),
    "WordInfo::head_word_length": (MB, {}),
    "Lattice::has_previous_node": (None, {1: MC}),
    "LexiconSet::lookup": (None, {2: MB}),
    "Lexicon::lookup": (None, {2: MB}),
    "Lattice::reset": (None, {}),
    # created-word bookkeeping counts code points of the normalised text; regex / automaton matches are byte offsets into it
    "created::CreatedWords::has_word": (None, {1: MC}),
    "created::CreatedWords::add_word": (None, {1: MC}),
    "created::CreatedWords::single": (None, {0: MC}),
    "regex::Match::start": (MB, {}), "regex::Match::end": (MB, {}), "regex::Match::range": (MB, {}), "regex::Match::len": (MB, {}),
    "fancy_regex::Match::start": (MB, {}), "fancy_regex::Match::end": (MB, {}), "fancy_regex::Match::range": (MB, {}),
    "sentence_detector::prohibited_bos": (MB, {}),
    "aho_corasick::Match::start": (MB, {}), "aho_corasick::Match::end": (MB, {}), "aho_corasick::Match::range": (MB, {}),
    # Python slices of the original str are in code points
    "PySlice::new": (None, {1: OC, 2: OC}),
}
# (adt suffix, field) -> space of the value stored in the field
FIELDS = {
    ("node::ResultNode", "begin_bytes"): MB, ("node::ResultNode", "end_bytes"): MB,
    ("node::NodeSplitIterator", "byte_offset"): MB, ("node::NodeSplitIterator", "byte_end"): MB,
    ("node::NodeSplitIterator", "char_offset"): MC, ("node::NodeSplitIterator", "char_end"): MC,
    ("lexicon::LexiconEntry", "end"): MB,
    ("inner::Node", "begin"): MC, ("inner::Node", "end"): MC,
    ("edit::ReplaceOp", "what"): MB,
}
# offset tables of InputBuffer: field -> (index space, element space)
TABLES = {
    "m2o": (MB, OB), "mod_c2b": (MC, MB), "mod_b2c": (MB, MC), "m2o_2": (OB, OC), "mod_bow": (MB, None),
    "mod_chars": (MC, None), "mod_cat": (MC, None), "mod_cat_continuity": (MC, MC),
}
TEXTS = {"original": OB, "modified": MB}   # str fields of InputBuffer: slice index space
# functions in which m2o_2 is scratch storage (it holds the *new* MB->OB map being built)
SCRATCH_FNS = ("InputBuffer::commit", "edit::resolve_edits", "edit::add_replace")
# parameters that are offset tables / texts: (fn suffix, param name) -> (index space, element space)
PARAM_TABLES = {
    ("edit::resolve_edits", "source_mapping"): (MB, OB), ("edit::add_replace", "source_mapping"): (MB, OB),
    ("edit::resolve_edits", "source"): (MB, None),
}
# growable out-parameters: (fn suffix, param name) -> space every pushed / extended value must have
PARAM_SINKS = {
    ("edit::resolve_edits", "target_mapping"): OB, ("edit::add_replace", "target_mapping"): OB,
}
# parameter seeds: (fn key suffix, param name) -> space
PARAMS = {
    ("InputBuffer::to_orig_byte_idx", "index"): MC, ("InputBuffer::to_orig_char_idx", "index"): MC,
    ("InputBuffer::to_curr_byte_idx", "index"): MC, ("InputBuffer::ch_idx", "idx"): MB,
    ("InputBuffer::get_original_index", "index"): MB, ("InputBuffer::can_bow", "offset"): MB,
    ("InputBuffer::curr_slice_c", "data"): MC, ("InputBuffer::orig_slice_c", "data"): MC,
    ("InputBuffer::get_word_candidate_length", "char_idx"): MC,
    ("InputTextIndex>::orig_slice", "range"): MB, ("InputTextIndex>::curr_slice", "range"): MB, ("InputTextIndex>::to_orig", "range"): MB,
    ("InputTextIndex>::cat_of_range", "range"): MC, ("InputTextIndex>::cat_at_char", "offset"): MC,
    ("InputTextIndex>::cat_continuous_len", "offset"): MC, ("InputTextIndex>::char_distance", "cpt"): MC,
    ("OovProviderPlugin>::provide_oov", "offset"): MC, ("MeCabOovPlugin::provide_oov_gen", "offset"): MC,
    ("MeCabOovPlugin::get_oov_node", "start"): MC, ("MeCabOovPlugin::get_oov_node", "end"): MC,
    ("LatticeBuilder::provide_oovs", "char_offset"): MC,
    ("edit::add_replace", "what"): MB,
    ("InputEditor::replace_ref", "range"): MB, ("InputEditor::replace_char", "range"): MB, ("InputEditor::replace_own", "range"): MB,
    ("InputEditor::replace_char_iter", "range"): MB,
}


class Units:
    def __init__(self, db, f):
        self.db = db
        self.f = f
        self.b = oindex(db).bindings(f)
        self.cache = {}
        self.conflicts = []
        self.reached = 0
        self.scratch = any(f.short().endswith(s) for s in SCRATCH_FNS)
        # plain-&str code (sentence detection works on the raw text, no offset tables): there str::len() is a byte length and
        # chars().count() a number of code points
        self.plain_str = "::sentence_detector::" in f.key or "::sentence_splitter::" in f.key

    # -- seeds ------------------------------------------------------------------
    def call_seed(self, n):
        c = n.get("resolved"), n.get("callee")
        for cal in c:
            if not cal:
                continue
            for suf, v in CALLS.items():
                if path_ends(cal, suf):
                    return suf, v
        return None, None

    def field_space(self, n):
        adt = n.get("adt") or ""
        for (a, fl), sp in FIELDS.items():
            if adt.endswith(a) and n["name"] == fl:
                return sp
        return None

    def table_of(self, base):
        """base expr of an Index: InputBuffer offset table or text, or a seeded table parameter"""
        b = peel(base)
        if b.get("k") == "Path" and b.get("res") == "local":
            for (suf, nm), sp in PARAM_TABLES.items():
                if b["name"] == nm and path_ends(self.f.key, suf):
                    return ("ptable", (suf, nm))
        if b.get("k") == "Field" and (b.get("adt") or "").endswith("buffer::InputBuffer"):
            if b["name"] in TABLES:
                if b["name"] == "m2o_2" and self.scratch:
                    return None
                return ("table", b["name"])
            if b["name"] in TEXTS:
                return ("text", b["name"])
        return None

    # -- inference ---------------------------------------------------------------
    def space(self, e, depth=0):
        if not isinstance(e, dict) or depth > 12:
            return None
        key = id(e)
        if key in self.cache:
            return self.cache[key]
        self.cache[key] = None
        s = self._space(e, depth)
        self.cache[key] = s
        return s

    def _space(self, e, depth):
        e = unwrap_try(peel_casts(e))
        k = e.get("k")
        if k == "Call" and path_ends(e.get("callee") or "", ("Result::Ok", "Ok", "Option::Some", "Some")) and e.get("args"):
            return self.space(e["args"][0], depth + 1)
        if k in ("If", "Match", "Block") and e.get("src") not in ("ForLoopDesugar",):
            vals = {self.space(x, depth + 1) for x in self._tails(e)}
            vals.discard(None)
            return vals.pop() if len(vals) == 1 else None
        if k in ("Call", "MethodCall"):
            suf, v = self.call_seed(e)
            if v and v[0]:
                return v[0]
            if self.plain_str and k == "MethodCall":
                chain = []
                cur = e
                while isinstance(cur, dict) and cur.get("k") == "MethodCall":
                    chain.append(cur["method"])
                    cur = peel(cur["recv"])
                if e["method"] == "count" and ("chars" in chain or "char_indices" in chain):
                    return MC
                if e["method"] == "len" and (e.get("rty") or "").replace("&", "").strip() in ("str", "std::string::String", "String", "'_ str"):
                    return MB
                if e["method"] == "len_utf8":
                    return MB
            if k == "MethodCall" and e.get("method") in ("min", "max", "clone", "saturating_sub", "saturating_add", "wrapping_sub", "start", "end", "len") and e.get("method") != "len":
                return self.space(e["recv"], depth + 1)
            if k == "MethodCall" and e.get("method") in ("start", "end") or (k == "MethodCall" and e.get("method") in ("range",)):
                return self.space(e["recv"], depth + 1)
            if k == "MethodCall" and e.get("method") == "len" and "Range<" in (e.get("rty") or ""):
                return self.space(e["recv"], depth + 1)      # the length of a range of positions is a distance in the same space
            return None
        if k == "Field":
            fs = self.field_space(e)
            if fs:
                return fs
            if e["name"] in ("start", "end"):   # Range<..>.start/.end keep the range's space
                return self.space(e["e"], depth + 1)
            return None
        if k == "Index":
            t = self.table_of(e["e"])
            if t and t[0] == "table":
                return TABLES[t[1]][1]
            if t and t[0] == "ptable":
                # indexing with a Range yields a sub-table, with a scalar an element: both carry the element space
                return PARAM_TABLES[t[1]][1]
            return None
        if k == "Binary" and e.get("op") in ("Add", "Sub"):
            a, b = self.space(e["l"], depth + 1), self.space(e["r"], depth + 1)
            if a and b and a != b:
                self.conflicts.append((e, "arithmetic mixes %s and %s" % (a, b)))
                return None
            return a or b
        if k == "Struct" and (e.get("path") or "").split("::")[-1] in ("Range", "RangeInclusive", "RangeFrom", "RangeTo"):
            sp = [self.space(x["e"], depth + 1) for x in e["fields"]]
            sp = [x for x in sp if x]
            if len(set(sp)) > 1:
                self.conflicts.append((e, "range bounds in different spaces %s" % sp))
                return None
            return sp[0] if sp else None
        if k == "Path" and e.get("res") == "local":
            return self.local_space(e, depth)
        return None

    def _tails(self, e):
        e = peel(e)
        if not isinstance(e, dict):
            return []
        k = e.get("k")
        if k == "Block":
            return self._tails(e["expr"]) if "expr" in e else []
        if k == "If":
            return self._tails(e["then"]) + (self._tails(e["else"]) if "else" in e else [])
        if k == "Match" and e.get("src") not in ("ForLoopDesugar", "TryDesugar"):
            out = []
            for a in e["arms"]:
                out += self._tails(a["body"])
            return out
        if k == "Ret":
            return []
        return [e]

    def local_space(self, e, depth):
        bd = self.b.get(e["lid"])
        if bd is None:
            return None
        kind = bd[0]
        if kind == "param":
            for (suf, nm), sp in PARAMS.items():
                if e["name"] == nm and (self.f.key.endswith(suf) or short_path(self.f.key).endswith(suf) or suf in self.f.key):
                    return sp
            return None
        if kind == "let" and bd[1] is not None:
            pat = bd[2]
            if pat.get("k") == "Bind":
                return self.space(bd[1], depth + 1)
            return None
        if kind == "for":
            it, pat = bd[1], bd[2]
            return self.for_binding_space(it, pat, e["lid"], depth)
        return None

    def for_binding_space(self, it, pat, lid, depth):
        """`for (i, &x) in TABLE.iter().enumerate()` -> i: index space, x: element space; `for i in a..b` -> space of the bounds"""
        it = peel(it)
        names = []
        cur = it
        while cur.get("k") == "MethodCall":
            names.append(cur["method"])
            cur = peel(cur["recv"])
        names.reverse()
        base_space = None
        if cur.get("k") == "Call" or cur.get("k") == "MethodCall":
            pass
        tbl = None
        if cur.get("k") == "Field" and (cur.get("adt") or "").endswith("buffer::InputBuffer") and cur["name"] in TABLES:
            tbl = TABLES[cur["name"]]
        # curr_byte_offsets() is mod_c2b without its sentinel
        c0 = it
        while c0.get("k") == "MethodCall" and c0["method"] in ("iter", "enumerate", "copied", "cloned"):
            c0 = peel(c0["recv"])
        if c0.get("k") == "MethodCall" and c0.get("method") == "curr_byte_offsets":
            tbl = TABLES["mod_c2b"]
            names = [n for n in ("enumerate",) if "enumerate" in render(it)]
        if tbl is not None:
            if "enumerate" in names or "enumerate" in render(it):
                if pat.get("k") == "Tuple" and len(pat["pats"]) == 2:
                    i_b = [l for l, _ in pat_bindings(pat["pats"][0])]
                    x_b = [l for l, _ in pat_bindings(pat["pats"][1])]
                    if lid in i_b:
                        return tbl[0]
                    if lid in x_b:
                        return tbl[1]
            else:
                return tbl[1]
        if it.get("k") == "Struct" and (it.get("path") or "").split("::")[-1] in ("Range", "RangeInclusive"):
            return self.space(it, depth + 1)
        if it.get("k") == "MethodCall" and it.get("method") == "rev":
            return self.for_binding_space(it["recv"], pat, lid, depth)
        return None

    # -- checks ------------------------------------------------------------------
    def require(self, e, want, what, site):
        got = self.space(e)
        if got is not None:
            self.reached += 1
            if got != want:
                self.conflicts.append((site, "%s: needs %s, `%s` is %s" % (what, want, render(e)[:60], got)))

    def check(self):
        for n, ps in walk(self.f.hir):
            k = n.get("k")
            if k in ("Call", "MethodCall"):
                suf, v = self.call_seed(n)
                if v:
                    args = call_args(n)
                    for i, want in v[1].items():
                        if i < len(args):
                            self.require(args[i], want, "argument %d of %s" % (i, suf), n)
            elif k == "Index":
                t = self.table_of(n["e"])
                if t:
                    if t[0] == "ptable":
                        self.require(n["i"], PARAM_TABLES[t[1]][0], "index of %s" % t[1][1], n)
                    else:
                        want = TABLES[t[1]][0] if t[0] == "table" else TEXTS[t[1]]
                        self.require(n["i"], want, "index of self.%s" % t[1], n)
            if k == "MethodCall" and n.get("method") in ("push", "extend", "extend_from_slice", "insert") and n["args"]:
                nm = local_name(n["recv"])
                for (suf, pn), sp in PARAM_SINKS.items():
                    if nm == pn and path_ends(self.f.key, suf):
                        arg = n["args"][-1]
                        # `.iter()` over a sub-table keeps the element space
                        a2 = peel(arg)
                        while a2.get("k") == "MethodCall" and a2.get("method") in ("iter", "copied", "cloned", "into_iter"):
                            a2 = peel(a2["recv"])
                        self.require(a2, sp, "value stored into %s" % pn, n)
            if k == "Assign":
                l = peel(n["l"])
                if l.get("k") == "Field":
                    fs = self.field_space(l)
                    if fs:
                        self.require(n["r"], fs, "store into .%s" % l["name"], n)
            elif k == "Struct":
                adt = n.get("path") or ""
                for fl in n.get("fields", []):
                    for (a, name), sp in FIELDS.items():
                        if adt.endswith(a) and fl["name"] == name and "e" in fl:
                            self.require(fl["e"], sp, "initialiser of %s.%s" % (a.split("::")[-1], name), n)
            elif k == "Binary" and n.get("op") in ("Lt", "Le", "Gt", "Ge", "Eq", "Ne"):
                a, b = self.space(n["l"]), self.space(n["r"])
                if a and b:
                    self.reached += 1
                    if a != b:
                        self.conflicts.append((n, "comparison of %s with %s" % (a, b)))
            elif k == "Binary" and n.get("op") in ("Add", "Sub"):
                self.space(n)
            elif k == "AssignOp" and n.get("op") in ("Add", "Sub"):
                a, b = self.space(n["l"]), self.space(n["r"])
                if a and b:
                    self.reached += 1
                    if a != b:
                        self.conflicts.append((n, "`%s %s= %s` mixes %s and %s" % (render(n["l"]), "+" if n["op"] == "Add" else "-", render(n["r"])[:50], a, b)))
        # return value against the function's own seed: the tail and every explicit `return`
        ret = self.f.hir.get("expr") if self.f.hir.get("k") == "Block" else None
        rets = [ret] if ret is not None else []
        for n, ps in walk(self.f.hir):
            if n.get("k") == "Ret" and "e" in n and not (n.get("mac") and "desugar:QuestionMark" in n["mac"]) and not any(p.get("k") == "Closure" for p in ps):
                rets.append(n["e"])
        for r_ in rets:
            for suf, v in CALLS.items():
                if v[0] and (path_ends(self.f.key, suf) or (self.f.trait_item and path_ends(self.f.trait_item, suf))):
                    self.require(r_, v[0], "return value of %s" % suf, r_)
        return self.conflicts, self.reached
