"""Form-independent view of a `for` loop: the iterator expression with hoisted lets resolved, its adaptor chain from the base
outwards, and the element predicates of `.filter(..)` adaptors (which are path conditions of the body, exactly like an `if` at
the top of the body)."""
from .db import peel, atoms, walk, is_call, callee, path_ends
from .origins import resolve_let, for_loop_parts


def chain(db, f, it):
    """[(method, call node)] from the base outwards, base"""
    it = resolve_let(db, f, it)
    out = []
    e = peel(it)
    while isinstance(e, dict) and e.get("k") == "MethodCall":
        out.append((e["method"], e))
        e = peel(resolve_let(db, f, e["recv"]))
    return list(reversed(out)), e


def filter_atoms(call):
    """(atom, polarity) conjuncts a `.filter(|x| pred)` guarantees for the elements that pass; None if the predicate is not a closure"""
    clo = peel(call["args"][0]) if call.get("args") else {}
    if not isinstance(clo, dict) or clo.get("k") != "Closure":
        return None
    body = peel(clo.get("body"))
    while isinstance(body, dict) and body.get("k") == "Block" and not body.get("stmts") and "expr" in body:
        body = peel(body["expr"])
    return atoms(body, True)


_TERMINALS = {"for_each": 0, "try_for_each": 0, "try_fold": 1, "fold": 1}


def iterations(root):
    """every construct under `root` that runs a body once per element of an iterator, in order: `for` loops and the closure forms
    for_each / try_for_each / fold / try_fold.  Yields dicts: kind, it (the iterated expression), body, node, parents."""
    for n, ps in walk(root):
        if n.get("k") == "Match":
            fl = for_loop_parts(n)
            if fl:
                yield {"kind": "for", "it": fl[0], "pat": fl[1], "body": fl[2], "node": n, "parents": ps}
        elif n.get("k") == "MethodCall" and n.get("method") in _TERMINALS and len(n["args"]) > _TERMINALS[n["method"]]:
            clo = peel(n["args"][_TERMINALS[n["method"]]])
            if isinstance(clo, dict) and clo.get("k") == "Closure":
                yield {"kind": n["method"], "it": n["recv"], "pat": clo.get("params"), "body": clo["body"], "node": n, "parents": ps, "closure": clo}


def propagates_errors(itn, call, call_parents):
    """the Result of `call` (inside the body of iteration `itn`) stops the iteration and leaves the enclosing function: `?` on the
    call inside a `for` body, or a try_* closure whose value is the call (or `call?` re-wrapped) and whose own result is consumed by `?`"""
    from .uses import consumer
    kind = consumer(call, call_parents)[0]
    if itn["kind"] == "for":
        return kind == "try"
    if itn["kind"] in ("try_for_each", "try_fold"):
        return kind in ("try", "return") and consumer(itn["node"], itn["parents"])[0] == "try"
    return False


def body_parents(itn):
    """parent chain to use when walking the body of an iteration (so that consumers / path conditions see the enclosing construct)"""
    if itn["kind"] == "for":
        return itn["parents"] + (itn["node"],)
    return itn["parents"] + (itn["node"], itn["closure"])
