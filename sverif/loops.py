"""Form-independent view of a `for` loop: the iterator expression with hoisted lets resolved, its adaptor chain from the base
outwards, and the element predicates of `.filter(..)` adaptors (which are path conditions of the body, exactly like an `if` at
the top of the body)."""
from .db import peel, atoms, walk
from .origins import resolve_let


def chain(db, f, it):
    """[(method, call node)] from the base outwards, base"""
    it = resolve_let(db, f, it)
    out = []
    e = peel(it)
    while isinstance(e, dict) and e.get("k") == "MethodCall":
        out.append((e["method"], e))
        e = peel(resolve_let(db, f, e["recv"]))
    return list(reversed(out)), e


def filter_atoms(call):
    """(atom, polarity) conjuncts a `.filter(|x| pred)` guarantees for the elements that pass; None if the predicate is not a closure"""
    clo = peel(call["args"][0]) if call.get("args") else {}
    if not isinstance(clo, dict) or clo.get("k") != "Closure":
        return None
    body = peel(clo.get("body"))
    while isinstance(body, dict) and body.get("k") == "Block" and not body.get("stmts") and "expr" in body:
        body = peel(body["expr"])
    return atoms(body, True)
