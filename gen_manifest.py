#!/usr/bin/env python3
"""Regenerates MANIFEST.json from the rule modules that exist (a property without a rule module is
listed under not_applicable, never silently dropped)."""
import importlib
import json
import os
import sys

HERE = os.path.dirname(os.path.abspath(__file__))
sys.path.insert(0, HERE)
from sverif import engine  # noqa: E402

ALL = ["C%02d" % i for i in range(1, 21)]
NA = {}

TECH = {
    "C01": "index-space (units-of-measure) dataflow + dependency slices + who-may-write over typed HIR/MIR",
    "C02": "dependency-slice and guard-polarity rules on the Viterbi recurrence (typed HIR/MIR)",
    "C03": "must-pass-through guards, panic-site inventory over the call graph, accumulator-width obligation, taint",
    "C04": "writer/reader sibling tables + guard/ordering rules over typed HIR",
    "C05": "writer/reader sibling agreement (field order, widths, length prefix) + determinism type rule",
    "C06": "panic-site inventory over the build closure, tainted-index and validation-interval rules, result-use rule",
    "C07": "fast/slow sibling agreement + option-flag rule on the Aho-Corasick searches (typed HIR)",
    "C08": "index-space dataflow + dependency slices on the offset tables",
    "C09": "sibling pairing tables (mode/flag/field) + subset-closure + ordering rules",
    "C10": "recycled-buffer kill/grow analysis over struct fields (MIR) + ordering rules",
    "C11": "parse/skip width sibling table + accessor-fallback vs subset-closure rule",
    "C12": "guard intervals on dictionary capacity, dependency/ordering rules on POS rebasing",
    "C13": "OOV provider node-shape sibling rule + total-lattice guard rule",
    "C14": "who-may-mutate rule on the path vector + dependency slices on merged nodes",
    "C15": "constructor/reset sibling agreement, accumulator-flow ordering, guarded-join truth table (reachability under parser.done()), "
           "constant-folded character table (typed HIR); the digit-string arithmetic itself is NOT decided",
    "C17": "accumulate-by-union write rule, boundary-insertion completeness, half-open convention agreement between reader / compile / "
           "bisection by value-point reachability (typed HIR); exactness of the table for runtime data is NOT decided",
    "C16": "dependency slice on the non-break veto + must-call veto table + coverage rule on the iterator",
    "C18": "type-graph audit for interior mutability, unsafe/static inventory, compile-pass/compile-fail witnesses",
    "C19": "delegation sibling table (Python accessor -> core accessor), guard rule on strip_eol, column-order rule",
    "C20": "static taint from configuration fields to matrix-index sinks + guard intervals at n-1,n,n+1",
}


def main():
    checks = []
    na = []
    for p in ALL:
        if p in NA:
            na.append({"property_id": p, "reason": NA[p]})
            continue
        try:
            mod = importlib.import_module("sverif.rules." + p)
        except ModuleNotFoundError:
            na.append({"property_id": p, "reason": "no sound static rule implemented yet in this revision of the framework"})
            continue
        meta = getattr(mod, "META", {})
        checks.append({
            "property_id": p,
            "quick_cmd": "./check %s" % p,
            "thorough_cmd": "./check %s --thorough" % p,
            "evidence_file": "/verif/evidence/%s.json" % p,
            "replay_cmd_template": "./check --replay {path}",
            "engine": "sverif",
            "level_claimed": {
                "category": "other",
                "text": "Static analysis of the type-checked program (custom rustc_private driver: typed HIR + MIR of every "
                        "workspace crate, rebuilt from /repo's working tree on every run). Decides, for every path / call "
                        "site / type at once, the structural necessary conditions of the property listed in the evidence "
                        "file (decided_clauses) and states which clauses are not decided. " + meta.get("level_text", ""),
                "design_ref": "DESIGN.md §4 " + p,
            },
            "level_note": "Partial claim: necessary structural conditions only, not the runtime behaviour. Trusted: rustc's type "
                          "checking and MIR construction, the sfacts serialisation, the frozen seed/idiom/allow tables in "
                          "sverif/rules/%s.py, library contracts named in the evidence (trusted_base). " % p
                          + "Not decided: " + "; ".join(meta.get("not_decided", [])),
            "technique": TECH.get(p, "static analysis over typed HIR/MIR"),
        })
    man = {
        "version": 1,
        "setup_cmd": "./setup.sh",
        "hooks": {
            "guard": "worksapplications_sudachi_rs_verif",
            "enable": "none needed: the checks are static and read /repo's sources through the compiler; no instrumentation is compiled in",
            "baseline_off_cmd": "cd /repo && cargo test --workspace --no-fail-fast --offline",
            "source_commits": [],
            "add_only": True,
        },
        "engines": [
            {"name": "sfacts", "path": "sfacts/", "serves_properties": [c["property_id"] for c in checks],
             "kind_free_text": "rustc_private driver (nightly) injected as RUSTC_WORKSPACE_WRAPPER under cargo check; dumps items, "
                               "typed HIR with resolved callees and evaluated consts, and MIR for all 8 workspace crates"},
            {"name": "sverif", "path": "sverif/", "serves_properties": [c["property_id"] for c in checks],
             "kind_free_text": "python rule engine: call graph, dominators, guard/interval extraction, origin tracing, "
                               "dependency slices, sibling tables, kill/grow, type-graph audit"},
            {"name": "witness", "path": "witness/", "serves_properties": ["C18"],
             "kind_free_text": "compile-pass / compile_fail doctest witnesses against /repo/sudachi (thorough tier)"},
        ],
        "checks": checks,
        "not_applicable": na,
        "notes": "All checks are static (no sudachi.rs code is executed). Known findings: known_findings.jsonl. "
                 "Seeded mutants: seeded/. See DESIGN.md.",
    }
    with open(os.path.join(HERE, "MANIFEST.json"), "w") as fh:
        json.dump(man, fh, indent=1)
    print("MANIFEST.json: %d checks, %d not_applicable" % (len(checks), len(na)))


if __name__ == "__main__":
    main()
