#!/bin/bash
# usage: confirm_seeded.sh <dir with patch.diff + demo.rs> <demo test name e.g. demo_c06_1> [package/test dir, default sudachi]
# Confirms in a scratch worktree: (1) suite passes with the change, (2) demo fails with it, (3) demo passes without it.
D=$1; NAME=$2; PKG=${3:-sudachi}
W=/var/tmp/confirm-wt
if [ ! -d $W ]; then git -C /repo worktree add -q --detach $W HEAD || exit 3; fi
cd $W && git checkout -q --detach $(git -C /repo rev-parse HEAD) && git checkout -q -- . && git clean -fdq -e target
mkdir -p $W/$PKG/tests; cp "$D/demo.rs" $W/$PKG/tests/$NAME.rs
R3=$(cargo test --offline -p $PKG --test $NAME 2>&1 | grep -E "^test result" | tail -1)
git apply "$D/patch.diff" || { echo "PATCH DOES NOT APPLY"; exit 3; }
R2=$(cargo test --offline -p $PKG --test $NAME 2>&1 | grep -E "^test result|error\[|error:" | tail -1)
rm $W/$PKG/tests/$NAME.rs
R1=$(cargo test --workspace --no-fail-fast --offline 2>&1 | grep -E "^test result|FAILED|^error" | awk '/test result/{p+=$4; f+=$6} !/test result/{print} END {print "passed",p,"failed",f}')
git checkout -q -- .
echo "suite-with-change: $R1"
echo "demo-with-change:  $R2"
echo "demo-without:      $R3"
