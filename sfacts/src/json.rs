//! Minimal JSON tree + writer (zero dependencies).

pub enum J {
    Null,
    B(bool),
    I(i128),
    S(String),
    A(Vec<J>),
    O(Vec<(&'static str, J)>),
    /// object with dynamic keys
    M(Vec<(String, J)>),
}

pub fn s<T: Into<String>>(x: T) -> J {
    J::S(x.into())
}

impl J {
    pub fn write(&self, out: &mut String) {
        match self {
            J::Null => out.push_str("null"),
            J::B(b) => out.push_str(if *b { "true" } else { "false" }),
            J::I(i) => out.push_str(&i.to_string()),
            J::S(st) => esc(st, out),
            J::A(v) => {
                out.push('[');
                for (i, x) in v.iter().enumerate() {
                    if i > 0 {
                        out.push(',');
                    }
                    x.write(out);
                }
                out.push(']');
            }
            J::O(v) => {
                out.push('{');
                let mut first = true;
                for (k, x) in v.iter() {
                    if let J::Null = x {
                        continue;
                    }
                    if !first {
                        out.push(',');
                    }
                    first = false;
                    esc(k, out);
                    out.push(':');
                    x.write(out);
                }
                out.push('}');
            }
            J::M(v) => {
                out.push('{');
                for (i, (k, x)) in v.iter().enumerate() {
                    if i > 0 {
                        out.push(',');
                    }
                    esc(k, out);
                    out.push(':');
                    x.write(out);
                }
                out.push('}');
            }
        }
    }
}

fn esc(st: &str, out: &mut String) {
    out.push('"');
    for c in st.chars() {
        match c {
            '"' => out.push_str("\\\""),
            '\\' => out.push_str("\\\\"),
            '\n' => out.push_str("\\n"),
            '\r' => out.push_str("\\r"),
            '\t' => out.push_str("\\t"),
            c if (c as u32) < 0x20 => out.push_str(&format!("\\u{:04x}", c as u32)),
            c => out.push(c),
        }
    }
    out.push('"');
}
