use crate::hirdump;
use crate::json::{s, J};
use crate::mirdump;
use rustc_hir::def::DefKind;
use rustc_hir::def_id::{DefId, LocalDefId};
use rustc_middle::ty::print::with_no_trimmed_paths;
use rustc_middle::ty::{self, TyCtxt};
use rustc_span::Span;

fn ws_crates() -> Vec<String> {
    std::env::var("SFACTS_WS")
        .unwrap_or_else(|_| {
            "sudachi,sudachipy,sudachi_fuzz,default_input_text,simple_oov,join_numeric,join_katakana_oov"
                .to_string()
        })
        .split(',')
        .map(|x| x.to_string())
        .collect()
}

fn crate_alias<'tcx>(tcx: TyCtxt<'tcx>, did: DefId) -> String {
    let name = tcx.crate_name(did.krate).to_string();
    if did.is_local() {
        // the CLI binary crate is also called `sudachi`: key it by its package name
        if let Ok(pkg) = std::env::var("CARGO_PKG_NAME") {
            let p = pkg.replace('-', "_");
            if p != name {
                return p;
            }
        }
    }
    name
}

fn canon_self_ty<'tcx>(tcx: TyCtxt<'tcx>, t: ty::Ty<'tcx>) -> String {
    match t.kind() {
        ty::Adt(ad, args) => {
            let mut sx = path_of(tcx, ad.did());
            let targs: Vec<String> = args.types().map(|a| canon_self_ty(tcx, a)).collect();
            if !targs.is_empty() {
                sx.push('<');
                sx.push_str(&targs.join(","));
                sx.push('>');
            }
            sx
        }
        ty::Ref(_, inner, m) => {
            format!("&{}{}", if m.is_mut() { "mut " } else { "" }, canon_self_ty(tcx, *inner))
        }
        _ => ty_str(t),
    }
}

fn impl_prefix<'tcx>(tcx: TyCtxt<'tcx>, imp: DefId) -> String {
    let self_ty = tcx.type_of(imp).instantiate_identity().skip_norm_wip();
    let st = canon_self_ty(tcx, self_ty);
    if tcx.impl_is_of_trait(imp) {
        let tr = tcx.impl_trait_ref(imp).skip_binder();
        let mut ts = path_of(tcx, tr.def_id);
        let targs: Vec<String> = tr.args.types().skip(1).map(|a| canon_self_ty(tcx, a)).collect();
        if !targs.is_empty() {
            ts.push('<');
            ts.push_str(&targs.join(","));
            ts.push('>');
        }
        format!("<{} as {}>", st, ts)
    } else {
        st
    }
}

/// Canonical path: workspace crates get `crate::mod::Type::method` /
/// `<crate::Type as crate::Trait>::method` (no generics, no impl numbering); everything else
/// keeps rustc's visible path.
pub fn path_of<'tcx>(tcx: TyCtxt<'tcx>, did: DefId) -> String {
    let cname = tcx.crate_name(did.krate).to_string();
    if !did.is_local() && !ws_crates().iter().any(|c| *c == cname) {
        return with_no_trimmed_paths!(tcx.def_path_str(did));
    }
    let key = tcx.def_key(did);
    if matches!(tcx.def_kind(did), DefKind::Ctor(..)) {
        // constructors are named like the struct / variant they construct
        if let Some(pidx) = key.parent {
            return path_of(tcx, DefId { krate: did.krate, index: pidx });
        }
    }
    match key.parent {
        None => crate_alias(tcx, did),
        Some(pidx) => {
            let parent = DefId { krate: did.krate, index: pidx };
            let prefix = if matches!(tcx.def_kind(parent), DefKind::Impl { .. }) {
                impl_prefix(tcx, parent)
            } else {
                path_of(tcx, parent)
            };
            if matches!(tcx.def_kind(did), DefKind::Impl { .. }) {
                return format!("{}::{{impl {}}}", prefix, impl_prefix(tcx, did));
            }
            format!("{}::{}", prefix, key.disambiguated_data.as_sym(true))
        }
    }
}

pub fn ty_str<'tcx>(t: ty::Ty<'tcx>) -> String {
    rustc_middle::ty::print::with_crate_prefix!(with_no_trimmed_paths!(format!("{}", t)))
}

/// workspace / std ADTs mentioned anywhere inside a type
pub fn adts_in<'tcx>(tcx: TyCtxt<'tcx>, t: ty::Ty<'tcx>) -> J {
    let mut v: Vec<String> = Vec::new();
    for ga in t.walk() {
        if let Some(tt) = ga.as_type() {
            match tt.kind() {
                ty::Adt(ad, _) => v.push(path_of(tcx, ad.did())),
                ty::Dynamic(preds, ..) => {
                    if let Some(p) = preds.principal_def_id() {
                        v.push(format!("dyn {}", path_of(tcx, p)));
                    }
                }
                ty::RawPtr(_, m) => v.push(if m.is_mut() { "*mut".into() } else { "*const".into() }),
                _ => {}
            }
        }
    }
    v.sort();
    v.dedup();
    J::A(v.into_iter().map(s).collect())
}

pub fn span_str<'tcx>(tcx: TyCtxt<'tcx>, sp: Span) -> String {
    let sp = sp.source_callsite();
    let sm = tcx.sess.source_map();
    let lo = sm.lookup_char_pos(sp.lo());
    let f = format!("{}", lo.file.name.prefer_local_unconditionally());
    format!("{}:{}:{}", f, lo.line, lo.col.0 + 1)
}

pub fn span_end_line<'tcx>(tcx: TyCtxt<'tcx>, sp: Span) -> i128 {
    let sm = tcx.sess.source_map();
    sm.lookup_char_pos(sp.hi()).line as i128
}

pub fn scalar_of_const<'tcx>(tcx: TyCtxt<'tcx>, did: DefId) -> J {
    // only non-generic consts
    // lifetime-only generics are fine; type/const generics are not evaluable
    if tcx.generics_of(did).requires_monomorphization(tcx) {
        return J::Null;
    }
    match tcx.const_eval_poly(did) {
        Ok(v) => {
            if let Some(si) = v.try_to_scalar_int() {
                let ty = tcx.type_of(did).instantiate_identity().skip_norm_wip();
                scalar_to_j(si, ty)
            } else {
                J::Null
            }
        }
        Err(_) => J::Null,
    }
}

/// value of a non-generic `&'static str` constant (the bytes of the evaluated slice), for rules that need to know what a pattern
/// fragment contains
pub fn str_of_const<'tcx>(tcx: TyCtxt<'tcx>, did: DefId) -> J {
    if tcx.generics_of(did).requires_monomorphization(tcx) {
        return J::Null;
    }
    let t = tcx.type_of(did).instantiate_identity().skip_norm_wip();
    let is_str = matches!(t.kind(), ty::Ref(_, inner, _) if inner.is_str());
    if !is_str {
        return J::Null;
    }
    match tcx.const_eval_poly(did) {
        Ok(v) => match v.try_get_slice_bytes_for_diagnostics(tcx) {
            Some(b) => match std::str::from_utf8(b) {
                Ok(x) => s(x),
                Err(_) => J::Null,
            },
            None => J::Null,
        },
        Err(_) => J::Null,
    }
}

pub fn scalar_to_j<'tcx>(si: ty::ScalarInt, ty: ty::Ty<'tcx>) -> J {
    let size = si.size();
    let bits = si.to_bits(size);
    let signed = matches!(ty.kind(), ty::Int(_));
    if signed {
        let sh = 128 - size.bits() as u32;
        if sh >= 128 {
            return J::I(0);
        }
        J::I(((bits << sh) as i128) >> sh)
    } else if bits > i128::MAX as u128 {
        J::S(format!("{}", bits))
    } else {
        J::I(bits as i128)
    }
}

pub fn dump_items<'tcx>(tcx: TyCtxt<'tcx>, top: &mut Vec<(&'static str, J)>) {
    let mut adts: Vec<(String, J)> = Vec::new();
    let mut traits: Vec<(String, J)> = Vec::new();
    let mut impls: Vec<J> = Vec::new();
    let mut statics: Vec<(String, J)> = Vec::new();
    let mut consts: Vec<(String, J)> = Vec::new();
    let mut fnsigs: Vec<(String, J)> = Vec::new();
    for ldid in tcx.hir_crate_items(()).definitions() {
        let did = ldid.to_def_id();
        let dk = tcx.def_kind(did);
        match dk {
            DefKind::Struct | DefKind::Enum | DefKind::Union => {
                let adt = tcx.adt_def(did);
                let mut variants = Vec::new();
                for v in adt.variants().iter() {
                    let mut fields = Vec::new();
                    for f in v.fields.iter() {
                        let fty = tcx.type_of(f.did).instantiate_identity().skip_norm_wip();
                        fields.push(J::O(vec![
                            ("name", s(f.name.to_string())),
                            ("ty", s(ty_str(fty))),
                            ("adts", adts_in(tcx, fty)),
                            ("vis", s(format!("{:?}", f.vis))),
                        ]));
                    }
                    variants.push(J::O(vec![
                        ("name", s(v.name.to_string())),
                        ("fields", J::A(fields)),
                    ]));
                }
                adts.push((
                    path_of(tcx, did),
                    J::O(vec![
                        ("kind", s(format!("{:?}", dk))),
                        ("span", s(span_str(tcx, tcx.def_span(did)))),
                        ("variants", J::A(variants)),
                    ]),
                ));
            }
            DefKind::Trait => {
                let mut sup = Vec::new();
                for (cl, _sp) in tcx.explicit_super_predicates_of(did).skip_binder().iter() {
                    sup.push(s(with_no_trimmed_paths!(format!("{}", cl))));
                }
                let mut methods = Vec::new();
                for it in tcx.associated_items(did).in_definition_order() {
                    methods.push(J::O(vec![
                        ("name", s(it.name().to_string())),
                        ("kind", s(format!("{:?}", it.tag()))),
                        ("has_default", J::B(it.defaultness(tcx).has_value())),
                    ]));
                }
                traits.push((
                    path_of(tcx, did),
                    J::O(vec![
                        ("supers", J::A(sup)),
                        ("items", J::A(methods)),
                        ("span", s(span_str(tcx, tcx.def_span(did)))),
                        (
                            "unsafe",
                            J::B(matches!(tcx.trait_def(did).safety, rustc_hir::Safety::Unsafe)),
                        ),
                    ]),
                ));
            }
            DefKind::Impl { of_trait } => {
                let self_ty = tcx.type_of(did).instantiate_identity().skip_norm_wip();
                let mut o: Vec<(&'static str, J)> = vec![
                    ("self_ty", s(ty_str(self_ty))),
                    ("span", s(span_str(tcx, tcx.def_span(did)))),
                ];
                if let ty::Adt(ad, _) = self_ty.kind() {
                    o.push(("self_adt", s(path_of(tcx, ad.did()))));
                }
                if of_trait {
                    let h = tcx.impl_trait_header(did);
                    let tr = h.trait_ref.skip_binder();
                    o.push(("trait", s(path_of(tcx, tr.def_id))));
                    o.push(("trait_ref", s(with_no_trimmed_paths!(format!("{}", tr)))));
                    o.push(("unsafe", J::B(matches!(h.safety, rustc_hir::Safety::Unsafe))));
                    o.push(("polarity", s(format!("{:?}", h.polarity))));
                }
                let mut its = Vec::new();
                for it in tcx.associated_items(did).in_definition_order() {
                    its.push(s(path_of(tcx, it.def_id)));
                }
                o.push(("items", J::A(its)));
                o.push(("automatically_derived", J::B(tcx.is_automatically_derived(did))));
                impls.push(J::O(o));
            }
            DefKind::Static { mutability, .. } => {
                let t = tcx.type_of(did).instantiate_identity().skip_norm_wip();
                statics.push((
                    path_of(tcx, did),
                    J::O(vec![
                        ("ty", s(ty_str(t))),
                        ("adts", adts_in(tcx, t)),
                        ("mut", J::B(mutability.is_mut())),
                        ("thread_local", J::B(tcx.is_thread_local_static(did))),
                        ("span", s(span_str(tcx, tcx.def_span(did)))),
                        ("expn", hirdump::macro_chain(tcx.def_span(did))),
                    ]),
                ));
            }
            DefKind::Const { .. } | DefKind::AssocConst { .. } => {
                let t = tcx.type_of(did).instantiate_identity().skip_norm_wip();
                consts.push((
                    path_of(tcx, did),
                    J::O(vec![
                        ("ty", s(ty_str(t))),
                        ("val", scalar_of_const(tcx, did)),
                        ("str", str_of_const(tcx, did)),
                        ("span", s(span_str(tcx, tcx.def_span(did)))),
                    ]),
                ));
            }
            DefKind::Fn | DefKind::AssocFn => {
                // signatures also for bodiless trait methods
                fnsigs.push((path_of(tcx, did), fn_header(tcx, ldid)));
            }
            _ => {}
        }
    }
    top.push(("adts", J::M(adts)));
    top.push(("traits", J::M(traits)));
    top.push(("impls", J::A(impls)));
    top.push(("statics", J::M(statics)));
    top.push(("consts", J::M(consts)));
    top.push(("fnsigs", J::M(fnsigs)));
}

fn fn_header<'tcx>(tcx: TyCtxt<'tcx>, ldid: LocalDefId) -> J {
    let did = ldid.to_def_id();
    let mut o: Vec<(&'static str, J)> = Vec::new();
    o.push(("kind", s(format!("{:?}", tcx.def_kind(did)))));
    o.push(("vis", s(format!("{:?}", tcx.visibility(did)))));
    let sig = tcx.fn_sig(did).instantiate_identity().skip_norm_wip().skip_binder();
    o.push(("unsafe", J::B(matches!(sig.safety(), rustc_hir::Safety::Unsafe))));
    o.push(("inputs", J::A(sig.inputs().iter().map(|t| s(ty_str(*t))).collect())));
    o.push(("output", s(ty_str(sig.output()))));
    o.push(("span", s(span_str(tcx, tcx.def_span(did)))));
    o.push(("name", s(tcx.item_name(did).to_string())));
    if let Some(imp) = tcx.impl_of_assoc(did) {
        let self_ty = tcx.type_of(imp).instantiate_identity().skip_norm_wip();
        o.push(("self_ty", s(ty_str(self_ty))));
        if let ty::Adt(ad, _) = self_ty.kind() {
            o.push(("self_adt", s(path_of(tcx, ad.did()))));
        }
        if tcx.impl_is_of_trait(imp) {
            let tr = tcx.impl_trait_ref(imp).skip_binder();
            o.push(("trait", s(path_of(tcx, tr.def_id))));
            if let Some(ti) = tcx.trait_item_of(did) {
                o.push(("trait_item", s(path_of(tcx, ti))));
            }
        }
    } else if let Some(tr) = tcx.trait_of_assoc(did) {
        o.push(("in_trait", s(path_of(tcx, tr))));
    }
    J::O(o)
}

pub fn dump_body<'tcx>(tcx: TyCtxt<'tcx>, ldid: LocalDefId) -> Option<(String, J)> {
    let did = ldid.to_def_id();
    let dk = tcx.def_kind(did);
    let mut o: Vec<(&'static str, J)> = Vec::new();
    match dk {
        DefKind::Fn | DefKind::AssocFn => {
            if let J::O(h) = fn_header(tcx, ldid) {
                o.extend(h);
            }
            let body = tcx.hir_body_owned_by(ldid);
            o.push(("end_line", J::I(span_end_line(tcx, body.value.span))));
            let typeck = tcx.typeck(ldid);
            let cx = hirdump::Cx { tcx, typeck, owner: ldid };
            o.push(("params", J::A(body.params.iter().map(|p| hirdump::pat(&cx, p.pat)).collect())));
            o.push(("hir", hirdump::expr(&cx, body.value)));
            o.push(("mir", mirdump::dump_mir(tcx, ldid)));
        }
        DefKind::Closure => {
            o.push(("kind", s("Closure")));
            o.push(("span", s(span_str(tcx, tcx.def_span(did)))));
            let parent = tcx.typeck_root_def_id(did);
            o.push(("parent", s(path_of(tcx, parent))));
            // HIR of closures is inlined in the parent; only MIR here
            if tcx.is_coroutine(did) {
                return None;
            }
            o.push(("mir", mirdump::dump_mir(tcx, ldid)));
        }
        _ => return None, // consts, statics, anon consts: no runtime body
    }
    Some((path_of(tcx, did), J::O(o)))
}
