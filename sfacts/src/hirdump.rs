use crate::items::{path_of, scalar_of_const, span_str, ty_str};
use crate::json::{s, J};
use rustc_hir as hir;
use rustc_hir::def::{DefKind, Res};
use rustc_hir::def_id::LocalDefId;
use rustc_middle::ty::{self, TyCtxt, TypeckResults};
use rustc_span::{ExpnKind, Span};

pub struct Cx<'tcx> {
    pub tcx: TyCtxt<'tcx>,
    pub typeck: &'tcx TypeckResults<'tcx>,
    pub owner: LocalDefId,
}

/// names of the macros / desugarings a span comes from, innermost first
pub fn macro_chain(sp: Span) -> J {
    if !sp.from_expansion() {
        return J::Null;
    }
    let mut v = Vec::new();
    let mut cur = sp;
    let mut guard = 0;
    while cur.from_expansion() && guard < 32 {
        let ed = cur.ctxt().outer_expn_data();
        match ed.kind {
            ExpnKind::Macro(_, name) => v.push(s(name.to_string())),
            ExpnKind::Desugaring(k) => v.push(s(format!("desugar:{:?}", k))),
            ExpnKind::AstPass(k) => v.push(s(format!("astpass:{:?}", k))),
            ExpnKind::Root => {}
        }
        cur = ed.call_site;
        guard += 1;
    }
    J::A(v)
}

fn res_j<'tcx>(cx: &Cx<'tcx>, res: Res) -> Vec<(&'static str, J)> {
    let mut o = Vec::new();
    match res {
        Res::Local(hid) => {
            o.push(("res", s("local")));
            o.push(("name", s(cx.tcx.hir_name(hid).to_string())));
            o.push(("lid", J::I(hid.local_id.as_u32() as i128)));
        }
        Res::Def(kind, did) => {
            o.push(("res", s("def")));
            o.push(("dk", s(defkind_str(kind))));
            o.push(("path", s(path_of(cx.tcx, did))));
            if matches!(kind, DefKind::Const { .. } | DefKind::AssocConst { .. }) {
                o.push(("val", scalar_of_const(cx.tcx, did)));
            }
        }
        Res::SelfCtor(did) => {
            o.push(("res", s("selfctor")));
            o.push(("path", s(path_of(cx.tcx, did))));
        }
        other => {
            o.push(("res", s(format!("{:?}", other))));
        }
    }
    o
}

fn defkind_str(k: DefKind) -> String {
    match k {
        DefKind::Const { .. } => "Const".into(),
        DefKind::AssocConst { .. } => "AssocConst".into(),
        DefKind::Ctor(of, kind) => format!("Ctor{:?}{:?}", of, kind),
        DefKind::Static { .. } => "Static".into(),
        other => format!("{:?}", other),
    }
}

fn qpath_j<'tcx>(cx: &Cx<'tcx>, q: &hir::QPath<'tcx>, id: hir::HirId) -> Vec<(&'static str, J)> {
    let res = cx.typeck.qpath_res(q, id);
    res_j(cx, res)
}

fn callee_of<'tcx>(cx: &Cx<'tcx>, id: hir::HirId, o: &mut Vec<(&'static str, J)>) {
    if let Some(did) = cx.typeck.type_dependent_def_id(id) {
        o.push(("callee", s(path_of(cx.tcx, did))));
        let args = cx.typeck.node_args(id);
        resolve_into(cx, did, args, o);
    }
}

fn resolve_into<'tcx>(
    cx: &Cx<'tcx>,
    did: rustc_hir::def_id::DefId,
    args: ty::GenericArgsRef<'tcx>,
    o: &mut Vec<(&'static str, J)>,
) {
    if !matches!(cx.tcx.def_kind(did), DefKind::Fn | DefKind::AssocFn) {
        return;
    }
    if cx.tcx.generics_of(did).count() != args.len() {
        return;
    }
    let env = ty::TypingEnv::post_analysis(cx.tcx, cx.owner.to_def_id());
    if let Ok(Some(inst)) = ty::Instance::try_resolve(cx.tcx, env, did, args) {
        let rd = inst.def_id();
        if rd != did {
            o.push(("resolved", s(path_of(cx.tcx, rd))));
        }
    }
}

pub fn pat<'tcx>(cx: &Cx<'tcx>, p: &hir::Pat<'tcx>) -> J {
    let mut o: Vec<(&'static str, J)> = Vec::new();
    match &p.kind {
        hir::PatKind::Wild | hir::PatKind::Missing => o.push(("k", s("Wild"))),
        hir::PatKind::Never => o.push(("k", s("Never"))),
        hir::PatKind::Binding(mode, hid, ident, sub) => {
            o.push(("k", s("Bind")));
            o.push(("name", s(ident.name.to_string())));
            o.push(("lid", J::I(hid.local_id.as_u32() as i128)));
            o.push(("mode", s(format!("{:?}", mode))));
            o.push(("ty", s(ty_str(cx.typeck.pat_ty(p)))));
            if let Some(sp) = sub {
                o.push(("sub", pat(cx, sp)));
            }
        }
        hir::PatKind::Struct(q, fields, _) => {
            o.push(("k", s("Struct")));
            o.extend(qpath_j(cx, q, p.hir_id));
            let mut fs = Vec::new();
            for f in fields.iter() {
                fs.push(J::O(vec![("name", s(f.ident.name.to_string())), ("pat", pat(cx, f.pat))]));
            }
            o.push(("fields", J::A(fs)));
        }
        hir::PatKind::TupleStruct(q, pats, _) => {
            o.push(("k", s("TupleStruct")));
            o.extend(qpath_j(cx, q, p.hir_id));
            o.push(("pats", J::A(pats.iter().map(|x| pat(cx, x)).collect())));
        }
        hir::PatKind::Or(pats) => {
            o.push(("k", s("Or")));
            o.push(("pats", J::A(pats.iter().map(|x| pat(cx, x)).collect())));
        }
        hir::PatKind::Tuple(pats, _) => {
            o.push(("k", s("Tuple")));
            o.push(("pats", J::A(pats.iter().map(|x| pat(cx, x)).collect())));
        }
        hir::PatKind::Box(x) | hir::PatKind::Deref(x) => {
            o.push(("k", s("Box")));
            o.push(("pat", pat(cx, x)));
        }
        hir::PatKind::Ref(x, _, m) => {
            o.push(("k", s("Ref")));
            o.push(("mut", J::B(m.is_mut())));
            o.push(("pat", pat(cx, x)));
        }
        hir::PatKind::Expr(pe) => {
            o.push(("k", s("Expr")));
            o.push(("e", pat_expr(cx, pe)));
        }
        hir::PatKind::Guard(x, e) => {
            o.push(("k", s("Guard")));
            o.push(("pat", pat(cx, x)));
            o.push(("cond", expr(cx, e)));
        }
        hir::PatKind::Range(lo, hi, end) => {
            o.push(("k", s("Range")));
            if let Some(l) = lo {
                o.push(("lo", pat_expr(cx, l)));
            }
            if let Some(h) = hi {
                o.push(("hi", pat_expr(cx, h)));
            }
            o.push(("end", s(format!("{:?}", end))));
        }
        hir::PatKind::Slice(a, m, b) => {
            o.push(("k", s("Slice")));
            o.push(("before", J::A(a.iter().map(|x| pat(cx, x)).collect())));
            if let Some(m) = m {
                o.push(("mid", pat(cx, m)));
            }
            o.push(("after", J::A(b.iter().map(|x| pat(cx, x)).collect())));
        }
        hir::PatKind::Err(_) => o.push(("k", s("Err"))),
    }
    J::O(o)
}

fn pat_expr<'tcx>(cx: &Cx<'tcx>, pe: &hir::PatExpr<'tcx>) -> J {
    match &pe.kind {
        hir::PatExprKind::Lit { lit, negated } => {
            let mut o = vec![("k", s("Lit"))];
            lit_into(&lit.node, &mut o);
            if *negated {
                o.push(("neg", J::B(true)));
            }
            J::O(o)
        }
        hir::PatExprKind::Path(q) => {
            let mut o = vec![("k", s("Path"))];
            o.extend(qpath_j(cx, q, pe.hir_id));
            J::O(o)
        }
        #[allow(unreachable_patterns)]
        _ => J::O(vec![("k", s("Other"))]),
    }
}

fn lit_into(l: &rustc_ast::LitKind, o: &mut Vec<(&'static str, J)>) {
    use rustc_ast::LitKind as L;
    match l {
        L::Str(sym, _) => {
            o.push(("t", s("str")));
            o.push(("v", s(sym.to_string())));
        }
        L::ByteStr(b, _) | L::CStr(b, _) => {
            o.push(("t", s("bytes")));
            o.push(("v", s(String::from_utf8_lossy(b.as_byte_str()).to_string())));
        }
        L::Byte(b) => {
            o.push(("t", s("byte")));
            o.push(("v", J::I(*b as i128)));
        }
        L::Char(c) => {
            o.push(("t", s("char")));
            o.push(("v", s(c.to_string())));
            o.push(("cp", J::I(*c as u32 as i128)));
        }
        L::Int(v, _) => {
            o.push(("t", s("int")));
            let v = v.get();
            if v > i128::MAX as u128 {
                o.push(("v", s(format!("{}", v))));
            } else {
                o.push(("v", J::I(v as i128)));
            }
        }
        L::Float(sym, _) => {
            o.push(("t", s("float")));
            o.push(("v", s(sym.to_string())));
        }
        L::Bool(b) => {
            o.push(("t", s("bool")));
            o.push(("v", J::B(*b)));
        }
        L::Err(_) => o.push(("t", s("err"))),
    }
}

fn block<'tcx>(cx: &Cx<'tcx>, b: &hir::Block<'tcx>) -> Vec<(&'static str, J)> {
    let mut o: Vec<(&'static str, J)> = Vec::new();
    let mut stmts = Vec::new();
    for st in b.stmts.iter() {
        match &st.kind {
            hir::StmtKind::Let(l) => {
                let mut lo = vec![("k", s("Let")), ("pat", pat(cx, l.pat))];
                if let Some(i) = l.init {
                    lo.push(("init", expr(cx, i)));
                }
                if let Some(e) = l.els {
                    let mut bo = vec![("k", s("Block"))];
                    bo.extend(block(cx, e));
                    lo.push(("els", J::O(bo)));
                }
                lo.push(("sp", s(span_str(cx.tcx, st.span))));
                stmts.push(J::O(lo));
            }
            hir::StmtKind::Item(_) => {}
            hir::StmtKind::Expr(e) => {
                stmts.push(J::O(vec![("k", s("Expr")), ("e", expr(cx, e))]));
            }
            hir::StmtKind::Semi(e) => {
                stmts.push(J::O(vec![("k", s("Semi")), ("e", expr(cx, e))]));
            }
        }
    }
    o.push(("stmts", J::A(stmts)));
    if let Some(e) = b.expr {
        o.push(("expr", expr(cx, e)));
    }
    if let hir::BlockCheckMode::UnsafeBlock(src) = b.rules {
        o.push(("unsafe", s(format!("{:?}", src))));
    }
    o
}

pub fn expr<'tcx>(cx: &Cx<'tcx>, e: &hir::Expr<'tcx>) -> J {
    use hir::ExprKind as K;
    // transparent wrappers
    match &e.kind {
        K::DropTemps(inner) | K::Use(inner, _) | K::Type(inner, _) => return expr(cx, inner),
        _ => {}
    }
    let mut o: Vec<(&'static str, J)> = Vec::new();
    let kind: &'static str;
    let mut extra: Vec<(&'static str, J)> = Vec::new();
    match &e.kind {
        K::ConstBlock(_) => kind = "ConstBlock",
        K::Array(xs) => {
            kind = "Array";
            extra.push(("elems", J::A(xs.iter().map(|x| expr(cx, x)).collect())));
        }
        K::Call(f, args) => {
            kind = "Call";
            // resolved callee if the function expression is a path to a fn
            if let K::Path(q) = &f.kind {
                let res = cx.typeck.qpath_res(q, f.hir_id);
                if let Res::Def(dk, did) = res {
                    extra.push(("callee", s(path_of(cx.tcx, did))));
                    extra.push(("cdk", s(defkind_str(dk))));
                    if matches!(dk, DefKind::Fn | DefKind::AssocFn) {
                        let args = cx.typeck.node_args(f.hir_id);
                        resolve_into(cx, did, args, &mut extra);
                    }
                }
            }
            extra.push(("f", expr(cx, f)));
            extra.push(("args", J::A(args.iter().map(|x| expr(cx, x)).collect())));
        }
        K::MethodCall(seg, recv, args, _) => {
            kind = "MethodCall";
            extra.push(("method", s(seg.ident.name.to_string())));
            callee_of(cx, e.hir_id, &mut extra);
            extra.push(("rty", s(ty_str(cx.typeck.expr_ty_adjusted(recv)))));
            extra.push(("recv", expr(cx, recv)));
            extra.push(("args", J::A(args.iter().map(|x| expr(cx, x)).collect())));
        }
        K::Tup(xs) => {
            kind = "Tup";
            extra.push(("elems", J::A(xs.iter().map(|x| expr(cx, x)).collect())));
        }
        K::Binary(op, l, r) => {
            kind = "Binary";
            extra.push(("op", s(format!("{:?}", op.node))));
            if cx.typeck.is_method_call(e) {
                callee_of(cx, e.hir_id, &mut extra);
            }
            extra.push(("l", expr(cx, l)));
            extra.push(("r", expr(cx, r)));
        }
        K::Unary(op, x) => {
            kind = "Unary";
            extra.push(("op", s(format!("{:?}", op))));
            if cx.typeck.is_method_call(e) {
                callee_of(cx, e.hir_id, &mut extra);
            }
            extra.push(("e", expr(cx, x)));
        }
        K::Lit(l) => {
            kind = "Lit";
            lit_into(&l.node, &mut extra);
        }
        K::Cast(x, _) => {
            kind = "Cast";
            extra.push(("e", expr(cx, x)));
        }
        K::Let(l) => {
            kind = "LetExpr";
            extra.push(("pat", pat(cx, l.pat)));
            extra.push(("init", expr(cx, l.init)));
        }
        K::If(c, t, el) => {
            kind = "If";
            extra.push(("cond", expr(cx, c)));
            extra.push(("then", expr(cx, t)));
            if let Some(x) = el {
                extra.push(("else", expr(cx, x)));
            }
        }
        K::Loop(b, _label, src, _) => {
            kind = "Loop";
            extra.push(("src", s(format!("{:?}", src))));
            let mut bo = vec![("k", s("Block"))];
            bo.extend(block(cx, b));
            extra.push(("body", J::O(bo)));
        }
        K::Match(scrut, arms, src) => {
            kind = "Match";
            extra.push((
                "src",
                s(match src {
                    hir::MatchSource::Normal => "Normal".to_string(),
                    hir::MatchSource::Postfix => "Postfix".to_string(),
                    hir::MatchSource::ForLoopDesugar => "ForLoopDesugar".to_string(),
                    hir::MatchSource::TryDesugar(_) => "TryDesugar".to_string(),
                    hir::MatchSource::AwaitDesugar => "AwaitDesugar".to_string(),
                    hir::MatchSource::FormatArgs => "FormatArgs".to_string(),
                    #[allow(unreachable_patterns)]
                    other => format!("{:?}", other),
                }),
            ));
            extra.push(("scrut", expr(cx, scrut)));
            let mut av = Vec::new();
            for a in arms.iter() {
                let mut ao = vec![("pat", pat(cx, a.pat))];
                if let Some(g) = a.guard {
                    ao.push(("guard", expr(cx, g)));
                }
                ao.push(("body", expr(cx, a.body)));
                av.push(J::O(ao));
            }
            extra.push(("arms", J::A(av)));
        }
        K::Closure(c) => {
            kind = "Closure";
            extra.push(("def", s(path_of(cx.tcx, c.def_id.to_def_id()))));
            let body = cx.tcx.hir_body(c.body);
            extra.push(("params", J::A(body.params.iter().map(|p| pat(cx, p.pat)).collect())));
            extra.push(("body", expr(cx, body.value)));
            extra.push(("capture", s(format!("{:?}", c.capture_clause))));
        }
        K::Block(b, _) => {
            kind = "Block";
            extra.extend(block(cx, b));
        }
        K::Assign(l, r, _) => {
            kind = "Assign";
            extra.push(("l", expr(cx, l)));
            extra.push(("r", expr(cx, r)));
        }
        K::AssignOp(op, l, r) => {
            kind = "AssignOp";
            extra.push(("op", s(format!("{:?}", op.node).trim_end_matches("Assign").to_string())));
            if cx.typeck.is_method_call(e) {
                callee_of(cx, e.hir_id, &mut extra);
            }
            extra.push(("l", expr(cx, l)));
            extra.push(("r", expr(cx, r)));
        }
        K::Field(b, ident) => {
            kind = "Field";
            extra.push(("name", s(ident.name.to_string())));
            let mut bt = cx.typeck.expr_ty_adjusted(b);
            while let ty::Ref(_, inner, _) = bt.kind() {
                bt = *inner;
            }
            if let ty::Adt(ad, _) = bt.kind() {
                extra.push(("adt", s(path_of(cx.tcx, ad.did()))));
            }
            extra.push(("e", expr(cx, b)));
        }
        K::Index(b, i, _) => {
            kind = "Index";
            if cx.typeck.is_method_call(e) {
                callee_of(cx, e.hir_id, &mut extra);
            }
            extra.push(("bty", s(ty_str(cx.typeck.expr_ty_adjusted(b)))));
            extra.push(("e", expr(cx, b)));
            extra.push(("i", expr(cx, i)));
        }
        K::Path(q) => {
            kind = "Path";
            extra.extend(qpath_j(cx, q, e.hir_id));
        }
        K::AddrOf(bk, m, x) => {
            kind = "AddrOf";
            extra.push(("mut", J::B(m.is_mut())));
            if matches!(bk, hir::BorrowKind::Raw) {
                extra.push(("raw", J::B(true)));
            }
            extra.push(("e", expr(cx, x)));
        }
        K::Break(dest, x) => {
            kind = "Break";
            if let Ok(t) = dest.target_id {
                extra.push(("target", J::I(t.local_id.as_u32() as i128)));
            }
            if let Some(x) = x {
                extra.push(("e", expr(cx, x)));
            }
        }
        K::Continue(dest) => {
            kind = "Continue";
            if let Ok(t) = dest.target_id {
                extra.push(("target", J::I(t.local_id.as_u32() as i128)));
            }
        }
        K::Ret(x) => {
            kind = "Ret";
            if let Some(x) = x {
                extra.push(("e", expr(cx, x)));
            }
        }
        K::Become(x) => {
            kind = "Become";
            extra.push(("e", expr(cx, x)));
        }
        K::InlineAsm(_) => kind = "InlineAsm",
        K::OffsetOf(..) => kind = "OffsetOf",
        K::Struct(q, fields, tail) => {
            kind = "Struct";
            extra.extend(qpath_j(cx, q, e.hir_id));
            let mut fs = Vec::new();
            for f in fields.iter() {
                fs.push(J::O(vec![
                    ("name", s(f.ident.name.to_string())),
                    ("e", expr(cx, f.expr)),
                ]));
            }
            extra.push(("fields", J::A(fs)));
            if let hir::StructTailExpr::Base(b) = tail {
                extra.push(("base", expr(cx, b)));
            }
        }
        K::Repeat(x, _) => {
            kind = "Repeat";
            extra.push(("e", expr(cx, x)));
        }
        K::Yield(x, _) => {
            kind = "Yield";
            extra.push(("e", expr(cx, x)));
        }
        K::UnsafeBinderCast(_, x, _) => {
            kind = "UnsafeBinderCast";
            extra.push(("e", expr(cx, x)));
        }
        K::Err(_) => kind = "Err",
        K::DropTemps(_) | K::Use(..) | K::Type(..) => unreachable!(),
    }
    o.push(("k", s(kind)));
    o.push(("id", J::I(e.hir_id.local_id.as_u32() as i128)));
    o.push(("ty", s(ty_str(cx.typeck.expr_ty(e)))));
    o.push(("sp", s(span_str(cx.tcx, e.span))));
    o.push(("mac", macro_chain(e.span)));
    o.extend(extra);
    J::O(o)
}
