use crate::hirdump::macro_chain;
use crate::items::{path_of, scalar_to_j, span_str, ty_str};
use crate::json::{s, J};
use rustc_hir::def_id::LocalDefId;
use rustc_middle::mir::{
    self, AggregateKind, AssertKind, BasicBlock, Body, Operand, Place, ProjectionElem, Rvalue,
    StatementKind, TerminatorKind, UnwindAction,
};
use rustc_middle::ty::{self, TyCtxt};

struct M<'a, 'tcx> {
    tcx: TyCtxt<'tcx>,
    body: &'a Body<'tcx>,
    env: ty::TypingEnv<'tcx>,
}

fn bb(b: BasicBlock) -> J {
    J::I(b.as_u32() as i128)
}

impl<'a, 'tcx> M<'a, 'tcx> {
    fn place(&self, p: &Place<'tcx>) -> J {
        let mut o: Vec<(&'static str, J)> = vec![("l", J::I(p.local.as_u32() as i128))];
        if !p.projection.is_empty() {
            let mut pv = Vec::new();
            let mut pty = mir::PlaceTy::from_ty(self.body.local_decls[p.local].ty);
            for elem in p.projection.iter() {
                match elem {
                    ProjectionElem::Deref => pv.push(s("*")),
                    ProjectionElem::Field(f, _) => {
                        let mut name = format!("{}", f.as_u32());
                        let mut adtp = J::Null;
                        if let ty::Adt(ad, _) = pty.ty.kind() {
                            let v = match pty.variant_index {
                                Some(v) => Some(v),
                                None if ad.is_struct() || ad.is_union() => {
                                    Some(rustc_abi::FIRST_VARIANT)
                                }
                                None => None,
                            };
                            if let Some(v) = v {
                                name = ad.variant(v).fields[f].name.to_string();
                            }
                            adtp = s(path_of(self.tcx, ad.did()));
                        }
                        pv.push(J::O(vec![("f", s(name)), ("adt", adtp)]));
                    }
                    ProjectionElem::Index(l) => {
                        pv.push(J::O(vec![("idx", J::I(l.as_u32() as i128))]));
                    }
                    ProjectionElem::ConstantIndex { offset, from_end, .. } => {
                        pv.push(J::O(vec![
                            ("cidx", J::I(offset as i128)),
                            ("from_end", J::B(from_end)),
                        ]));
                    }
                    ProjectionElem::Subslice { from, to, from_end } => {
                        pv.push(J::O(vec![
                            ("sub_from", J::I(from as i128)),
                            ("sub_to", J::I(to as i128)),
                            ("from_end", J::B(from_end)),
                        ]));
                    }
                    ProjectionElem::Downcast(name, _) => {
                        pv.push(J::O(vec![(
                            "variant",
                            s(name.map(|n| n.to_string()).unwrap_or_default()),
                        )]));
                    }
                    ProjectionElem::OpaqueCast(_) | ProjectionElem::UnwrapUnsafeBinder(_) => {
                        pv.push(s("cast"))
                    }
                }
                pty = pty.projection_ty(self.tcx, elem);
            }
            o.push(("p", J::A(pv)));
        }
        J::O(o)
    }

    fn operand(&self, op: &Operand<'tcx>) -> J {
        match op {
            Operand::Copy(p) => J::O(vec![("k", s("copy")), ("pl", self.place(p))]),
            Operand::Move(p) => J::O(vec![("k", s("move")), ("pl", self.place(p))]),
            Operand::Constant(c) => {
                let ty = c.const_.ty();
                let mut o = vec![("k", s("const")), ("ty", s(ty_str(ty)))];
                match ty.kind() {
                    ty::FnDef(did, args) => {
                        o.push(("fn", s(path_of(self.tcx, *did))));
                        if let Ok(Some(inst)) =
                            ty::Instance::try_resolve(self.tcx, self.env, *did, args)
                        {
                            if inst.def_id() != *did {
                                o.push(("resolved", s(path_of(self.tcx, inst.def_id()))));
                            }
                        }
                    }
                    ty::Int(_) | ty::Uint(_) | ty::Bool | ty::Char => {
                        if let Some(si) = c.const_.try_eval_scalar_int(self.tcx, self.env) {
                            o.push(("v", scalar_to_j(si, ty)));
                        }
                    }
                    _ => {}
                }
                // named const / static reference
                if let mir::Const::Unevaluated(uv, _) = c.const_ {
                    o.push(("def", s(path_of(self.tcx, uv.def))));
                }
                J::O(o)
            }
            #[allow(unreachable_patterns)]
            _ => J::O(vec![("k", s("runtime_checks"))]),
        }
    }

    fn rvalue(&self, rv: &Rvalue<'tcx>) -> J {
        match rv {
            Rvalue::Use(op, _) => J::O(vec![("k", s("use")), ("a", self.operand(op))]),
            Rvalue::Repeat(op, _) => J::O(vec![("k", s("repeat")), ("a", self.operand(op))]),
            Rvalue::Ref(_, bk, p) => J::O(vec![
                ("k", s("ref")),
                ("mut", J::B(matches!(bk, mir::BorrowKind::Mut { .. }))),
                ("pl", self.place(p)),
            ]),
            Rvalue::ThreadLocalRef(did) => {
                J::O(vec![("k", s("tlref")), ("def", s(path_of(self.tcx, *did)))])
            }
            Rvalue::RawPtr(kind, p) => J::O(vec![
                ("k", s("rawptr")),
                ("mut", J::B(matches!(kind, mir::RawPtrKind::Mut))),
                ("pl", self.place(p)),
            ]),
            Rvalue::Cast(ck, op, ty) => J::O(vec![
                ("k", s("cast")),
                ("ck", s(format!("{:?}", ck).split('(').next().unwrap_or("").to_string())),
                ("a", self.operand(op)),
                ("from", s(ty_str(op.ty(&self.body.local_decls, self.tcx)))),
                ("ty", s(ty_str(*ty))),
            ]),
            Rvalue::BinaryOp(op, ab) => J::O(vec![
                ("k", s("bin")),
                ("op", s(format!("{:?}", op))),
                ("a", self.operand(&ab.0)),
                ("b", self.operand(&ab.1)),
            ]),
            Rvalue::UnaryOp(op, a) => J::O(vec![
                ("k", s("un")),
                ("op", s(format!("{:?}", op))),
                ("a", self.operand(a)),
            ]),
            Rvalue::Discriminant(p) => J::O(vec![("k", s("discr")), ("pl", self.place(p))]),
            Rvalue::Aggregate(kind, ops) => {
                let mut o = vec![("k", s("agg"))];
                match &**kind {
                    AggregateKind::Array(_) => o.push(("ak", s("array"))),
                    AggregateKind::Tuple => o.push(("ak", s("tuple"))),
                    AggregateKind::Adt(did, vidx, _, _, _) => {
                        o.push(("ak", s("adt")));
                        o.push(("adt", s(path_of(self.tcx, *did))));
                        let ad = self.tcx.adt_def(*did);
                        let v = ad.variant(*vidx);
                        o.push(("variant", s(v.name.to_string())));
                        o.push((
                            "fields",
                            J::A(v.fields.iter().map(|f| s(f.name.to_string())).collect()),
                        ));
                    }
                    AggregateKind::Closure(did, _) => {
                        o.push(("ak", s("closure")));
                        o.push(("def", s(path_of(self.tcx, *did))));
                    }
                    AggregateKind::Coroutine(did, _) | AggregateKind::CoroutineClosure(did, _) => {
                        o.push(("ak", s("coroutine")));
                        o.push(("def", s(path_of(self.tcx, *did))));
                    }
                    AggregateKind::RawPtr(..) => o.push(("ak", s("rawptr"))),
                }
                o.push(("ops", J::A(ops.iter().map(|x| self.operand(x)).collect())));
                J::O(o)
            }
            Rvalue::CopyForDeref(p) => J::O(vec![
                ("k", s("use")),
                ("a", J::O(vec![("k", s("copy")), ("pl", self.place(p))])),
            ]),
            Rvalue::WrapUnsafeBinder(op, _) => {
                J::O(vec![("k", s("use")), ("a", self.operand(op))])
            }
        }
    }

    fn unwind(&self, u: &UnwindAction) -> J {
        match u {
            UnwindAction::Cleanup(b) => bb(*b),
            _ => J::Null,
        }
    }

    fn assert_kind(&self, m: &AssertKind<Operand<'tcx>>) -> Vec<(&'static str, J)> {
        match m {
            AssertKind::BoundsCheck { len, index } => vec![
                ("ak", s("BoundsCheck")),
                ("len", self.operand(len)),
                ("index", self.operand(index)),
            ],
            AssertKind::Overflow(op, a, b) => vec![
                ("ak", s("Overflow")),
                ("op", s(format!("{:?}", op))),
                ("a", self.operand(a)),
                ("b", self.operand(b)),
            ],
            AssertKind::OverflowNeg(a) => vec![("ak", s("OverflowNeg")), ("a", self.operand(a))],
            AssertKind::DivisionByZero(a) => {
                vec![("ak", s("DivisionByZero")), ("a", self.operand(a))]
            }
            AssertKind::RemainderByZero(a) => {
                vec![("ak", s("RemainderByZero")), ("a", self.operand(a))]
            }
            AssertKind::MisalignedPointerDereference { .. } => {
                vec![("ak", s("MisalignedPointerDereference"))]
            }
            AssertKind::NullPointerDereference => vec![("ak", s("NullPointerDereference"))],
            other => vec![("ak", s(format!("{:?}", other).split('(').next().unwrap_or("").to_string()))],
        }
    }

    fn terminator(&self, t: &mir::Terminator<'tcx>) -> J {
        let mut o: Vec<(&'static str, J)> = Vec::new();
        match &t.kind {
            TerminatorKind::Goto { target } => {
                o.push(("k", s("goto")));
                o.push(("t", bb(*target)));
            }
            TerminatorKind::SwitchInt { discr, targets } => {
                o.push(("k", s("switch")));
                o.push(("d", self.operand(discr)));
                let mut tv = Vec::new();
                for (v, b) in targets.iter() {
                    let vj = if v > i128::MAX as u128 { s(format!("{}", v)) } else { J::I(v as i128) };
                    tv.push(J::A(vec![vj, bb(b)]));
                }
                o.push(("targets", J::A(tv)));
                o.push(("otherwise", bb(targets.otherwise())));
                o.push(("dty", s(ty_str(discr.ty(&self.body.local_decls, self.tcx)))));
            }
            TerminatorKind::UnwindResume => o.push(("k", s("resume"))),
            TerminatorKind::UnwindTerminate(_) => o.push(("k", s("terminate"))),
            TerminatorKind::Return => o.push(("k", s("return"))),
            TerminatorKind::Unreachable => o.push(("k", s("unreachable"))),
            TerminatorKind::Drop { place, target, unwind, .. } => {
                o.push(("k", s("drop")));
                o.push(("pl", self.place(place)));
                o.push(("t", bb(*target)));
                o.push(("u", self.unwind(unwind)));
            }
            TerminatorKind::Call { func, args, destination, target, unwind, call_source, fn_span } => {
                o.push(("k", s("call")));
                o.push(("f", self.operand(func)));
                o.push(("args", J::A(args.iter().map(|a| self.operand(&a.node)).collect())));
                o.push(("dest", self.place(destination)));
                if let Some(tg) = target {
                    o.push(("t", bb(*tg)));
                }
                o.push(("u", self.unwind(unwind)));
                o.push(("src", s(format!("{:?}", call_source))));
                o.push(("fsp", s(span_str(self.tcx, *fn_span))));
            }
            TerminatorKind::TailCall { func, args, .. } => {
                o.push(("k", s("tailcall")));
                o.push(("f", self.operand(func)));
                o.push(("args", J::A(args.iter().map(|a| self.operand(&a.node)).collect())));
            }
            TerminatorKind::Assert { cond, expected, msg, target, unwind } => {
                o.push(("k", s("assert")));
                o.push(("cond", self.operand(cond)));
                o.push(("expected", J::B(*expected)));
                o.extend(self.assert_kind(msg));
                o.push(("t", bb(*target)));
                o.push(("u", self.unwind(unwind)));
            }
            TerminatorKind::Yield { .. } => o.push(("k", s("yield"))),
            TerminatorKind::CoroutineDrop => o.push(("k", s("coroutine_drop"))),
            TerminatorKind::FalseEdge { real_target, .. } => {
                o.push(("k", s("goto")));
                o.push(("t", bb(*real_target)));
            }
            TerminatorKind::FalseUnwind { real_target, .. } => {
                o.push(("k", s("goto")));
                o.push(("t", bb(*real_target)));
            }
            TerminatorKind::InlineAsm { .. } => o.push(("k", s("asm"))),
        }
        o.push(("sp", s(span_str(self.tcx, t.source_info.span))));
        o.push(("mac", macro_chain(t.source_info.span)));
        J::O(o)
    }
}

pub fn dump_mir<'tcx>(tcx: TyCtxt<'tcx>, ldid: LocalDefId) -> J {
    let did = ldid.to_def_id();
    if !tcx.is_mir_available(did) {
        return J::Null;
    }
    let body: &Body<'tcx> = tcx.optimized_mir(did);
    let env = ty::TypingEnv::post_analysis(tcx, did);
    let m = M { tcx, body, env };
    // locals
    let mut names: Vec<Option<String>> = vec![None; body.local_decls.len()];
    let mut dbg = Vec::new();
    for vdi in body.var_debug_info.iter() {
        if let mir::VarDebugInfoContents::Place(p) = &vdi.value {
            if p.projection.is_empty() {
                names[p.local.as_usize()] = Some(vdi.name.to_string());
            } else {
                dbg.push(J::O(vec![("name", s(vdi.name.to_string())), ("pl", m.place(p))]));
            }
        }
    }
    let mut locals = Vec::new();
    for (l, d) in body.local_decls.iter_enumerated() {
        let mut o = vec![("ty", s(ty_str(d.ty)))];
        if let Some(n) = &names[l.as_usize()] {
            o.push(("name", s(n.clone())));
        }
        if d.mutability.is_mut() {
            o.push(("mut", J::B(true)));
        }
        locals.push(J::O(o));
    }
    let mut blocks = Vec::new();
    for (_b, data) in body.basic_blocks.iter_enumerated() {
        let mut stmts = Vec::new();
        for st in data.statements.iter() {
            match &st.kind {
                StatementKind::Assign(bx) => {
                    let (p, rv) = &**bx;
                    stmts.push(J::O(vec![
                        ("k", s("assign")),
                        ("pl", m.place(p)),
                        ("rv", m.rvalue(rv)),
                        ("sp", s(span_str(tcx, st.source_info.span))),
                        ("mac", macro_chain(st.source_info.span)),
                    ]));
                }
                StatementKind::SetDiscriminant { place, variant_index } => {
                    stmts.push(J::O(vec![
                        ("k", s("setdiscr")),
                        ("pl", m.place(place)),
                        ("v", J::I(variant_index.as_u32() as i128)),
                    ]));
                }
                StatementKind::Intrinsic(i) => {
                    stmts.push(J::O(vec![
                        ("k", s("intrinsic")),
                        ("what", s(format!("{:?}", i).split('(').next().unwrap_or("").to_string())),
                        ("sp", s(span_str(tcx, st.source_info.span))),
                    ]));
                }
                _ => {}
            }
        }
        let mut bo = vec![("s", J::A(stmts))];
        if let Some(t) = &data.terminator {
            bo.push(("t", m.terminator(t)));
        }
        if data.is_cleanup {
            bo.push(("cleanup", J::B(true)));
        }
        blocks.push(J::O(bo));
    }
    J::O(vec![
        ("argc", J::I(body.arg_count as i128)),
        ("locals", J::A(locals)),
        ("dbg", J::A(dbg)),
        ("blocks", J::A(blocks)),
    ])
}
