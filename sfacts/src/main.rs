//! sfacts — rustc_private driver that dumps a fact base (items, typed HIR, MIR) per crate.
//!
//! Injected with RUSTC_WORKSPACE_WRAPPER under `cargo +nightly check`: argv[1] is the real
//! rustc path and is dropped.  One JSON file is written per analysed crate into $SFACTS_OUT
//! (a single write per process; parallel crates never share a file).
#![feature(rustc_private)]
#![allow(clippy::all)]

extern crate rustc_abi;
extern crate rustc_ast;
extern crate rustc_data_structures;
extern crate rustc_driver;
extern crate rustc_hir;
extern crate rustc_interface;
extern crate rustc_middle;
extern crate rustc_session;
extern crate rustc_span;

mod hirdump;
mod items;
mod json;
mod mirdump;

use json::{s, J};
use rustc_driver::Compilation;
use rustc_middle::ty::TyCtxt;

struct Cb;

impl rustc_driver::Callbacks for Cb {
    fn after_analysis<'tcx>(
        &mut self,
        _c: &rustc_interface::interface::Compiler,
        tcx: TyCtxt<'tcx>,
    ) -> Compilation {
        let out_dir = match std::env::var("SFACTS_OUT") {
            Ok(d) => d,
            Err(_) => return Compilation::Continue,
        };
        let crate_name = tcx.crate_name(rustc_hir::def_id::LOCAL_CRATE).to_string();
        if crate_name.starts_with("build_script") {
            return Compilation::Continue;
        }
        let pkg = std::env::var("CARGO_PKG_NAME").unwrap_or_else(|_| "unknown".into());
        let crate_types: Vec<String> =
            tcx.crate_types().iter().map(|t| format!("{:?}", t)).collect();
        let kind = crate_types.join("+");
        let is_test = tcx.sess.opts.test;
        let mut top: Vec<(&'static str, J)> = Vec::new();
        top.push(("schema", J::I(3)));
        top.push(("crate", s(crate_name.clone())));
        top.push(("pkg", s(pkg.clone())));
        top.push(("crate_types", s(kind.clone())));
        top.push(("test", J::B(is_test)));
        items::dump_items(tcx, &mut top);
        let mut fns: Vec<(String, J)> = Vec::new();
        let mut nbodies = 0i128;
        for def in tcx.hir_body_owners() {
            if let Some((k, j)) = items::dump_body(tcx, def) {
                nbodies += 1;
                fns.push((k, j));
            }
        }
        top.push(("nbodies", J::I(nbodies)));
        top.push(("fns", J::M(fns)));
        let mut buf = String::with_capacity(1 << 24);
        J::O(top).write(&mut buf);
        let fname = format!(
            "{}/{}--{}--{}{}.json",
            out_dir,
            pkg,
            crate_name,
            kind,
            if is_test { "--test" } else { "" }
        );
        let tmp = format!("{}.tmp{}", fname, std::process::id());
        std::fs::write(&tmp, buf).expect("sfacts: write facts");
        std::fs::rename(&tmp, &fname).expect("sfacts: rename facts");
        Compilation::Continue
    }
}

fn main() {
    let mut args: Vec<String> = std::env::args().collect();
    // RUSTC_WORKSPACE_WRAPPER protocol: argv[1] is the path of the real rustc.
    if args.len() > 1 && (args[1].ends_with("rustc") || args[1].contains("/rustc")) {
        args.remove(1);
    }
    let mut cb = Cb;
    rustc_driver::run_compiler(&args, &mut cb);
}
