#!/usr/bin/env python3
"""field_rename.py <worktree> — renames the private fields (suffix `_q`) of the sudachi library's structs that are not
(de)serialised, at the definition, in struct literals / patterns and at every access; names that do not compile that way (a local
of the same name used in shorthand initialisation, a parameter of the same name, a field of a foreign type) are left out, driven
by the compiler's error messages.  A maintainer's rename of a private field is behaviour-preserving; the checks must stay silent
on the result (sverif/rename.py: reconcile_fields)."""
import os, re, subprocess, sys, collections
sys.path.insert(0, "/verif")
from dbg import load
from sverif.db import walk

W = sys.argv[1]
db = load("/repo")
serde = {i.get("self_adt") for i in db.impls if "serde" in (i.get("trait") or "")}
elig, other = collections.Counter(), collections.Counter()
for k, a in db.adts.items():
    if a.get("kind") != "Struct" or len(a.get("variants") or []) != 1:
        for v in a.get("variants") or []:
            for f_ in v.get("fields") or []:
                other[f_.get("name")] += 1
        continue
    for f_ in a["variants"][0].get("fields") or []:
        nm = f_.get("name")
        ok = (a.get("pkg") == "sudachi" and k not in serde and not (f_.get("vis") or "").startswith("Public") and re.fullmatch(r"[a-z_][a-z0-9_]*", nm or "")
              and len(nm) > 2 and "::tests::" not in k)
        (elig if ok else other)[nm] += 1
# names also used as fields of foreign types
foreign = set()
for f in db.fns.values():
    if f.hir:
        for x, _ in walk(f.hir):
            if x.get("k") == "Field" and x.get("adt") not in db.adts:
                foreign.add(x.get("name"))
names = {n for n in elig if n not in other and n not in foreign}
files = []
for top in ("sudachi/src", "sudachi-cli/src", "python/src", "sudachi/tests", "plugin"):
    for root, ds, fs in os.walk(os.path.join(W, top)):
        if "target" in root:
            continue
        for fn in fs:
            if fn.endswith(".rs"):
                files.append(os.path.join(root, fn))
orig = {p: open(p).read() for p in files}


def render(ns):
    if not ns:
        return
    alt = "|".join(sorted(map(re.escape, ns), key=len, reverse=True))
    acc = re.compile(r"(?<=\.)(%s)\b(?!\s*(\(|::<))" % alt)                 # x.field (not a method call)
    ini = re.compile(r"(?<![\w.:])(%s)(?=\s*:(?!:))" % alt)                   # field: value / field: Type
    for p, t in orig.items():
        out = []
        for ln in t.split("\n"):
            code, sep, com = ln.partition("//")
            code = acc.sub(lambda m: m.group(1) + "_q", code)
            code = ini.sub(lambda m: m.group(1) + "_q", code)
            out.append(code + sep + com)
        open(p, "w").write("\n".join(out))


for it in range(14):
    for p, t in orig.items():
        open(p, "w").write(t)
    render(names)
    r = subprocess.run(["cargo", "check", "--offline", "--workspace", "--tests", "--message-format=short"], cwd=W, stderr=subprocess.PIPE, stdout=subprocess.PIPE, text=True,
                       env=dict(os.environ, CARGO_TARGET_DIR=os.path.join(W, "target"), CARGO_NET_OFFLINE="true"))
    if r.returncode == 0:
        break
    errl = [l for l in r.stderr.split("\n") if ": error" in l]
    bad = set()
    for l in errl:
        for m in re.findall(r"`(\w+)`", l):
            if m.endswith("_q") and m[:-2] in names:
                bad.add(m[:-2])
            elif m in names:
                bad.add(m)
    for file, line in re.findall(r"^([^\s:]+\.rs):(\d+):\d+: error", r.stderr, re.M):
        try:
            src = open(os.path.join(W, file)).read().split("\n")[int(line) - 1]
        except Exception:
            continue
        bad |= set(m[:-2] for m in re.findall(r"\b(\w+_q)\b", src)) & names
    if not bad:
        print("cannot attribute errors:\n" + "\n".join(errl[:20]))
        sys.exit(2)
    names -= bad
    print("iteration %d: %d errors, leaving out %d names" % (it, len(errl), len(bad)), flush=True)
else:
    print("did not converge")
    sys.exit(2)
print("renamed %d private fields: %s" % (len(names), " ".join(sorted(names))))
