#!/usr/bin/env python3
"""alpha_rename.py <worktree> — the purest behaviour-preserving refactoring, generated mechanically: every local binding (parameters,
let / match / closure / loop bindings; not `self`) of every non-test function of the sudachi library, the CLI and the Python binding
is renamed (suffix `_q`).  Functions whose renaming does not compile (struct-init shorthand, inline format arguments, macro hygiene)
are left as they are: the compiler's error positions drive the exclusion, until the workspace compiles.  Used to test the rules'
independence from local names: the checks must stay silent on the result."""
import json, os, re, subprocess, sys
sys.path.insert(0, "/verif")
from dbg import load
from sverif.db import walk

W = sys.argv[1]
db = load("/repo")


def binds(f):
    names = set()
    for p in f.info.get("params") or []:
        for x, _ in walk(p):
            if x.get("k") == "Bind":
                names.add(x.get("name"))
    for x, _ in walk(f.hir):
        if x.get("k") == "Bind" and x.get("name"):
            names.add(x["name"])
    return {n for n in names if n and n != "self" and re.fullmatch(r"[a-z_][a-z0-9_]*", n) and not n.startswith("__") and n != "_"}


fns = []
for f in db.fns.values():
    sp = f.info.get("span") or ""
    if not f.hir or "::tests::" in f.key or "::test::" in f.key or f.info.get("kind") not in ("Fn", "AssocFn") or not f.info.get("end_line"):
        continue
    file, line = sp.split(":")[0], int(sp.split(":")[1])
    if file.startswith("python/") or not os.path.exists(os.path.join(W, file)) or "/tests/" in file or file.endswith("tests.rs") or file.endswith("test.rs"):
        continue
    if any(m for m in (f.info.get("expn") or [])):
        continue
    ns = binds(f)
    if ns:
        fns.append((file, line, int(f.info["end_line"]), f.key, ns))
# drop functions nested inside other functions' spans (inner fn items): keep the outermost
fns.sort(key=lambda t: (t[0], t[1], -t[2]))
top = []
for t in fns:
    if top and top[-1][0] == t[0] and t[1] >= top[-1][1] and t[2] <= top[-1][2]:
        top[-1][4].update(t[4])
        continue
    top.append((t[0], t[1], t[2], t[3], set(t[4])))
orig = {}
for file in {t[0] for t in top}:
    orig[file] = open(os.path.join(W, file)).read().split("\n")


skip_names = {}           # function key -> names left alone in that function (shorthand struct init, inline format args, ...)


def render(excluded):
    for file, lines in orig.items():
        out = list(lines)
        for (fl, a, b, key, ns) in top:
            if fl != file or key in excluded:
                continue
            ns = ns - skip_names.get(key, set())
            if not ns:
                continue
            pat = re.compile(r"(?<![\w.'])(%s)(?![\w(!'])(?!\s*::)" % "|".join(sorted(map(re.escape, ns), key=len, reverse=True)))
            for i in range(a - 1, min(b, len(out))):
                ln = out[i]
                code, sep, com = ln.partition("//")
                out[i] = pat.sub(lambda m: m.group(1) + "_q", code) + sep + com
        open(os.path.join(W, file), "w").write("\n".join(out))


excluded = set()
for it in range(16):
    render(excluded)
    r = subprocess.run(["cargo", "check", "--offline", "--workspace", "--message-format=short"], cwd=W, stderr=subprocess.PIPE, stdout=subprocess.PIPE, text=True,
                       env=dict(os.environ, CARGO_TARGET_DIR=os.path.join(W, "target"), CARGO_NET_OFFLINE="true"))
    errs = re.findall(r"^([^\s:]+\.rs):(\d+):\d+: error(.*)$", r.stderr, re.M)
    if r.returncode == 0:
        break
    new = set()
    for file, line, msg in errs:
        line = int(line)
        for (fl, a, b, key, ns) in top:
            if W.rstrip("/") + "/" + fl == os.path.abspath(os.path.join(W, file)) or fl == file or fl.endswith(file) or file.endswith(fl):
                if a <= line <= b:
                    # first try to leave only the offending names alone; the whole function only when none can be named
                    try:
                        src = open(os.path.join(W, fl)).read().split("\n")[line - 1]
                    except Exception:
                        src = ""
                    cand = {m[:-2] for m in re.findall(r"\b(\w+)_q\b", msg + " " + src) and re.findall(r"\b(\w+_q)\b", msg + " " + src)} & (ns - skip_names.get(key, set()))
                    cand |= set(re.findall(r"`(\w+)`", msg)) & (ns - skip_names.get(key, set()))
                    if cand and it < 8:
                        skip_names.setdefault(key, set()).update(cand)
                    else:
                        new.add(key)
    if not new and not any(skip_names.values()):
        print("cannot attribute errors:\n" + r.stderr[-3000:])
        sys.exit(2)
    excluded |= new
    print("iteration %d: %d errors, excluding %d more functions (%d total)" % (it, len(errs), len(new - (excluded - new)), len(excluded)), flush=True)
else:
    print("did not converge")
    sys.exit(2)
print("renamed %d functions (%d of them partially), left %d unchanged" % (len(top) - len(excluded), sum(1 for k, v in skip_names.items() if v and k not in excluded), len(excluded)))
