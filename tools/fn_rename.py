#!/usr/bin/env python3
"""fn_rename.py <worktree> — renames every private (non-pub, non-trait) function / method of the sudachi library whose name is
unique in the workspace (definition and all uses, suffix `_q`), leaving out the names that do not compile that way.  A maintainer's
rename of a private helper is behaviour-preserving; the checks must stay silent on the result (see sverif/rename.py)."""
import os, re, subprocess, sys, collections
sys.path.insert(0, "/verif")
from dbg import load
from sverif.db import walk, callee, is_call

W = sys.argv[1]
db = load("/repo")
defs = collections.Counter()
for f in db.fns.values():
    if f.info.get("kind") in ("Fn", "AssocFn"):
        defs[f.name] += 1
for k in db.fnsigs:
    defs[k.rsplit("::", 1)[-1]] += 0
used_elsewhere = set()
for f in db.fns.values():
    if not f.hir:
        continue
    for c, _ in walk(f.hir):
        if is_call(c):
            cl = callee(c) or ""
            if not any(cl.startswith(p) for p in ("sudachi::", "<sudachi::", "crate::")):
                used_elsewhere.add(cl.rsplit("::", 1)[-1])
COMMON = {"new", "from", "len", "iter", "next", "default", "parse", "write", "get", "read", "build", "clear", "reset", "push", "add", "index", "cost", "size", "main"}
names = set()
for f in db.fns.values():
    sp = f.info.get("span") or ""
    if (f.info.get("kind") in ("Fn", "AssocFn") and f.hir and f.pkg == "sudachi" and f.info.get("vis") != "Public" and not f.trait and not f.key.startswith("<")
            and "::tests::" not in f.key and "::test::" not in f.key and "{" not in f.key and "::__" not in f.key
            and defs[f.name] == 1 and f.name not in used_elsewhere and f.name not in COMMON and len(f.name) > 3 and sp.startswith("sudachi/src")):
        names.add(f.name)
files = []
for root, ds, fs in os.walk(os.path.join(W, "sudachi", "src")):
    for fn in fs:
        if fn.endswith(".rs"):
            files.append(os.path.join(root, fn))
orig = {p: open(p).read() for p in files}


def render(ns):
    if not ns:
        for p, t in orig.items():
            open(p, "w").write(t)
        return
    pat = re.compile(r"(?<![\w'])(%s)(?=\s*(\(|::<))" % "|".join(sorted(map(re.escape, ns), key=len, reverse=True)))
    for p, t in orig.items():
        out = []
        for ln in t.split("\n"):
            code, sep, com = ln.partition("//")
            out.append(pat.sub(lambda m: m.group(1) + "_q", code) + sep + com)
        open(p, "w").write("\n".join(out))


for it in range(10):
    render(names)
    r = subprocess.run(["cargo", "check", "--offline", "--workspace", "--tests", "--message-format=short"], cwd=W, stderr=subprocess.PIPE, stdout=subprocess.PIPE, text=True,
                       env=dict(os.environ, CARGO_TARGET_DIR=os.path.join(W, "target"), CARGO_NET_OFFLINE="true"))
    if r.returncode == 0:
        break
    bad = (set(m[:-2] for m in re.findall(r"`(\w+_q)`", r.stderr)) | set(re.findall(r"`(\w+)`", r.stderr))) & names
    if True:
        # attribute by position: any renamed identifier on an error line
        for file, line in re.findall(r"^([^\s:]+\.rs):(\d+):\d+: error", r.stderr, re.M):
            try:
                src = open(os.path.join(W, file)).read().split("\n")[int(line) - 1]
            except Exception:
                continue
            bad |= set(m[:-2] for m in re.findall(r"\b(\w+_q)\b", src)) & names
    if not bad:
        print("cannot attribute errors:\n" + r.stderr[-2000:])
        sys.exit(2)
    names -= bad
    print("iteration %d: leaving out %s" % (it, sorted(bad)), flush=True)
else:
    print("did not converge")
    sys.exit(2)
print("renamed %d private functions: %s" % (len(names), " ".join(sorted(names))))
