#!/bin/bash
# builds the sfacts driver (nightly, rustc_private, zero crates.io deps) — offline
set -e
cd "$(dirname "$0")"
export CARGO_NET_OFFLINE=true
(cd sfacts && cargo +nightly build --offline --release 2>&1 | tail -3)
test -x sfacts/target/release/sfacts
# witness crate lockfile = the repository's own lockfile (no resolution, no network)
if [ -d witness ]; then cp /repo/Cargo.lock witness/Cargo.lock 2>/dev/null || true; fi
echo "setup ok"
