#!/bin/bash
# usage: try_patch.sh <patch.diff> <prop>...   — applies a change to /repo, runs the quick checks, undoes it
P=$1; shift
git -C /repo apply "$P" || { echo "patch does not apply"; exit 3; }
cd /verif; for p in "$@"; do ./check $p 2>&1 | grep -v "^  rule=" | grep -v KNOWN | cut -c1-400; done
git -C /repo checkout -- .
