#!/bin/bash
# usage: try_patch.sh <patch.diff> <prop>...   — applies a change to a scratch COPY of /repo (never /repo itself) and runs the quick checks on it
P=$(readlink -f "$1"); shift
T=$(mktemp -d /var/tmp/sverif-try-XXXXXX)
rsync -a --exclude target --exclude .git /repo/ $T/
( cd $T && patch -p1 -s -f --no-backup-if-mismatch -i "$P" ) || { echo "patch does not apply"; rm -rf $T; exit 3; }
cd /verif; for p in "$@"; do ./check $p --repo $T 2>&1 | grep -v "^  rule=" | grep -v KNOWN | cut -c1-400; done
rm -rf $T
