#!/usr/bin/env python3
"""keep_seeded.py <id> <property> <src dir> <demo test name> <expect key prefix or -> <needs...>
copies patch.diff/demo.rs/README.md into /verif/seeded/<id>/ and writes meta.json (detected_by is filled from a check run with
the patch applied to /repo, which is undone afterwards)."""
import json, os, shutil, subprocess, sys
sid, prop, src, demo, expect = sys.argv[1:6]
needs = " ".join(sys.argv[6:])
d = os.path.join("/verif/seeded", sid)
os.makedirs(d, exist_ok=True)
for f in ("patch.diff", "demo.rs", "README.md"):
    if os.path.exists(os.path.join(src, f)):
        shutil.copy(os.path.join(src, f), os.path.join(d, f))
import tempfile
T = tempfile.mkdtemp(prefix="sverif-keep-", dir="/var/tmp")
subprocess.check_call(["rsync", "-a", "--exclude", "target", "--exclude", ".git", "/repo/", T + "/"])
try:
    subprocess.check_call(["patch", "-p1", "-s", "-f", "--no-backup-if-mismatch", "-i", os.path.join(d, "patch.diff")], cwd=T)
    out = subprocess.run(["./check", prop, "--repo", T], cwd="/verif", stdout=subprocess.PIPE, text=True).stdout
finally:
    shutil.rmtree(T, ignore_errors=True)
keys = []
for line in out.splitlines():
    if line.startswith("VIOLATION"):
        rp = line.split("replay=")[1].strip()
        keys.append(json.load(open(rp))["key"])
pkg = os.environ.get("DEMO_PKG", "sudachi")
conf = subprocess.run(["/verif/confirm_seeded.sh", d, demo, pkg], stdout=subprocess.PIPE, text=True).stdout
meta = {
    "id": sid, "property": prop, "source": "independent sub-agent given only the property text and a scratch worktree",
    "needs_to_manifest": needs,
    "confirmed": conf.strip().splitlines(),
    "ran": ["scratch copy of /repo + seeded/%s/patch.diff ; ./check %s --repo <copy>  (identical to: git -C /repo apply ... ; ./check %s ; git -C /repo checkout -- .)" % (sid, prop, prop),
            "confirm_seeded.sh (scratch worktree): suite with change, demo with change, demo without"],
    "detected_by": keys,
    "status": "detected" if keys else "not detected (see needs_to_manifest for the reason)",
    "expect_key_prefix": expect if expect != "-" else (keys[0] if keys else ""),
}
json.dump(meta, open(os.path.join(d, "meta.json"), "w"), indent=1, ensure_ascii=False)
print(json.dumps(meta, indent=1, ensure_ascii=False))
